package c20

// SERVER-side SocksAdapter: the destination handleRequest parses, observed where it is used. With a session
// attached the adapter dials "host:port"; for ATYP=domain that starts with a name lookup through
// net.DefaultResolver. The test process installs a resolver that sends every query to an in-process DNS
// double (answers every A query with 127.0.0.1 and records the queried name), and the request's port is
// the port of a loopback listener owned by the test that answers with its identity. So for a request with
// a domain name of L octets the observation is: the exact name that was looked up + the listener that was
// reached + the reply; it is compared with what the reference parser assigns to the request
// (name octet for octet, port) for EVERY name length 1..255, plus IPv4 / IPv4-mapped IPv6 requests
// (no lookup, listener reached).

import (
	"bytes"
	"context"
	"fmt"
	"io"
	"net"
	"strings"
	"sync"
	"testing"
	"time"

	"tunnox-core/verif/vkit"
)

type dnsDouble struct {
	mu    sync.Mutex
	names []string
	addr  string
}

var (
	dnsOnce sync.Once
	dnsD    *dnsDouble
	dnsErr  error
)

func (d *dnsDouble) reset() { d.mu.Lock(); d.names = nil; d.mu.Unlock() }
func (d *dnsDouble) seen() []string {
	d.mu.Lock()
	defer d.mu.Unlock()
	return append([]string(nil), d.names...)
}

func (d *dnsDouble) serve(pc net.PacketConn) {
	buf := make([]byte, 1500)
	for {
		n, from, err := pc.ReadFrom(buf)
		if err != nil {
			return
		}
		q := buf[:n]
		if n < 12 {
			continue
		}
		// question: labels ... 0, QTYPE(2), QCLASS(2)
		p := 12
		var labels []string
		ok := true
		for {
			if p >= n {
				ok = false
				break
			}
			l := int(q[p])
			p++
			if l == 0 {
				break
			}
			if l > 63 || p+l > n {
				ok = false
				break
			}
			labels = append(labels, string(q[p:p+l]))
			p += l
		}
		if !ok || p+4 > n {
			continue
		}
		qtype := int(q[p])<<8 | int(q[p+1])
		qend := p + 4
		d.mu.Lock()
		d.names = append(d.names, strings.Join(labels, "."))
		d.mu.Unlock()
		resp := append([]byte(nil), q[:qend]...)
		resp[2], resp[3] = 0x81, 0x80 // response, recursion available, NOERROR
		resp[4], resp[5] = 0, 1
		resp[6], resp[7], resp[8], resp[9], resp[10], resp[11] = 0, 0, 0, 0, 0, 0
		if qtype == 1 { // A
			resp[7] = 1
			resp = append(resp, 0xC0, 0x0C, 0, 1, 0, 1, 0, 0, 0, 0, 0, 4, 127, 0, 0, 1)
		}
		pc.WriteTo(resp, from)
	}
}

// getDNSDouble starts the DNS double and makes it the process's resolver (once).
func getDNSDouble() (*dnsDouble, error) {
	dnsOnce.Do(func() {
		pc, err := net.ListenPacket("udp4", "127.0.0.1:0")
		if err != nil {
			dnsErr = err
			return
		}
		d := &dnsDouble{addr: pc.LocalAddr().String()}
		go d.serve(pc)
		net.DefaultResolver = &net.Resolver{PreferGo: true, Dial: func(ctx context.Context, network, address string) (net.Conn, error) {
			var dl net.Dialer
			return dl.DialContext(ctx, "udp4", d.addr)
		}}
		dnsD = d
	})
	return dnsD, dnsErr
}

// nameOfLen builds a syntactically valid host name of exactly n octets (labels <= 63, letters/digits/hyphens).
func nameOfLen(n, seed int) string {
	const first = "abcdefghijklmnopqrstuvwxyz"
	const mid = "abcdefghijklmnopqrstuvwxyz0123456789-"
	const last = "abcdefghijklmnopqrstuvwxyz0123456789"
	r := fill(2*n+8, seed)
	ri := 0
	next := func() int { ri++; return int(r[ri%len(r)]) }
	var b []byte
	remaining := n
	for remaining > 0 {
		k := 63
		if seed%2 == 1 {
			k = 1 + next()%63
		}
		if k >= remaining {
			k = remaining
		} else if remaining-k == 1 { // a dot needs at least one more octet after it
			if k > 1 {
				k--
			} else {
				k = remaining
				if k > 63 {
					k = 2
				}
			}
		}
		for i := 0; i < k; i++ {
			switch {
			case i == 0:
				b = append(b, first[next()%len(first)])
			case i == k-1:
				b = append(b, last[next()%len(last)])
			default:
				b = append(b, mid[next()%len(mid)])
			}
		}
		remaining -= k
		if remaining > 0 {
			b = append(b, '.')
			remaining--
		}
	}
	return string(b)
}

func validHostName(s string) bool { return net.ParseIP(s) == nil && validLabels(s) }

func validLabels(s string) bool {
	if s == "" {
		return false
	}
	for _, l := range strings.Split(s, ".") {
		if l == "" || len(l) > 63 || l[0] == '-' || l[len(l)-1] == '-' {
			return false
		}
		for _, c := range []byte(l) {
			if !(c >= 'a' && c <= 'z' || c >= '0' && c <= '9' || c == '-') {
				return false
			}
		}
	}
	return true
}

// replayDest: the target's port differs from process to process; the stored request is re-aimed at it.
func replayDest(t *testing.T, c Case) {
	r, err := getConcRig()
	if err != nil {
		t.Fatalf("INCONCLUSIVE: %v", err)
	}
	s := append([]byte(nil), c.Stream...)
	if len(s) >= 2 {
		s[len(s)-2], s[len(s)-1] = byte(r.targets[0].port>>8), byte(r.targets[0].port)
	}
	c.Stream = s
	checkDest(t, c)
}

type destObs struct {
	w      []byte
	hung   bool
	looked []string
}

func destExchange(r *concRig, d *dnsDouble, stream []byte) (destObs, error) {
	var o destObs
	conn, err := net.DialTimeout("tcp4", r.addr, 5*time.Second)
	if err != nil {
		return o, err
	}
	defer conn.Close()
	conn.SetDeadline(time.Now().Add(15 * time.Second))
	d.reset()
	if _, err := conn.Write(stream[:3]); err != nil {
		return o, err
	}
	sel := make([]byte, 2)
	n, err := io.ReadFull(conn, sel)
	o.w = append(o.w, sel[:n]...)
	if err != nil {
		return o, fmt.Errorf("no method selection: %v", err)
	}
	if _, err := conn.Write(stream[3:]); err != nil {
		return o, err
	}
	rest, err := io.ReadAll(conn)
	o.w = append(o.w, rest...)
	if ne, ok := err.(net.Error); ok && ne.Timeout() {
		o.hung = true
	}
	o.looked = d.seen()
	return o, nil
}

func lookedUp(looked []string, name string) bool {
	for _, q := range looked {
		q = strings.ToLower(q)
		n := strings.ToLower(name)
		if q == n || strings.HasPrefix(q, n+".") { // absolute, or with a resolv.conf search suffix
			return true
		}
	}
	return false
}

func judgeDest(r *concRig, d *dnsDouble, c Case) (f *failure) {
	for attempt := 0; attempt < 3; attempt++ {
		if f = judgeDestOnce(r, d, c); f == nil {
			return nil
		}
	}
	return f
}

func judgeDestOnce(r *concRig, d *dnsDouble, c Case) *failure {
	const p = "C20/adapter-destination"
	ref := refNegotiate(c.Stream)
	emptyName := ref.OK && ref.Atyp == rDomain && len(ref.Addr) == 0 && ref.Rsv == 0 && ref.Cmd == rCmdConnect
	if !ref.OK || (ref.Lenient && !emptyName) || ref.Cmd != rCmdConnect {
		return &failure{p + "/harness-io", "case outside the generator's domain"}
	}
	var t *target
	for i := range r.targets {
		if r.targets[i].port == ref.Port && r.targets[i].ip.Equal(net.IPv4(127, 0, 0, 1)) {
			t = &r.targets[i]
		}
	}
	if t == nil {
		return &failure{p + "/harness-io", "the request's port is not the loopback target's port (replay of a case from another process?)"}
	}
	o, err := destExchange(r, d, c.Stream)
	if err != nil {
		return &failure{p + "/harness-io", err.Error()}
	}
	if emptyName {
		return nil // RFC-open (accept the empty name or refuse it); what matters is that the server survives it
	}
	want := destString(ref.Atyp, ref.Addr)
	if ref.Atyp == rDomain && net.ParseIP(want) == nil {
		// the name as a DNS query carries it: the root label (one trailing dot) is not spelled out on the wire
		wire := strings.TrimSuffix(want, ".")
		// names that certainly have to be looked up: syntactically valid host names that fit in a DNS name
		mustLookup := len(wire) <= 253 && validHostName(wire)
		if mustLookup && !lookedUp(o.looked, wire) {
			key := p + "/domain-name-not-looked-up-as-sent/other-length"
			if n := len(ref.Addr); n == 4 || n == 16 {
				key = p + "/domain-name-not-looked-up-as-sent/name-as-long-as-an-ip-address"
			} else if strings.HasSuffix(want, ".") {
				key = p + "/domain-name-not-looked-up-as-sent/name-with-trailing-dot"
			}
			return &failure{key, fmt.Sprintf("CONNECT to the name %q (%d octets) port %d: the adapter never looked that name up (names looked up: %q); server wrote % x", want, len(ref.Addr), ref.Port, o.looked, o.w[:minInt(len(o.w), 16)])}
		}
		for _, q := range o.looked {
			if !lookedUp([]string{q}, wire) {
				return &failure{p + "/looked-up-a-different-name", fmt.Sprintf("CONNECT to the name %q: the adapter looked up %q", want, q)}
			}
		}
		if !mustLookup {
			return nil // not a name a resolver has to accept: only the parse-level checks and the lookups seen apply
		}
	} else if len(o.looked) > 0 {
		return &failure{fmt.Sprintf("%s/address-looked-up-as-name/atyp=%d", p, ref.Atyp), fmt.Sprintf("CONNECT to the address %s: the adapter looked up %q", want, o.looked)}
	}
	if o.hung {
		return &failure{p + "/connect-not-answered", fmt.Sprintf("CONNECT to %q:%d (a listening loopback port) was not answered within 15 s; server wrote % x", want, ref.Port, o.w)}
	}
	if v := adapterConnVerdictRaw(o.w, *t); v != "" {
		return &failure{fmt.Sprintf("%s/wrong-destination-dialled/atyp=%d", p, ref.Atyp), fmt.Sprintf("CONNECT to %q:%d: %s", want, ref.Port, v)}
	}
	return nil
}

// adapterConnVerdictRaw: selection + success reply + the identity of target t.
func adapterConnVerdictRaw(w []byte, t target) string {
	if !bytes.HasPrefix(w, selNoAuth) {
		return fmt.Sprintf("method selection % x", w[:minInt(len(w), 2)])
	}
	w = w[2:]
	i := bytes.Index(w, []byte("<target-"))
	reply, id := w, ""
	if i >= 0 {
		reply, id = w[:i], string(w[i:])
	}
	rep, err := refParseReply(reply)
	if err != nil {
		return fmt.Sprintf("after the selection: %v (then %q)", err, id)
	}
	if rep != 0 {
		return fmt.Sprintf("answered REP=%d although %s:%d is listening", rep, t.ip, t.port)
	}
	if id != t.id {
		return fmt.Sprintf("was connected to %q instead of %s", id, t.id)
	}
	return ""
}

func checkDest(t vkit.TB, c Case) bool {
	r, err := getConcRig()
	if err != nil {
		t.Fatalf("INCONCLUSIVE: %v", err)
		return false
	}
	d, err := getDNSDouble()
	if err != nil {
		t.Fatalf("INCONCLUSIVE: cannot start the DNS double: %v", err)
		return false
	}
	vkit.Journal("adapter-destination", c) // a panic in the adapter's connection goroutine kills the process
	if f := judgeDest(r, d, c); f != nil {
		if strings.HasSuffix(f.key, "/harness-io") {
			t.Fatalf("INCONCLUSIVE: %s", f.detail)
			return false
		}
		vkit.Violation(t, f.key, f.detail, c)
		vkit.Case("known:"+f.key, false, "")
		return false
	}
	ref := refNegotiate(c.Stream)
	class := fmt.Sprintf("adapter-dest:atyp=%d", ref.Atyp)
	if ref.Atyp == rDomain {
		switch n := len(ref.Addr); {
		case n == 0:
			class += "/empty-name"
		case ref.Addr[n-1] == '.':
			class += "/name-with-trailing-dot"
		case n == 4 || n == 16:
			class += "/name-as-long-as-an-ip-address"
		case n > 253:
			class += "/name-longer-than-dns-allows"
		default:
			class += "/name-looked-up+target-reached"
		}
	}
	vkit.Case(class, ref.Atyp != rIPv4, fmt.Sprintf("D|%d|%d|%x", ref.Atyp, len(ref.Addr), ref.Addr))
	return true
}

// TestAdapterDestinations: every domain-name length 1..255 (two names each), IPv4 and IPv4-mapped IPv6.
func TestAdapterDestinations(t *testing.T) {
	r, err := getConcRig()
	if err != nil {
		t.Fatalf("INCONCLUSIVE: cannot set up the adapter and its loopback targets: %v", err)
	}
	if _, err := getDNSDouble(); err != nil {
		t.Fatalf("INCONCLUSIVE: cannot start the DNS double: %v", err)
	}
	tg := r.targets[0] // 127.0.0.1:<port>
	mk := func(atyp byte, addr []byte) []byte {
		s := []byte{5, 1, 0, 5, 1, 0, atyp}
		if atyp == rDomain {
			s = append(s, byte(len(addr)))
		}
		s = append(s, addr...)
		return append(s, byte(tg.port>>8), byte(tg.port))
	}
	for L := 1; L <= 255; L++ {
		if !vkit.Mine(L) {
			continue
		}
		for v := 0; v < 2; v++ {
			name := nameOfLen(L, 2*L+v)
			if len(name) != L || !validHostName(name) {
				t.Fatalf("INCONCLUSIVE: generator produced an invalid host name %q for length %d", name, L)
			}
			if !checkDest(t, Case{Kind: "adapter-dest", Stream: mk(rDomain, []byte(name))}) {
				return
			}
		}
	}
	if vkit.Mine(0) {
		mapped := append([]byte{0, 0, 0, 0, 0, 0, 0, 0, 0, 0, 0xFF, 0xFF}, tg.ip...)
		streams := [][]byte{mk(rIPv4, tg.ip), mk(rIPv6, mapped), mk(rDomain, []byte("127.0.0.1")), mk(rDomain, nil)}
		// names that end in '.', names that only become something else when a trailing '.' is dropped
		for _, name := range []string{"example.com.", "a.", "127.0.0.1.", "10.0.0.1.", "a..", "host.example..", ".", "..", "x.y.z.", nameOfLen(62, 5) + ".", nameOfLen(252, 9) + "."} {
			streams = append(streams, mk(rDomain, []byte(name)))
		}
		for _, s := range streams {
			if !checkDest(t, Case{Kind: "adapter-dest", Stream: s}) {
				return
			}
		}
	}
}
