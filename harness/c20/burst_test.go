package c20

// UDP relay, live path (real UDP socket -> readLoop -> handlePacket -> tunnel), bursts: "the payload left
// intact" must also hold while an earlier datagram is still on its way. A burst of datagrams with distinct
// payloads is sent; the first one is held inside the relay by a double that blocks the way a slow network
// does (mode "dial": the tunnel dial to a new destination does not return yet; mode "send": the session's
// SendPacket is still busy and has not looked at the bytes yet). The rest of the burst is sent meanwhile; a
// final DNS datagram (port 53, served by the DNS handler double without a session) tells the test that the
// read loop has read every datagram of the burst. Then the block is released.
// Oracle: every forwarded payload equals what was sent to that destination, byte for byte, and host/port
// are the reference parser's.

import (
	"bytes"
	"context"
	"errors"
	"fmt"
	"io"
	"net"
	"sort"
	"sync"
	"testing"
	"time"

	"pgregory.net/rapid"

	"tunnox-core/internal/client/socks5"
	"tunnox-core/verif/vkit"
)

const burstWait = 10 * time.Second

type burstTunnel struct {
	host   string
	port   int
	rig    *burstRig
	closed chan struct{}
	once   sync.Once
}

func (b *burstTunnel) SendPacket(data []byte) error {
	if b.rig.mode == "send" && b.rig.firstSend.CompareAndSwap(false, true) {
		// a transport that is still busy: it has accepted the slice but not yet copied / written it
		b.rig.entered <- fmt.Sprintf("%s:%d", b.host, b.port)
		<-b.rig.release
	}
	b.rig.sent <- sentPkt{host: b.host, port: b.port, payload: append([]byte(nil), data...)}
	return nil
}
func (b *burstTunnel) ReceivePacket() ([]byte, error) { <-b.closed; return nil, io.EOF }
func (b *burstTunnel) Close() error                   { b.once.Do(func() { close(b.closed) }); return nil }

type burstRig struct {
	mode      string
	relay     *socks5.UDPRelay
	near      *vkit.BufConn
	client    *net.UDPConn
	entered   chan string
	release   chan struct{}
	relOnce   sync.Once
	sent      chan sentPkt
	dnsSeen   chan []byte
	firstDial atomicBool
	firstSend atomicBool
}

type atomicBool struct {
	mu sync.Mutex
	v  bool
}

func (a *atomicBool) CompareAndSwap(old, new bool) bool {
	a.mu.Lock()
	defer a.mu.Unlock()
	if a.v != old {
		return false
	}
	a.v = new
	return true
}

func (g *burstRig) CreateUDPTunnel(mappingID string, targetClientID int64, host string, port int, secret string) (socks5.UDPTunnelConn, error) {
	if g.mode == "dial" && g.firstDial.CompareAndSwap(false, true) {
		g.entered <- fmt.Sprintf("%s:%d", host, port) // a dial that takes a network round trip
		<-g.release
	}
	return &burstTunnel{host: host, port: port, rig: g, closed: make(chan struct{})}, nil
}

func (g *burstRig) QueryDNS(targetClientID int64, dnsServer string, rawQuery []byte) ([]byte, error) {
	g.dnsSeen <- append([]byte(nil), rawQuery...)
	return nil, errors.New("no answer")
}

func newBurstRig(mode string) (*burstRig, error) {
	near, far := vkit.NewBufConnPair("127.0.0.1:40002", "127.0.0.1:1080")
	g := &burstRig{mode: mode, near: near, entered: make(chan string, 4), release: make(chan struct{}),
		sent: make(chan sentPkt, 64), dnsSeen: make(chan []byte, 8)}
	r, err := socks5.NewUDPRelay(context.Background(), far, &socks5.UDPRelayConfig{MappingID: "c20", TargetClientID: 2, BindAddr: "127.0.0.1:0"}, g)
	if err != nil {
		return nil, err
	}
	r.SetDNSHandler(g) // before any datagram is sent, as the client does right after creating the relay
	cl, err := net.DialUDP("udp", nil, r.GetBindAddr())
	if err != nil {
		r.Close()
		return nil, err
	}
	g.relay, g.client = r, cl
	return g, nil
}

func (g *burstRig) unblock() { g.relOnce.Do(func() { close(g.release) }) }
func (g *burstRig) close() {
	g.unblock()
	g.client.Close()
	g.near.Close()
	g.relay.Close()
}

var errBurstTiming = errors.New("burst: a step did not complete in time")

// runBurst returns a failure, or errBurstTiming when a datagram did not show up in time (retried by the caller).
func runBurst(c Case) (*failure, error) {
	p := "C20/udp-relay-burst"
	mode := c.Chunk.Name
	g, err := newBurstRig(mode)
	if err != nil {
		return nil, err
	}
	defer g.close()
	type want struct {
		ref     refUDP
		payload []byte
	}
	var forwarded []sentPkt
	var wants []want
	for _, d := range c.Burst {
		ref := refParseUDP(d)
		if !ref.OK || ref.Lenient || ref.Port == 53 {
			return nil, fmt.Errorf("burst datagram outside the generator's domain")
		}
		wants = append(wants, want{ref, d[ref.HdrLen:]})
	}
	send := func(d []byte) error { _, err := g.client.Write(d); return err }
	if err := send(c.Burst[0]); err != nil {
		return nil, err
	}
	select {
	case <-g.entered:
	case <-time.After(burstWait):
		return nil, errBurstTiming
	}
	for _, d := range c.Burst[1:] {
		if err := send(d); err != nil {
			return nil, err
		}
	}
	sentinel := append([]byte("c20-sentinel-"), fill(8, len(c.Burst))...)
	if err := send(refBuildUDP(rIPv4, []byte{10, 0, 0, 9}, 53, sentinel)); err != nil {
		return nil, err
	}
	select {
	case q := <-g.dnsSeen:
		if !bytes.Equal(q, sentinel) {
			return &failure{p + "/dns-query-payload-differs", fmt.Sprintf("DNS datagram payload %q reached the DNS handler as %q", sentinel, q)}, nil
		}
	case <-time.After(burstWait):
		return nil, errBurstTiming
	}
	g.unblock()
	for range wants {
		select {
		case s := <-g.sent:
			forwarded = append(forwarded, s)
		case <-time.After(burstWait):
			return nil, errBurstTiming
		}
	}
	// every datagram must be found, intact, among what its destination received
	for i, w := range wants {
		exact, sameDst := -1, -1
		for j, s := range forwarded {
			if s.port != w.ref.Port || !hostMatches(w.ref.Atyp, w.ref.Addr, s.host) {
				continue
			}
			sameDst = j
			if bytes.Equal(s.payload, w.payload) {
				exact = j
				break
			}
		}
		if exact >= 0 {
			forwarded = append(forwarded[:exact:exact], forwarded[exact+1:]...)
			continue
		}
		if sameDst < 0 {
			var dsts []string
			for _, s := range forwarded {
				dsts = append(dsts, fmt.Sprintf("%s:%d", s.host, s.port))
			}
			sort.Strings(dsts)
			return &failure{p + "/datagram-forwarded-to-wrong-destination/" + mode, fmt.Sprintf("datagram %d of %d for %q:%d was not forwarded to that destination; still unmatched: %v", i, len(wants), destString(w.ref.Atyp, w.ref.Addr), w.ref.Port, dsts)}, nil
		}
		got := forwarded[sameDst].payload
		detail := fmt.Sprintf("datagram %d of %d for %q:%d (payload %d octets) was forwarded with %d octets, first difference at %d", i, len(wants), destString(w.ref.Atyp, w.ref.Addr), w.ref.Port, len(w.payload), len(got), firstDiffAt(got, w.payload))
		for j, d := range c.Burst {
			if j != i && len(got) >= 4 && bytes.Contains(d, got[:minInt(len(got), 8)]) {
				detail += fmt.Sprintf("; it carries octets of datagram %d, which arrived while this one was still pending", j)
				break
			}
		}
		return &failure{p + "/payload-changed-while-earlier-datagram-pending/" + mode, detail}, nil
	}
	return nil, nil
}

func firstDiffAt(a, b []byte) int {
	for i := 0; i < len(a) && i < len(b); i++ {
		if a[i] != b[i] {
			return i
		}
	}
	return minInt(len(a), len(b))
}

func checkBurst(t vkit.TB, c Case) bool {
	var f *failure
	var err error
	for attempt := 0; attempt < 3; attempt++ {
		f, err = runBurst(c)
		if err != errBurstTiming {
			break
		}
	}
	if err == errBurstTiming {
		// three fresh relays, 10 s each: a datagram of the burst never came out
		f = &failure{"C20/udp-relay-burst/datagram-not-forwarded/" + c.Chunk.Name, fmt.Sprintf("a burst of %d well-formed datagrams was not completely forwarded within %v (3 attempts)", len(c.Burst), burstWait)}
	} else if err != nil {
		t.Fatalf("INCONCLUSIVE: %v", err)
		return false
	}
	if f != nil {
		vkit.Violation(t, f.key, f.detail, c)
		vkit.Case("known:"+f.key, false, "")
		return false
	}
	var lens []int
	for _, d := range c.Burst {
		lens = append(lens, len(d))
	}
	vkit.Case(fmt.Sprintf("udp-burst:%s/%d-datagrams", c.Chunk.Name, len(c.Burst)), len(c.Burst) >= 2, fmt.Sprintf("b|%s|%v", c.Chunk.Name, lens))
	return true
}

func TestUDPRelayBurst(t *testing.T) {
	if g, err := newRelayRig(); err != nil {
		t.Fatalf("INCONCLUSIVE: cannot start a UDP relay on loopback: %v", err)
	} else {
		g.close()
	}
	vkit.Check(t, 480, 12000, func(t *rapid.T) {
		mode := rapid.SampledFrom([]string{"dial", "send"}).Draw(t, "mode")
		k := rapid.IntRange(2, 6).Draw(t, "datagrams")
		c := Case{Kind: "udp-burst", Chunk: ChunkSpec{Name: mode}}
		sameDest := mode == "send" && rapid.Bool().Draw(t, "sameDestination")
		var first []byte
		for i := 0; i < k; i++ {
			atyp := rapid.SampledFrom([]byte{1, 3, 4}).Draw(t, "atyp")
			var addr []byte
			switch atyp {
			case rIPv4:
				addr = []byte{10, byte(i + 1), rapid.Byte().Draw(t, "b"), 7}
				if rapid.IntRange(0, 4).Draw(t, "virtualDNSAddress") == 0 {
					addr = []byte{10, 0, 0, 1} // the address the relay substitutes for DNS queries; this is not one (port != 53)
				}
			case rIPv6:
				addr = append([]byte{0x20, 0x01, 0x0d, 0xb8, byte(i + 1)}, rapid.SliceOfN(rapid.Byte(), 11, 11).Draw(t, "v6")...)
			default:
				addr = []byte(fmt.Sprintf("h%d-%s.example", i, rapid.StringMatching(`[a-z0-9]{1,40}`).Draw(t, "name")))
			}
			port := 1024 + i*7 + rapid.IntRange(0, 5).Draw(t, "portOff")
			var pl int
			switch rapid.IntRange(0, 3).Draw(t, "payloadClass") {
			case 0:
				pl = rapid.IntRange(1, 16).Draw(t, "plen")
			case 1:
				pl = rapid.SampledFrom([]int{512, 1400, 8000}).Draw(t, "plen")
			default:
				pl = rapid.IntRange(1, 300).Draw(t, "plen")
			}
			payload := fill(pl, rapid.IntRange(1, 1<<20).Draw(t, "pseed"))
			d := refBuildUDP(atyp, addr, port, payload)
			if i == 0 {
				first = d
			} else if sameDest && rapid.Bool().Draw(t, "toFirstDestination") {
				r0 := refParseUDP(first)
				d = append(append([]byte(nil), first[:r0.HdrLen]...), payload...)
			}
			c.Burst = append(c.Burst, d)
		}
		checkBurst(t, c)
	})
}
