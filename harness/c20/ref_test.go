package c20

// Reference parsers written from RFC 1928 only (sections 3, 4, 5, 6 and 7). Nothing here is
// derived from the code under test; the differential oracle in c20_test.go compares the real
// parsers with these.
//
//   greeting   VER(1)=5  NMETHODS(1)  METHODS(NMETHODS)                       -> VER METHOD
//   request    VER(1)=5  CMD(1)in{1,2,3}  RSV(1)=0  ATYP(1)in{1,3,4}  DST.ADDR  DST.PORT(2, network order)
//              ATYP 1: 4 octets, ATYP 4: 16 octets, ATYP 3: 1 length octet + that many octets (no NUL)
//   reply      VER REP RSV ATYP BND.ADDR BND.PORT ; REP 1 general failure, 7 command not supported,
//              8 address type not supported
//   datagram   RSV(2)=0  FRAG(1)  ATYP  DST.ADDR  DST.PORT  DATA ; "an implementation that does not
//              support fragmentation MUST drop any datagram whose FRAG field is other than X'00'"

import (
	"bytes"
	"fmt"
	"net"
)

const (
	rVer        = 5
	rNoAuth     = 0x00
	rNoneOK     = 0xFF
	rCmdConnect = 1
	rCmdBind    = 2
	rCmdUDP     = 3
	rIPv4       = 1
	rDomain     = 3
	rIPv6       = 4
)

// refNeg is what RFC 1928 assigns to a byte stream sent by the application on the TCP connection
// (greeting, then request, then arbitrary trailing bytes; the stream may end anywhere).
type refNeg struct {
	OK bool // greeting and request are well formed: they parse to (Cmd, Atyp, Addr, Port)
	// Lenient: the RFC leaves the treatment open (RSV != 0, zero-length domain name, BIND which a server
	// need not support): accepting with exactly this tuple and rejecting are both conforming.
	Lenient bool
	Cmd     byte
	Atyp    byte
	Addr    []byte // raw DST.ADDR (4 / 16 octets, or the domain name octets without the length octet)
	Port    int
	// Consumed: exact number of octets greeting+request occupy (meaningful when OK).
	Consumed int
	// MaxRead: when rejecting, the parser may not have consumed more than this many octets of the stream.
	MaxRead int
	Reason  string // rejection class (root-cause key component)
	// Sel: the acceptable method-selection messages (an empty element = nothing written).
	Sel [][]byte
	// Reps: acceptable REP codes of the one reply that may follow the selection; ReplyRequired: silence is not acceptable.
	Reps          []byte
	ReplyRequired bool
	// bookkeeping for coverage classes
	TruncIn string
	NM      int
	Ver2    byte
	Rsv     byte
}

var (
	selNone   = []byte{}
	selNoAuth = []byte{rVer, rNoAuth}
	selReject = []byte{rVer, rNoneOK}
)

func refNegotiate(s []byte) refNeg {
	r := refNeg{}
	// --- greeting (section 3)
	if len(s) < 2 {
		r.Reason, r.TruncIn, r.MaxRead, r.Sel = "truncated/greeting-header", "greeting-header", len(s), [][]byte{selNone}
		return r
	}
	ver, nm := s[0], int(s[1])
	r.NM = nm
	if ver != rVer {
		// not a SOCKS5 client: closing silently or refusing every method are both appropriate
		r.Reason, r.MaxRead, r.Sel = "greeting-version", min(len(s), 2+nm), [][]byte{selNone, selReject}
		return r
	}
	if nm == 0 {
		r.Reason, r.MaxRead, r.Sel = "nmethods-zero", 2, [][]byte{selNone, selReject}
		return r
	}
	if len(s) < 2+nm {
		r.Reason, r.TruncIn, r.MaxRead, r.Sel = "truncated/methods", "methods", len(s), [][]byte{selNone, selReject}
		return r
	}
	if bytes.IndexByte(s[2:2+nm], rNoAuth) < 0 {
		// the server under test offers NO AUTHENTICATION REQUIRED only
		r.Reason, r.MaxRead, r.Sel = "no-acceptable-method", 2+nm, [][]byte{selReject}
		return r
	}
	r.Sel = [][]byte{selNoAuth}
	off := 2 + nm
	q := s[off:]
	// --- request (section 4)
	if len(q) < 4 {
		r.Reason, r.TruncIn, r.MaxRead, r.Reps = "truncated/request-header", "request-header", len(s), []byte{1}
		return r
	}
	ver2, cmd, rsv, atyp := q[0], q[1], q[2], q[3]
	r.Ver2, r.Cmd, r.Rsv, r.Atyp = ver2, cmd, rsv, atyp
	// structural extent of the request
	need, lenKnown := 0, true
	switch atyp {
	case rIPv4:
		need = 4 + 4 + 2
	case rIPv6:
		need = 4 + 16 + 2
	case rDomain:
		if len(q) >= 5 {
			need = 4 + 1 + int(q[4]) + 2
		} else {
			need, lenKnown = 5, false
		}
	default:
		need = 4 // the address length of an unknown type is unknowable
	}
	truncated := len(q) < need || !lenKnown
	// replies a server may give as soon as it has seen the four fixed octets, whatever follows:
	// BIND is a command a server need not support; a non-zero RSV may be refused as a general failure
	var early []byte
	if cmd == rCmdBind {
		early = append(early, 7)
	}
	if rsv != 0 {
		early = append(early, 1)
	}
	badVer := ver2 != rVer
	badCmd := cmd != rCmdConnect && cmd != rCmdBind && cmd != rCmdUDP
	badAtyp := atyp != rIPv4 && atyp != rDomain && atyp != rIPv6
	if badVer || badCmd || badAtyp {
		if badVer {
			r.Reason += "+request-version"
			r.Reps = append(r.Reps, 1)
		}
		if badCmd {
			r.Reason += "+command"
			r.Reps = append(r.Reps, 7)
		}
		if badAtyp {
			r.Reason += "+address-type"
			r.Reps = append(r.Reps, 8)
		}
		r.Reason = r.Reason[1:]
		// a peer that does not speak version 5 may be dropped silently; a parser that reads the whole
		// request before validating it sees only the truncation
		r.Reps = append(r.Reps, early...)
		r.ReplyRequired = !badVer && !truncated
		r.MaxRead = off + min(len(q), need)
		return r
	}
	if truncated {
		switch {
		case !lenKnown:
			r.TruncIn = "domain-length"
		case len(q) < need-2:
			r.TruncIn = "address"
		default:
			r.TruncIn = "port"
		}
		r.Reason, r.MaxRead, r.Reps = "truncated/"+r.TruncIn, len(s), append([]byte{1}, early...)
		return r
	}
	r.OK = true
	r.Consumed = off + need
	r.MaxRead = r.Consumed
	switch atyp {
	case rDomain:
		r.Addr = q[5 : need-2]
	default:
		r.Addr = q[4 : need-2]
	}
	r.Port = int(q[need-2])<<8 | int(q[need-1])
	// what the RFC leaves open
	if len(early) > 0 {
		r.Lenient, r.Reps = true, append(r.Reps, early...)
	}
	if atyp == rDomain && len(r.Addr) == 0 {
		r.Lenient, r.Reps = true, append(r.Reps, 1, 4, 8)
	}
	return r
}

// hostMatches compares the implementation's host string with the reference address.
// IP literals are compared as addresses (the textual form is net.IP's), domain names octet for octet.
func hostMatches(atyp byte, addr []byte, got string) bool {
	switch atyp {
	case rDomain:
		return got == string(addr)
	case rIPv4:
		ip := net.ParseIP(got)
		return ip != nil && ip.To4() != nil && bytes.Equal(ip.To4(), addr)
	case rIPv6:
		ip := net.ParseIP(got)
		return ip != nil && bytes.Equal(ip.To16(), addr)
	}
	return false
}

func destString(atyp byte, addr []byte) string {
	if atyp == rDomain {
		return string(addr)
	}
	return net.IP(addr).String()
}

// sameDest: two host strings name the same destination (equal IP addresses, or equal names).
func sameDest(a, b string) bool {
	ia, ib := net.ParseIP(a), net.ParseIP(b)
	if ia != nil && ib != nil {
		return ia.Equal(ib)
	}
	return a == b
}

// checkWritten decides whether the octets written back to the application are an acceptable
// answer: one of sel, optionally followed by exactly one well-formed reply whose REP is in reps.
func checkWritten(w []byte, sel [][]byte, reps []byte, replyRequired bool) error {
	var last error
	for _, s := range sel {
		if !bytes.HasPrefix(w, s) {
			last = fmt.Errorf("method selection is not % x", s)
			continue
		}
		rest := w[len(s):]
		if len(rest) == 0 {
			if replyRequired {
				last = fmt.Errorf("no reply sent, expected REP in %v", reps)
				continue
			}
			return nil
		}
		rep, err := refParseReply(rest)
		if err != nil {
			last = fmt.Errorf("after selection % x: %v", s, err)
			continue
		}
		ok := false
		for _, x := range reps {
			if x == rep {
				ok = true
			}
		}
		if !ok {
			last = fmt.Errorf("reply REP=%d, acceptable %v", rep, reps)
			continue
		}
		return nil
	}
	return last
}

// refParseReply parses exactly one reply (section 6) and returns REP.
func refParseReply(b []byte) (byte, error) {
	if len(b) < 4 {
		return 0, fmt.Errorf("reply too short: % x", b)
	}
	if b[0] != rVer {
		return 0, fmt.Errorf("reply VER=%d", b[0])
	}
	if b[2] != 0 {
		return 0, fmt.Errorf("reply RSV=%d", b[2])
	}
	n := 0
	switch b[3] {
	case rIPv4:
		n = 4 + 4 + 2
	case rIPv6:
		n = 4 + 16 + 2
	case rDomain:
		if len(b) < 5 {
			return 0, fmt.Errorf("reply truncated")
		}
		n = 5 + int(b[4]) + 2
	default:
		return 0, fmt.Errorf("reply ATYP=%d", b[3])
	}
	if len(b) != n {
		return 0, fmt.Errorf("reply is %d octets, its ATYP says %d: % x", len(b), n, b)
	}
	return b[1], nil
}

// ---------------------------------------------------------------------------
// UDP request header (section 7)

type refUDP struct {
	OK      bool
	Lenient bool // RSV != 0 or zero-length name: accept (with this tuple) or drop
	Atyp    byte
	Addr    []byte
	Port    int
	HdrLen  int
	Reason  string
}

func refParseUDP(d []byte) refUDP {
	r := refUDP{}
	if len(d) < 4 {
		r.Reason = "truncated/fixed-part"
		return r
	}
	r.Atyp = d[3]
	if d[2] != 0 {
		r.Reason = "fragment"
		return r
	}
	need := 0
	switch d[3] {
	case rIPv4:
		need = 4 + 4 + 2
	case rIPv6:
		need = 4 + 16 + 2
	case rDomain:
		if len(d) < 5 {
			r.Reason = "truncated/domain-length"
			return r
		}
		need = 5 + int(d[4]) + 2
	default:
		r.Reason = "address-type"
		return r
	}
	if len(d) < need {
		if len(d) < need-2 {
			r.Reason = "truncated/address"
		} else {
			r.Reason = "truncated/port"
		}
		return r
	}
	r.OK, r.HdrLen = true, need
	if d[3] == rDomain {
		r.Addr = d[5 : need-2]
	} else {
		r.Addr = d[4 : need-2]
	}
	r.Port = int(d[need-2])<<8 | int(d[need-1])
	if d[0] != 0 || d[1] != 0 || (d[3] == rDomain && len(r.Addr) == 0) {
		r.Lenient = true
	}
	return r
}

// refBuildUDP encodes a datagram header (used by generators and the end-to-end test only).
func refBuildUDP(atyp byte, addr []byte, port int, payload []byte) []byte {
	b := []byte{0, 0, 0, atyp}
	if atyp == rDomain {
		b = append(b, byte(len(addr)))
	}
	b = append(b, addr...)
	b = append(b, byte(port>>8), byte(port))
	return append(b, payload...)
}
