package c20

// Concurrency property: one Listener / one SocksAdapter serves many connections. Each connection must be
// parsed to exactly the (cmd, host, port) the reference assigns to ITS OWN bytes, however the chunks of
// the different connections interleave (a parser that keeps per-request state on the shared object is
// correct for one connection at a time and wrong here).
//
//   - Listener.Handshake: N=2..4 goroutines on ONE Listener over gated in-memory connections. The schedule
//     (which connection's next chunk is released) is drawn by rapid; a chunk of another connection is
//     released only after the previous one was consumed and its reader is parked again (or finished), so
//     the interleaving is exactly the drawn one.
//   - SocksAdapter: only reachable through its real accept path (loopback TCP). A session is attached, so a
//     parsed CONNECT is dialled: the destinations are loopback listeners owned by the test (distinct
//     127.a.b.c addresses / names / ports) that answer with their identity, which makes the parsed host:port
//     observable per connection. Chunk consumption is awaited by polling the server socket's receive queue
//     in /proc/net/tcp (bounded; when it cannot be observed the schedule is only approximate, which can
//     cost sensitivity, never soundness: on a correct parser the verdict does not depend on timing).

import (
	"bytes"
	"context"
	"encoding/binary"
	"fmt"
	"io"
	"net"
	"os"
	"strconv"
	"strings"
	"sync"
	"syscall"
	"testing"
	"time"

	"pgregory.net/rapid"

	"tunnox-core/internal/protocol/adapter"
	"tunnox-core/internal/protocol/session"
	"tunnox-core/verif/vkit"
)

// ConnSpec: Stream + Sizes for listener cases; Target/Form + Sizes for adapter cases (the octets depend on
// the ports of the target listeners of this process and are rebuilt at run time).
type ConnSpec struct {
	Stream HexBytes `json:"stream,omitempty"`
	Sizes  []int    `json:"sizes"` // chunk sizes; the rest of the stream is one final chunk
	Target int      `json:"target,omitempty"`
	Form   int      `json:"form,omitempty"` // 0 ATYP=1, 1 ATYP=3 (name or IP literal), 2 ATYP=4 IPv4-mapped
}

func splitChunks(stream []byte, sizes []int) [][]byte {
	var out [][]byte
	p := 0
	for _, s := range sizes {
		if s <= 0 || p+s >= len(stream) {
			continue
		}
		out = append(out, stream[p:p+s])
		p += s
	}
	return append(out, stream[p:])
}

// ---------------------------------------------------------------------------
// gated in-memory connection

type gateConn struct {
	mu      sync.Mutex
	cond    *sync.Cond
	buf     []byte
	eof     bool
	parked  bool // the reader is blocked with nothing to read
	done    bool // the parser returned
	expired bool
	w       bytes.Buffer
	read    int
}

func newGateConn() *gateConn { g := &gateConn{}; g.cond = sync.NewCond(&g.mu); return g }

func (g *gateConn) Read(p []byte) (int, error) {
	g.mu.Lock()
	defer g.mu.Unlock()
	for len(g.buf) == 0 && !g.eof {
		g.parked = true
		g.cond.Broadcast()
		g.cond.Wait()
	}
	g.parked = false
	if len(g.buf) == 0 {
		return 0, io.EOF
	}
	n := copy(p, g.buf)
	g.buf = g.buf[n:]
	g.read += n
	return n, nil
}
func (g *gateConn) Write(p []byte) (int, error) {
	g.mu.Lock()
	defer g.mu.Unlock()
	return g.w.Write(p)
}
func (g *gateConn) Close() error        { return nil }
func (g *gateConn) LocalAddr() net.Addr { return &net.TCPAddr{IP: net.IPv4(127, 0, 0, 1), Port: 1080} }
func (g *gateConn) RemoteAddr() net.Addr {
	return &net.TCPAddr{IP: net.IPv4(127, 0, 0, 1), Port: 40000}
}
func (g *gateConn) SetDeadline(time.Time) error      { return nil }
func (g *gateConn) SetReadDeadline(time.Time) error  { return nil }
func (g *gateConn) SetWriteDeadline(time.Time) error { return nil }

// release hands the next chunk (or EOF) to the reader and waits until it has been consumed and the
// reader is parked again or the parser returned. false = watchdog expired (inconclusive).
func (g *gateConn) release(chunk []byte, eof bool) bool {
	g.mu.Lock()
	defer g.mu.Unlock()
	g.buf = append(g.buf, chunk...)
	if eof {
		g.eof = true
	}
	g.parked = false
	g.cond.Broadcast()
	wd := time.AfterFunc(20*time.Second, func() { g.mu.Lock(); g.expired = true; g.cond.Broadcast(); g.mu.Unlock() })
	defer wd.Stop()
	for !g.done && !(g.parked && len(g.buf) == 0) && !g.expired {
		g.cond.Wait()
	}
	return !g.expired
}

func (g *gateConn) finish() { g.mu.Lock(); g.done = true; g.cond.Broadcast(); g.mu.Unlock() }

// runListenerConc executes the drawn schedule on ONE listener and returns one observation per connection.
func runListenerConc(conns []ConnSpec, order []int) ([]negObs, error) {
	n := len(conns)
	gcs := make([]*gateConn, n)
	obs := make([]negObs, n)
	chunks := make([][][]byte, n)
	var wg sync.WaitGroup
	l := listener()
	for i := range conns {
		gcs[i] = newGateConn()
		chunks[i] = splitChunks(conns[i].Stream, conns[i].Sizes)
		wg.Add(1)
		go func(i int) {
			defer wg.Done()
			defer gcs[i].finish()
			defer func() {
				if p := recover(); p != nil {
					obs[i].panicked = p
				}
			}()
			res, err := l.Handshake(gcs[i])
			if err != nil {
				obs[i].err = err.Error()
				return
			}
			if res != nil {
				obs[i].ok, obs[i].cmd, obs[i].host, obs[i].port = true, res.Command, res.TargetHost, res.TargetPort
			}
		}(i)
	}
	next := make([]int, n)
	var stuck error
	step := func(i int) {
		if stuck != nil || next[i] >= len(chunks[i]) {
			return
		}
		if !gcs[i].release(chunks[i][next[i]], false) {
			stuck = fmt.Errorf("connection %d did not consume chunk %d within 20 s", i, next[i])
		}
		next[i]++
	}
	for _, i := range order {
		if i >= 0 && i < n {
			step(i)
		}
	}
	for i := 0; i < n; i++ { // whatever the schedule left over, then EOF
		for next[i] < len(chunks[i]) && stuck == nil {
			step(i)
		}
		gcs[i].release(nil, true)
	}
	wg.Wait()
	for i := range obs {
		obs[i].written = gcs[i].w.Bytes()
		obs[i].consumed = gcs[i].read
	}
	return obs, stuck
}

func judgeListenerConc(c Case) (*failure, error) {
	const p = "C20/listener-concurrent"
	obs, err := runListenerConc(c.Conns, c.Order)
	if err != nil {
		return nil, err
	}
	for i, o := range obs {
		ref := refNegotiate(c.Conns[i].Stream)
		f := judgeNeg(ref, o)
		if f == nil {
			continue
		}
		// the same octets in the same chunks, alone on the listener
		alone, err := runListenerConc([]ConnSpec{c.Conns[i]}, nil)
		if err == nil && judgeNeg(ref, alone[0]) == nil {
			return &failure{p + "/shared-state-between-connections", fmt.Sprintf("connection %d of %d (RFC: cmd=%d dst=%q port=%d) is parsed correctly alone but not when the chunks of the other connections are interleaved: %s [%s]", i, len(obs), ref.Cmd, destString(ref.Atyp, ref.Addr), ref.Port, f.detail, f.key)}, nil
		}
		return &failure{p + "/" + strings.TrimPrefix(f.key, "C20/listener/"), fmt.Sprintf("connection %d: %s", i, f.detail)}, nil
	}
	return nil, nil
}

// ---------------------------------------------------------------------------
// adapter: real accept path, real dial to loopback targets owned by the test

type fakeSession struct{ session.Session } // non-nil, never called on the SOCKS path

type target struct {
	ip   net.IP // 127.a.b.c
	name string // non-empty: reached by this name (ATYP=3)
	port int
	id   string
}

type concRig struct {
	addr    string
	port    int
	targets []target
	procOK  bool
}

var (
	crOnce sync.Once
	crRig  *concRig
	crErr  error
)

func serveIdentity(l net.Listener, id string) {
	for {
		c, err := l.Accept()
		if err != nil {
			return
		}
		go func() {
			c.SetDeadline(time.Now().Add(10 * time.Second))
			c.Write([]byte(id))
			if tc, ok := c.(*net.TCPConn); ok {
				tc.CloseWrite()
			}
			io.Copy(io.Discard, c)
			c.Close()
		}()
	}
}

func getConcRig() (*concRig, error) {
	crOnce.Do(func() {
		r := &concRig{}
		ips := []string{"127.0.0.1", "127.7.3.9", "127.200.1.2", "127.0.0.2", "127.45.0.77", "127.9.9.9"}
		for k, ip := range ips {
			l, err := net.Listen("tcp4", ip+":0")
			if err != nil {
				crErr = fmt.Errorf("cannot listen on %s: %v", ip, err)
				return
			}
			t := target{ip: net.ParseIP(ip).To4(), port: l.Addr().(*net.TCPAddr).Port, id: fmt.Sprintf("<target-%d>", k)}
			if k == 0 {
				if addrs, err := net.LookupHost("localhost"); err == nil {
					for _, a := range addrs {
						if a == "127.0.0.1" {
							t.name = "localhost"
						}
					}
				}
			}
			go serveIdentity(l, t.id)
			r.targets = append(r.targets, t)
		}
		for attempt := 0; attempt < 5; attempt++ {
			probe, err := net.Listen("tcp", "127.0.0.1:0")
			if err != nil {
				crErr = err
				continue
			}
			addr := probe.Addr().String()
			port := probe.Addr().(*net.TCPAddr).Port
			probe.Close()
			a := adapter.NewSocksAdapter(context.Background(), fakeSession{}, nil)
			if err := a.ListenFrom(addr); err != nil {
				crErr = err
				continue
			}
			r.addr, r.port, crErr = addr, port, nil
			break
		}
		if crErr != nil {
			return
		}
		if _, err := os.Stat("/proc/net/tcp"); err == nil {
			r.procOK = true
		}
		crRig = r
	})
	return crRig, crErr
}

// serverRxQueue: unread octets in the receive queue of the server-side socket (local port sp, peer port cp),
// asked from the kernel by an exact-match sock_diag request; /proc/net/tcp is the (slow) fallback.
func serverRxQueue(sp, cp int) (int, bool) {
	if n, ok := rxQueueSockDiag(sp, cp); ok {
		return n, true
	}
	return rxQueueProc(sp, cp)
}

var diagBroken bool

func rxQueueSockDiag(sp, cp int) (int, bool) {
	n, st := sockDiagQuery(sp, cp)
	return n, st == diagFound
}

const (
	diagFound    = iota
	diagGone     // the kernel answered: no such socket (the server closed it)
	diagUnusable // sock_diag not available / no answer
)

func sockDiagQuery(sp, cp int) (int, int) {
	if diagBroken {
		return 0, diagUnusable
	}
	fd, err := syscall.Socket(syscall.AF_NETLINK, syscall.SOCK_DGRAM|syscall.SOCK_CLOEXEC, 4 /* NETLINK_SOCK_DIAG */)
	if err != nil {
		diagBroken = true
		return 0, diagUnusable
	}
	defer syscall.Close(fd)
	req := make([]byte, 16+56)
	binary.LittleEndian.PutUint32(req[0:], uint32(len(req)))
	binary.LittleEndian.PutUint16(req[4:], 20) // SOCK_DIAG_BY_FAMILY
	binary.LittleEndian.PutUint16(req[6:], 1)  // NLM_F_REQUEST
	binary.LittleEndian.PutUint32(req[8:], 1)
	b := req[16:]
	b[0], b[1] = syscall.AF_INET, syscall.IPPROTO_TCP
	binary.LittleEndian.PutUint32(b[4:], 0xFFFFFFFF) // all states
	id := b[8:]
	binary.BigEndian.PutUint16(id[0:], uint16(sp))
	binary.BigEndian.PutUint16(id[2:], uint16(cp))
	copy(id[4:], []byte{127, 0, 0, 1})
	copy(id[20:], []byte{127, 0, 0, 1})
	binary.LittleEndian.PutUint32(id[40:], 0xFFFFFFFF) // INET_DIAG_NOCOOKIE
	binary.LittleEndian.PutUint32(id[44:], 0xFFFFFFFF)
	if err := syscall.Sendto(fd, req, 0, &syscall.SockaddrNetlink{Family: syscall.AF_NETLINK}); err != nil {
		diagBroken = true
		return 0, diagUnusable
	}
	tv := syscall.Timeval{Usec: 200000}
	syscall.SetsockoptTimeval(fd, syscall.SOL_SOCKET, syscall.SO_RCVTIMEO, &tv)
	resp := make([]byte, 4096)
	n, _, err := syscall.Recvfrom(fd, resp, 0)
	if err != nil || n < 16 {
		return 0, diagUnusable
	}
	if binary.LittleEndian.Uint16(resp[4:]) != 20 || n < 16+72 {
		return 0, diagGone // NLMSG_ERROR: no such socket
	}
	return int(binary.LittleEndian.Uint32(resp[16+56:])), diagFound
}

func rxQueueProc(sp, cp int) (int, bool) {
	b, err := os.ReadFile("/proc/net/tcp")
	if err != nil {
		return 0, false
	}
	want := fmt.Sprintf("0100007F:%04X 0100007F:%04X ", sp, cp)
	i := bytes.Index(b, []byte(want))
	if i < 0 {
		return 0, false
	}
	f := strings.Fields(string(b[i : i+minInt(len(b)-i, 120)]))
	if len(f) < 4 {
		return 0, false
	}
	q := strings.Split(f[3], ":")
	if len(q) != 2 {
		return 0, false
	}
	n, err := strconv.ParseInt(q[1], 16, 64)
	return int(n), err == nil
}

// awaitConsumed waits (bounded) until the adapter has read everything sent so far on this connection.
func awaitConsumed(r *concRig, clientPort int) bool {
	deadline := time.Now().Add(50 * time.Millisecond)
	for {
		n, ok := serverRxQueue(r.port, clientPort)
		if ok && n == 0 {
			return true
		}
		if !ok && !r.procOK {
			time.Sleep(500 * time.Microsecond)
			return false
		}
		if time.Now().After(deadline) {
			return false
		}
		time.Sleep(30 * time.Microsecond)
	}
}

func (r *concRig) stream(cs ConnSpec) (stream []byte, t target) {
	t = r.targets[cs.Target%len(r.targets)]
	req := []byte{5, 1, 0}
	switch cs.Form % 3 {
	case 0:
		req = append(req, rIPv4)
		req = append(req, t.ip...)
	case 1:
		name := t.ip.String()
		if t.name != "" {
			name = t.name
		}
		req = append(req, rDomain, byte(len(name)))
		req = append(req, name...)
	default:
		req = append(req, rIPv6, 0, 0, 0, 0, 0, 0, 0, 0, 0, 0, 0xFF, 0xFF)
		req = append(req, t.ip...)
	}
	req = append(req, byte(t.port>>8), byte(t.port))
	return append([]byte{5, 1, 0}, req...), t
}

type adapterConnResult struct {
	w         []byte
	hung      bool // the dialogue did not end within the deadline after a complete request
	err       error
	scheduled bool // every intermediate chunk was observed consumed before the schedule went on
}

// runAdapterConc: chunk 0 of every connection is the greeting (completion = the method selection arrived),
// the last chunk completes the request (completion = reply and everything after it read to EOF).
func runAdapterConc(r *concRig, conns []ConnSpec, order []int) []adapterConnResult {
	n := len(conns)
	res := make([]adapterConnResult, n)
	tcs := make([]net.Conn, n)
	chunks := make([][][]byte, n)
	next := make([]int, n)
	for i := range conns {
		s, _ := r.stream(conns[i])
		chunks[i] = append([][]byte{s[:3]}, splitChunks(s[3:], conns[i].Sizes)...)
		res[i].scheduled = true
		c, err := net.DialTimeout("tcp4", r.addr, 5*time.Second)
		if err != nil {
			res[i].err = err
			continue
		}
		c.SetDeadline(time.Now().Add(30 * time.Second))
		tcs[i] = c
	}
	defer func() {
		for _, c := range tcs {
			if c != nil {
				c.Close()
			}
		}
	}()
	step := func(i int) {
		if tcs[i] == nil || res[i].err != nil || next[i] >= len(chunks[i]) {
			return
		}
		k := next[i]
		next[i]++
		if _, err := tcs[i].Write(chunks[i][k]); err != nil {
			res[i].err = err
			return
		}
		switch {
		case k == 0:
			sel := make([]byte, 2)
			m, err := io.ReadFull(tcs[i], sel)
			res[i].w = append(res[i].w, sel[:m]...)
			if err != nil {
				res[i].err = fmt.Errorf("no method selection: %v", err)
			}
		case k == len(chunks[i])-1:
			rest, err := io.ReadAll(tcs[i])
			res[i].w = append(res[i].w, rest...)
			if ne, ok := err.(net.Error); ok && ne.Timeout() {
				res[i].hung = true
			}
		default:
			if !awaitConsumed(r, tcs[i].LocalAddr().(*net.TCPAddr).Port) {
				res[i].scheduled = false
			}
		}
	}
	for _, i := range order {
		if i >= 0 && i < n {
			step(i)
		}
	}
	for i := 0; i < n; i++ {
		for tcs[i] != nil && res[i].err == nil && next[i] < len(chunks[i]) {
			step(i)
		}
	}
	return res
}

func adapterConnVerdict(r *concRig, cs ConnSpec, res adapterConnResult) string {
	if res.err != nil {
		return "harness-io: " + res.err.Error()
	}
	_, t := r.stream(cs)
	w := res.w
	if res.hung {
		return fmt.Sprintf("CONNECT to %s:%d (listening) not answered/finished within 30 s; server wrote % x", t.ip, t.port, w[:minInt(len(w), 16)])
	}
	if !bytes.HasPrefix(w, selNoAuth) {
		return fmt.Sprintf("method selection % x", w[:minInt(len(w), 2)])
	}
	w = w[2:]
	i := bytes.Index(w, []byte("<target-"))
	reply, id := w, ""
	if i >= 0 {
		reply, id = w[:i], string(w[i:])
	}
	rep, err := refParseReply(reply)
	if err != nil {
		return fmt.Sprintf("after the selection: %v (then %q)", err, id)
	}
	if rep != 0 {
		return fmt.Sprintf("CONNECT to %s:%d (listening) answered REP=%d", t.ip, t.port, rep)
	}
	if id != t.id {
		return fmt.Sprintf("asked for %s (%s:%d), was connected to %q", t.id, t.ip, t.port, id)
	}
	return ""
}

func judgeAdapterConc(c Case) (*failure, bool, error) {
	const p = "C20/adapter-concurrent"
	r, err := getConcRig()
	if err != nil {
		return nil, false, err
	}
	res := runAdapterConc(r, c.Conns, c.Order)
	scheduled := true
	for i := range res {
		scheduled = scheduled && res[i].scheduled
		v := adapterConnVerdict(r, c.Conns[i], res[i])
		if v == "" {
			continue
		}
		if strings.HasPrefix(v, "harness-io") {
			return nil, false, fmt.Errorf("connection %d: %s", i, v)
		}
		// alone, twice (a verdict that rests on real sockets is confirmed)
		aloneOK := true
		for k := 0; k < 2; k++ {
			a := runAdapterConc(r, []ConnSpec{c.Conns[i]}, nil)
			if adapterConnVerdict(r, c.Conns[i], a[0]) != "" {
				aloneOK = false
			}
		}
		if aloneOK {
			return &failure{p + "/shared-state-between-connections", fmt.Sprintf("connection %d of %d is served correctly alone but not when the chunks of the other connections are interleaved: %s", i, len(res), v)}, scheduled, nil
		}
		return &failure{p + "/wellformed-connect-not-served", fmt.Sprintf("connection %d: %s", i, v)}, scheduled, nil
	}
	return nil, scheduled, nil
}

// ---------------------------------------------------------------------------
// check + generators

func checkConc(t vkit.TB, c Case) bool {
	var f *failure
	var err error
	class := c.Kind + fmt.Sprintf(":%d-connections", len(c.Conns))
	switch c.Kind {
	case "adapter-conc":
		var scheduled bool
		f, scheduled, err = judgeAdapterConc(c)
		if !scheduled {
			vkit.Class("adapter-conc:schedule-approximate(consumption-not-observed)")
		}
	default:
		f, err = judgeListenerConc(c)
	}
	if err != nil {
		t.Fatalf("INCONCLUSIVE: %v", err)
		return false
	}
	if f != nil {
		vkit.Violation(t, f.key, f.detail, c)
		vkit.Case("known:"+f.key, false, "")
		return false
	}
	// non-trivial: some connection's request is split and another connection's chunk is scheduled in between
	nt := interleaved(c)
	if nt {
		class += "/request-chunks-interleaved"
	}
	vkit.Case(class, nt, fmt.Sprintf("c|%s|%v|%v", c.Kind, c.Conns, c.Order))
	return true
}

// interleaved: between two chunk releases of one connection another connection had a release.
func interleaved(c Case) bool {
	last := map[int]int{}
	for k, i := range c.Order {
		if p, ok := last[i]; ok && k-p > 1 {
			return true
		}
		last[i] = k
	}
	return false
}

func genOrder(t *rapid.T, counts []int) []int {
	left := append([]int(nil), counts...)
	var order []int
	for {
		var alive []int
		for i, n := range left {
			if n > 0 {
				alive = append(alive, i)
			}
		}
		if len(alive) == 0 {
			return order
		}
		i := rapid.SampledFrom(alive).Draw(t, "next")
		order = append(order, i)
		left[i]--
	}
}

// genCuts draws 1..4 cut points inside [lo, n) of a stream of n octets and returns chunk sizes.
func genCuts(t *rapid.T, lo, n int) []int {
	k := rapid.IntRange(1, 4).Draw(t, "ncuts")
	cuts := map[int]bool{}
	for j := 0; j < k; j++ {
		cuts[rapid.IntRange(lo, n-1).Draw(t, "cut")] = true
	}
	var sizes []int
	p := 0
	for x := 1; x < n; x++ {
		if cuts[x] {
			sizes = append(sizes, x-p)
			p = x
		}
	}
	return sizes
}

func TestListenerConcurrent(t *testing.T) {
	vkit.Check(t, 16000, 400000, func(t *rapid.T) {
		n := rapid.IntRange(2, 4).Draw(t, "conns")
		c := Case{Kind: "listener-conc"}
		var counts []int
		for i := 0; i < n; i++ {
			nm := rapid.IntRange(1, 3).Draw(t, "nm")
			g := greeting(5, nm, true, rapid.Bool().Draw(t, "zeroLast"))
			cmd := rapid.SampledFrom([]byte{1, 3}).Draw(t, "cmd")
			atyp := rapid.SampledFrom([]byte{1, 3, 4}).Draw(t, "atyp")
			s := append(append([]byte(nil), g...), 5, cmd, 0, atyp)
			if atyp == rDomain {
				name := []byte(rapid.StringMatching(`[a-z0-9.-]{1,40}`).Draw(t, "name"))
				s = append(append(s, byte(len(name))), name...)
			} else {
				s = append(s, genAddr(t, atyp)...)
			}
			port := rapid.Uint16().Draw(t, "port")
			s = append(s, byte(port>>8), byte(port))
			sizes := genCuts(t, 1, len(s))
			if rapid.Bool().Draw(t, "cutInRequest") {
				sizes = genCuts(t, len(g)+1, len(s))
			}
			cs := ConnSpec{Stream: s, Sizes: sizes}
			c.Conns = append(c.Conns, cs)
			counts = append(counts, len(splitChunks(s, sizes)))
		}
		c.Order = genOrder(t, counts)
		checkConc(t, c)
	})
}

func TestAdapterConcurrent(t *testing.T) {
	r, err := getConcRig()
	if err != nil {
		t.Fatalf("INCONCLUSIVE: cannot set up the adapter and its loopback targets: %v", err)
	}
	vkit.Check(t, 640, 16000, func(t *rapid.T) {
		n := rapid.IntRange(2, 4).Draw(t, "conns")
		perm := rapid.Permutation([]int{0, 1, 2, 3, 4, 5}).Draw(t, "targets")
		c := Case{Kind: "adapter-conc"}
		var counts []int
		for i := 0; i < n; i++ {
			cs := ConnSpec{Target: perm[i], Form: rapid.IntRange(0, 2).Draw(t, "form")}
			s, _ := r.stream(cs)
			cs.Sizes = genCuts(t, 1, len(s)-3) // cuts inside the request (the greeting is its own chunk)
			c.Conns = append(c.Conns, cs)
			counts = append(counts, 1+len(splitChunks(s[3:], cs.Sizes)))
		}
		c.Order = genOrder(t, counts)
		checkConc(t, c)
	})
}
