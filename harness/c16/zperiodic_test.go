package c16

import (
	"context"
	"fmt"
	"io"
	"os"
	"os/exec"
	"path/filepath"
	"strings"
	"testing"
	"time"

	"pgregory.net/rapid"

	"tunnox-core/internal/client/mapping"
	"tunnox-core/internal/config"
	"tunnox-core/verif/vkit"
)

// mapping.BaseMappingHandler: the handler is closed (final report) while its PERIODIC traffic
// report is still inside a slow TrackTraffic. The periodic report is driven by the handler's
// own 30 s ticker, which cannot be shortened from outside, so this scenario waits for the real
// tick: it runs once, in its own child process that TestMain starts before the other
// components run (wall cost ~31 s, in parallel with them, next to no CPU).
// Oracle: what TrackTraffic received in total == bytes the handler's tunnels carried, exactly
// once, for the interleavings {Close after the tick is in flight, Close x N racing the release}.

func genPeriodic(t *rapid.T) Round {
	r := Round{Comp: "mapping-periodic-report", Closers: 3, Paths: []string{"periodic-report-in-flight"}, P: map[string]int{}}
	rapid.Bool().Draw(t, "tick")
	return r
}

// periodicCase is one handler whose tunnels have finished and whose periodic report will stall.
type periodicCase struct {
	variant  int // 0: the stalled report is released after Close returned, 1: together with the closers
	cancel   context.CancelFunc
	cl       *mapClient
	ad       *adapterDouble
	h        *mapping.BaseMappingHandler
	created  time.Time
	release  func()
	wantSent int64
	wantRecv int64
}

func (pc *periodicCase) teardown() {
	pc.release() // a report parked in the double would keep Close inside its final report
	if !roundAborted {
		pc.h.Close()
	}
	pc.cancel()
}

func periodicSetup(variant int, base gsnap) *periodicCase {
	parent, cancel := context.WithCancel(context.Background())
	pc := &periodicCase{variant: variant, cancel: cancel}
	pc.cl = &mapClient{ctx: parent, trackGate: make(chan struct{}), trackEntered: make(chan struct{})}
	released := false
	pc.release = func() {
		if !released {
			released = true
			close(pc.cl.trackGate)
		}
	}
	pc.ad = &adapterDouble{ch: make(chan io.ReadWriteCloser, 8), closed: make(chan struct{})}
	cfg := config.MappingConfig{MappingID: fmt.Sprintf("m-c16p%d", variant), SecretKey: "k", Protocol: "tcp", LocalPort: 18081 + variant, TargetClientID: 42, MaxConnections: 100}
	pc.h = mapping.NewBaseMappingHandler(pc.cl, cfg, pc.ad)
	pc.created = time.Now()
	if err := pc.h.Start(); err != nil {
		pc.teardown()
		return nil
	}
	// two tunnels carry traffic and finish on their own: their totals sit in the handler
	tm := pc.h.GetTunnelManager()
	var apps, locals []*vkit.BufConn
	for i := 0; i < 2; i++ {
		app, local := vkit.NewBufConnPair(fmt.Sprintf("127.0.0.1:%d", 42000+10*variant+i), "127.0.0.1:18081")
		apps, locals = append(apps, app), append(locals, local)
		pc.ad.ch <- local
	}
	fail := func() *periodicCase {
		for _, a := range apps {
			a.Close()
		}
		pc.teardown()
		return nil
	}
	if !pollUntil(10*time.Second, func() bool { return tm.CountTunnels() == 2 }) {
		return fail()
	}
	pc.cl.mu.Lock()
	ts := append([]dialled(nil), pc.cl.tunnels...)
	pc.cl.mu.Unlock()
	for i, a := range apps {
		a.Write(make([]byte, 1000+i))
		ts[i].peer.Write(make([]byte, 500+i))
	}
	if !pollUntil(10*time.Second, func() bool {
		// (which dialled tunnel belongs to which accepted connection is not fixed)
		return ts[0].peer.Pending()+ts[1].peer.Pending() >= 2001 && apps[0].Pending()+apps[1].Pending() >= 1001
	}) {
		return fail()
	}
	for i, a := range apps {
		a.Close()
		ts[i].peer.Close()
	}
	if !pollUntil(10*time.Second, func() bool { return tm.CountTunnels() == 0 }) {
		return fail()
	}
	settle(mappingPrefixes[1:], base, 2*time.Second) // the tunnels' goroutines (incl. OnClosed) are done
	for i := range ts {
		pc.wantSent += ts[i].conn.BytesWritten()
		pc.wantRecv += locals[i].BytesWritten()
	}
	return pc
}

func runPeriodic(r Round) *outcome {
	o := &outcome{}
	base := snapshot(mappingPrefixes)
	// both interleavings share the 30 s wait: two handlers created together
	var cases []*periodicCase
	for v := 0; v < 2; v++ {
		if pc := periodicSetup(v, base); pc != nil {
			cases = append(cases, pc)
		}
	}
	if len(cases) == 0 {
		o.skipped = true
		return o
	}
	defer func() {
		for _, pc := range cases {
			pc.teardown()
		}
	}()
	ran := 0
	for _, pc := range cases {
		// the handler's own 30 s tick
		select {
		case <-pc.cl.trackEntered:
		case <-time.After(time.Until(pc.created.Add(45 * time.Second))):
			continue // no tick within 45 s (machine stalled): nothing learnt from this handler
		}
		ran++
		o.extraClass = append(o.extraClass, fmt.Sprintf("periodic-report-stalled-inside-TrackTraffic/variant=%d", pc.variant))
		cl, h, ad := pc.cl, pc.h, pc.ad
		rc := newRace("mapping-periodic-report")
		for i := 0; i < r.Closers; i++ {
			i := i
			rc.spin(kindCloser, "Close", func() {
				if i%2 == 1 {
					h.Stop()
				} else {
					h.Close()
				}
			})
		}
		if pc.variant == 1 {
			rc.spin(kindPath, "periodic-report-returns", pc.release)
		}
		rc.release()
		if !rc.mustReturn(o, base, "BaseMappingHandler.Close/Stop (periodic report in flight)") {
			return o
		}
		rc.measure(o)
		o.pathInside = true // the periodic report was in flight during every Close
		pc.release()
		pollUntil(2*time.Second, func() bool { l, _ := leakedNow(mappingPrefixes[:1], base); return len(l) == 0 })
		rc2 := newRace("mapping-periodic-report")
		rc2.guard("post-close", func() { h.Close() })
		o.fails = append(o.fails, rc2.fails...)
		gotSent, gotRecv, calls := cl.sent.Load(), cl.recv.Load(), cl.tracks.Load()
		switch {
		case gotSent > pc.wantSent || gotRecv > pc.wantRecv:
			o.failf("C16/mapping-handler/traffic-reported-twice/final-report-overlaps-periodic-report",
				"TrackTraffic received %d/%d in %d calls, the tunnels carried %d/%d: the close handler's final report ran while the periodic report was still in flight and reported the same totals again (stalled report released %s)",
				gotSent, gotRecv, calls, pc.wantSent, pc.wantRecv, map[int]string{0: "after Close returned", 1: "together with the closers"}[pc.variant])
		case gotSent < pc.wantSent || gotRecv < pc.wantRecv:
			o.failf("C16/mapping-handler/traffic-not-reported/final-report-overlaps-periodic-report",
				"TrackTraffic received %d/%d in %d calls, the tunnels carried %d/%d", gotSent, gotRecv, calls, pc.wantSent, pc.wantRecv)
		}
		if n := ad.closes.get(); n != 1 {
			o.failf("C16/mapping-handler/adapter-closed-"+times(n), "the handler closed its protocol adapter %d times", n)
		}
	}
	if ran == 0 {
		o.skipped = true
		return o
	}
	if leaks := settle(mappingPrefixes, base, 2*time.Second); leaks != nil {
		o.failf("C16/mapping-handler/goroutine-leak/"+leakKeyPart(leaks[0]), "goroutines remain after Close and after the stalled report returned: %s", leakMsg(leaks))
	}
	return o
}

var compPeriodic = register(&component{name: "mapping-periodic-report", quick: 1, thorough: 1, gen: genPeriodic, run: runPeriodic})

// the long child, started by TestMain
var (
	periodicCmd  *exec.Cmd
	periodicSide string
	periodicLog  string
)

func startPeriodicChild() {
	wd, _ := os.Getwd()
	periodicSide = filepath.Join(wd, "c16-side-mapping-periodic-report.json")
	periodicLog = filepath.Join(wd, "c16-child-mapping-periodic-report.log")
	os.Remove(periodicSide)
	logf, err := os.Create(periodicLog)
	if err != nil {
		return
	}
	cmd := exec.Command(os.Args[0], "-test.run", "^TestZMappingPeriodicReport$", "-test.timeout", "120s", "-test.count=1")
	for _, e := range os.Environ() {
		if strings.HasPrefix(e, "VERIF_OUT=") || strings.HasPrefix(e, "C16_") {
			continue
		}
		cmd.Env = append(cmd.Env, e)
	}
	cmd.Env = append(cmd.Env, "C16_CHILD=1", "C16_SIDE="+periodicSide, "C16_ROUNDS=1", "C16_ATTEMPT=0", "C16_JOURNAL_SUFFIX=.periodic")
	cmd.Stdout, cmd.Stderr = logf, logf
	if cmd.Start() == nil {
		periodicCmd = cmd
	}
	logf.Close()
}

// TestZMappingPeriodicReport collects the long child (file name and test name sort last: the
// other components have run meanwhile).
func TestZMappingPeriodicReport(t *testing.T) {
	if isChild() {
		compPeriodic.child(t)
		return
	}
	if periodicCmd == nil {
		t.Skip("long child not started (replay mode)")
	}
	done := make(chan error, 1)
	go func() { done <- periodicCmd.Wait() }()
	var runErr error
	select {
	case runErr = <-done:
	case <-time.After(100 * time.Second):
		periodicCmd.Process.Kill()
		t.Fatalf("INCONCLUSIVE: periodic-report child did not finish within 100 s")
	}
	s := readSide(periodicSide)
	if compPeriodic.feed(t, s) {
		return
	}
	if runErr != nil || s == nil || !s.Done {
		ob, _ := os.ReadFile(periodicLog)
		if key, excerpt, ok := crashKey(compPeriodic.name, string(ob)); ok {
			vkit.Violation(t, key, excerpt, Round{Comp: compPeriodic.name})
			return
		}
		t.Fatalf("INCONCLUSIVE: periodic-report child failed (%v):\n%s", runErr, tail(string(ob), 1500))
	}
	os.Remove(periodicLog)
	os.Remove(periodicSide)
}
