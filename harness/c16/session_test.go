package c16

import (
	"context"
	"encoding/json"
	"fmt"
	"sync"
	"testing"
	"time"

	"pgregory.net/rapid"

	"tunnox-core/internal/broker"
	"tunnox-core/internal/cloud/models"
	coretypes "tunnox-core/internal/core/types"
	"tunnox-core/internal/packet"
	"tunnox-core/internal/protocol/session"
	"tunnox-core/verif/vkit"
	"tunnox-core/verif/vkit/miniserver"
)

// session.SessionManager (assembled as the real server does, minus sockets): Close x N vs
// CloseConnection / HandlePacket / AcceptConnection in flight vs the stale-connection ticker
// vs parent context cancel vs peers going away.

var sessionPrefixes = []string{"tunnox-core/internal/protocol/session.", "tunnox-core/internal/protocol/session/", "tunnox-core/internal/stream."}

var sessionPaths = []string{"close-connection", "close-connection-2", "heartbeat", "handshake", "accept", "parent-cancel", "peer-closes", "tunnel-open"}

func genSession(t *rapid.T) Round {
	r := Round{Comp: "session-manager", P: map[string]int{}}
	r.Closers = rapid.SampledFrom([]int{2, 2, 2, 3, 3, 4, 5, 6, 8}).Draw(t, "closers")
	r.Paths = drawPaths(t, sessionPaths, 3)
	if rapid.IntRange(0, 2).Draw(t, "sameConn") == 0 {
		// a packet handler and CloseConnection on the SAME connection (what a read loop and a
		// stale-connection sweep / duplicate-login eviction do)
		r.Paths = []string{"close-connection-2", rapid.SampledFrom([]string{"tunnel-open", "handshake"}).Draw(t, "handler")}
		if rapid.Bool().Draw(t, "third") {
			r.Paths = append(r.Paths, rapid.SampledFrom([]string{"heartbeat", "peer-closes", "parent-cancel", "accept"}).Draw(t, "thirdPath"))
		}
	}
	r.P["conns"] = rapid.IntRange(1, 4).Draw(t, "conns")
	r.P["hfault"] = rapid.IntRange(0, 3).Draw(t, "hfault")  // bit 1: an earlier cleanup handler fails, bit 2: it is slow
	r.P["variant"] = rapid.IntRange(0, 1).Draw(t, "ticker") // 1: stale-connection ticker every 200us with a 1ns heartbeat timeout
	r.P["login"] = rapid.IntRange(0, 1).Draw(t, "login")    // first connection is an authenticated control connection
	if rapid.IntRange(0, 4).Draw(t, "cluster") == 0 {
		// cluster mode: a BridgeManager double makes the session manager subscribe to the
		// cross-node topics; a TunnelOpen broadcast for the locally connected client is being
		// written to its back-pressured control connection when the closers arrive
		r.P["cluster"] = 1
		r.P["login"] = 1
		r.P["variant"] = 0
		r.Paths = drawPaths(t, []string{"parent-cancel", "accept", "close-connection", "peer-closes"}, 2)
	}
	return r
}

func runSession(r Round) *outcome {
	o := &outcome{}
	base := snapshot(sessionPrefixes)
	cfg := session.DefaultSessionConfig()
	if r.p("variant") == 1 {
		cfg.CleanupInterval = 200 * time.Microsecond
		cfg.HeartbeatTimeout = time.Nanosecond
	}
	srv, err := miniserver.New(miniserver.Options{Session: cfg, NoSecurityGate: true})
	if err != nil {
		o.skipped = true
		return o
	}
	sm := srv.SM
	defer func() { // also on an aborted round (recovered panic): nothing of this server may survive
		if !roundAborted {
			sm.Close()
		}
		srv.Cancel()
	}()
	var mine, faulty counter
	if m := r.p("hfault"); m != 0 {
		sm.AddCleanHandler(faultyHandler(m, &faulty))
	}
	sm.AddCleanHandler(func() error { mine.hit(); return nil })
	var clients []*miniserver.Client
	for i := 0; i < r.p("conns"); i++ {
		c, err := srv.Connect(fmt.Sprintf("10.3.0.%d:5000", i+1))
		if err != nil {
			break
		}
		clients = append(clients, c)
	}
	if len(clients) == 0 {
		o.skipped = true
		srv.Close()
		settle(sessionPrefixes, base, 2*time.Second)
		return o
	}
	if r.p("login") == 1 {
		if _, err := clients[0].HandshakeNew("control"); err != nil {
			o.extraClass = append(o.extraClass, "login-failed")
		}
	}
	if r.p("cluster") == 1 && clients[0].ClientID != 0 {
		bm := &brokerDouble{node: "node-1", subs: map[string][]chan *session.BroadcastMessage{}}
		sm.SetBridgeManager(bm)
		if lc, err := srv.Cloud.GenerateAnonymousCredentials(); err == nil {
			mp, err := srv.Cloud.CreatePortMapping(&models.PortMapping{ListenClientID: lc.ID, TargetClientID: clients[0].ClientID, Protocol: models.ProtocolTCP,
				SourcePort: 17990, TargetHost: "127.0.0.1", TargetPort: 80, SecretKey: "mapping-secret-0123456789abcdef", Status: models.MappingStatusActive})
			if err == nil {
				clients[0].Drain()
				clients[0].Near.SetMaxBuffered(1) // the client has stopped reading: the server's write stays pending
				payload, _ := json.Marshal(session.TunnelOpenBroadcastMessage{Type: "tunnel_open", TunnelID: "t-c16-cluster", MappingID: mp.ID,
					TargetClientID: clients[0].ClientID, SourceNodeID: "node-2", Timestamp: time.Now().Unix()})
				bm.publish(broker.TopicTunnelOpen, payload)
				if pollUntil(2*time.Second, func() bool { return clients[0].Near.Pending() >= 1 }) {
					o.extraClass = append(o.extraClass, "tunnel-open-broadcast-write-pending-on-control-connection")
				}
			}
		}
	}
	push := func(c *miniserver.Client, p *packet.TransferPacket) {
		sm.HandlePacket(&coretypes.StreamPacket{ConnectionID: c.ConnID, Packet: p, Timestamp: time.Now()})
	}

	rc := newRace("session-manager")
	for i := 0; i < r.Closers; i++ {
		rc.spin(kindCloser, "Close", func() {
			sm.Close()
			if mine.get() != 1 { // Close returned => released, for every caller
				rc.fail("C16/session-manager/close-returned-before-cleanup-finished",
					fmt.Sprintf("a SessionManager.Close call returned with the registered cleanup handler run %d times", mine.get()))
			}
		})
	}
	var late *vkit.BufConn
	last := clients[len(clients)-1]
	for _, p := range r.Paths {
		switch p {
		case "close-connection":
			rc.spin(kindPath, "CloseConnection", func() { sm.CloseConnection(clients[0].ConnID) })
		case "close-connection-2":
			rc.spin(kindPath, "CloseConnection", func() { sm.CloseConnection(last.ConnID) })
		case "heartbeat":
			rc.spin(kindPath, "HandlePacket-heartbeat", func() { push(clients[0], &packet.TransferPacket{PacketType: packet.Heartbeat}) })
		case "handshake":
			rc.spin(kindPath, "HandlePacket-handshake", func() {
				push(last, &packet.TransferPacket{PacketType: packet.Handshake, Payload: []byte(`{"client_id":0,"token":"","version":"1.0","protocol":"tcp","connection_type":"control"}`)})
			})
		case "tunnel-open":
			// two in-flight handlers (a client may pipeline requests): more chances that one of them
			// has fetched the connection just before CloseConnection removes it
			for k := 0; k < 2; k++ {
				rc.spin(kindPath, "HandlePacket-tunnel-open", func() {
					push(last, &packet.TransferPacket{PacketType: packet.TunnelOpen, Payload: []byte(`{"tunnel_id":"t-c16","mapping_id":"nope","secret_key":"x"}`)})
				})
			}
		case "accept":
			near, far := vkit.NewBufConnPair("10.3.0.99:5000", "10.0.0.1:8000")
			late = far
			_ = near
			rc.spin(kindPath, "AcceptConnection", func() { sm.AcceptConnection(far, far) })
		case "parent-cancel":
			rc.spin(kindPath, p, srv.Cancel)
		case "peer-closes":
			rc.spin(kindPath, p, func() { clients[0].Near.Close() })
		}
	}
	rc.release()
	if !rc.mustReturn(o, base, "Close or an in-flight CloseConnection/HandlePacket/AcceptConnection") {
		return o
	}
	rc.measure(o)
	// unblock pending I/O: every peer goes away
	for _, c := range clients {
		c.Near.Close()
	}
	leaks := settle(sessionPrefixes, base, 2*time.Second)
	if n := mine.get(); n != 1 {
		o.failf("C16/session-manager/cleanup-handler-ran-"+times(n), "registered cleanup handler ran %d times", n)
	}
	if n := faulty.get(); r.p("hfault") != 0 && n != 1 {
		o.failf("C16/session-manager/failing-or-slow-cleanup-handler-ran-"+times(n), "the cleanup handler registered before the counting one (fault mode %d) ran %d times", r.p("hfault"), n)
	}
	if !sm.IsClosed() {
		o.failf("C16/session-manager/not-closed", "IsClosed()==false after Close")
	}
	for i, c := range clients {
		if !c.Far.IsClosed() {
			o.failf("C16/session-manager/accepted-conn-left-open", "connection %d (%s), accepted before Close, is still open after SessionManager.Close returned", i, c.ConnID)
			break
		}
	}
	if late != nil && !late.IsClosed() {
		o.extraClass = append(o.extraClass, "conn-accepted-during-close-left-open")
	}
	if leaks != nil {
		o.failf("C16/session-manager/goroutine-leak/"+leakKeyPart(leaks[0]), "goroutines remain 2s after Close returned and all peers were closed (parent context not yet cancelled): %s", leakMsg(leaks))
	}
	// later operations fail cleanly
	rc2 := newRace("session-manager")
	rc2.guard("post-close-HandlePacket", func() { push(clients[0], &packet.TransferPacket{PacketType: packet.Heartbeat}) })
	rc2.guard("post-close-CloseConnection", func() { sm.CloseConnection(clients[0].ConnID) })
	rc2.guard("post-close-AcceptConnection", func() {
		n, f := vkit.NewBufConnPair("10.3.0.100:5000", "10.0.0.1:8000")
		if _, err := sm.AcceptConnection(f, f); err == nil {
			o.extraClass = append(o.extraClass, "accept-after-close-succeeded")
		}
		n.Close()
		f.Close()
	})
	rc2.guard("post-close-Close", func() { sm.Close() })
	o.fails = append(o.fails, rc2.fails...)
	srv.Cancel()
	if late != nil {
		late.Close()
	}
	settle(sessionPrefixes, base, 2*time.Second)
	return o
}

var compSession = register(&component{name: "session-manager", quick: 2000, thorough: 40000, gen: genSession, run: runSession})

func TestSessionManager(t *testing.T) { compSession.test(t) }

// brokerDouble is the BridgeManager of a clustered node: topics are in-process channels.
type brokerDouble struct {
	node string
	mu   sync.Mutex
	subs map[string][]chan *session.BroadcastMessage
}

func (b *brokerDouble) BroadcastTunnelOpen(*packet.TunnelOpenRequest, int64) error { return nil }
func (b *brokerDouble) Subscribe(ctx context.Context, topic string) (<-chan *session.BroadcastMessage, error) {
	ch := make(chan *session.BroadcastMessage, 16)
	b.mu.Lock()
	b.subs[topic] = append(b.subs[topic], ch)
	b.mu.Unlock()
	return ch, nil
}
func (b *brokerDouble) PublishMessage(ctx context.Context, topic string, payload []byte) error {
	b.publish(topic, payload)
	return nil
}
func (b *brokerDouble) publish(topic string, payload []byte) {
	b.mu.Lock()
	defer b.mu.Unlock()
	for _, ch := range b.subs[topic] {
		select {
		case ch <- &session.BroadcastMessage{Topic: topic, Payload: payload}:
		default:
		}
	}
}
func (b *brokerDouble) GetNodeID() string                                       { return b.node }
func (b *brokerDouble) NotifyTunnelReady(context.Context, string, string) error { return nil }
func (b *brokerDouble) WaitForTunnelReady(ctx context.Context, tunnelID string) (string, error) {
	<-ctx.Done()
	return "", ctx.Err()
}
