package c16

import (
	"context"
	"errors"
	"fmt"
	"sync/atomic"
	"testing"
	"time"

	"pgregory.net/rapid"

	ctunnel "tunnox-core/internal/client/tunnel"
	"tunnox-core/internal/utils/iocopy"
	"tunnox-core/verif/vkit"
)

// client tunnel.Tunnel: Close(reason) x N vs the data copy finishing (an end hit EOF) vs
// NotifyPeerClosed (through the manager, as the notification dispatcher does) vs the manager
// being closed / its parent context cancelled.

var tunnelPrefixes = []string{"tunnox-core/internal/client/tunnel.", "tunnox-core/internal/utils/iocopy."}

type notifyClient struct {
	calls atomic.Int32
	fail  bool // the control connection is down: sending the notification fails
	slow  bool // sending takes ~30us
}

func (c *notifyClient) SendTunnelCloseNotify(targetClientID int64, tunnelID, mappingID, reason string) error {
	c.calls.Add(1)
	if c.slow {
		for t := nowNS(); nowNS()-t < 30000; {
		}
	}
	if c.fail {
		return errInjected
	}
	return nil
}

var tunnelPaths = []string{"local-eof", "tunnel-eof", "peer-notify", "mgr-close", "parent-cancel", "fatal-error-notify"}

func genTunnel(t *rapid.T) Round {
	r := Round{Comp: "client-tunnel", P: map[string]int{}}
	r.Closers = rapid.SampledFrom([]int{2, 2, 2, 3, 3, 4, 5, 6, 8}).Draw(t, "closers")
	r.Paths = drawPaths(t, tunnelPaths, 3)
	r.P["variant"] = rapid.IntRange(0, 1).Draw(t, "role") // 0 listen (notifies peer), 1 target
	r.P["bytes"] = rapid.SampledFrom([]int{0, 1, 700, 40000}).Draw(t, "bytes")
	r.P["reasons"] = rapid.IntRange(0, 3).Draw(t, "reasons")                               // 0: all closers use distinct reasons, 1: all Normal, 2: all PeerClosed, 3: via manager.CloseTunnel
	r.P["notifyFault"] = rapid.SampledFrom([]int{0, 0, 1, 1, 2, 3}).Draw(t, "notifyFault") // bit 1: SendTunnelCloseNotify fails (control connection down), bit 2: it is slow
	r.P["udp"] = 0
	if rapid.IntRange(0, 5).Draw(t, "udp") == 0 {
		// protocol "udp": Tunnel.runDataCopy uses iocopy.UDP (length-prefixed datagrams, batch
		// buffer + 20 ms flusher goroutine towards the tunnel)
		r.P["udp"] = 1
		r.P["bytes"] = rapid.SampledFrom([]int{0, 700}).Draw(t, "udpBytes")
		if rapid.Bool().Draw(t, "writeFails") {
			// tunnel writes start failing while the UDP side keeps delivering > 256 KiB: the
			// UDP->tunnel loop leaves through its "batch full and flush failed" exit
			r.Paths = append(r.Paths, "tunnel-write-fails")
			r.P["udpStage"] = rapid.IntRange(0, 1).Draw(t, "udpStage") // 1: that exit is reached before the closers start
		}
	}
	if r.P["udp"] == 0 && rapid.IntRange(0, 4).Draw(t, "startRace") == 0 {
		// Start() of a REGISTERED tunnel (BaseMappingHandler registers first, starts afterwards)
		// racing the closes that reach it through the manager. None of these paths cancels the
		// manager's context, so a tunnel left "closed but running" keeps its goroutines.
		r.P["startRace"] = 1
		r.P["bytes"] = 0
		r.Paths = append([]string{"start"}, drawPaths(t, []string{"peer-notify", "fatal-error-notify", "close-all"}, 2)...)
	}
	return r
}

func runTunnel(r Round) *outcome {
	o := &outcome{}
	base := snapshot(tunnelPrefixes)
	parent, cancel := context.WithCancel(context.Background())
	defer cancel()
	role := ctunnel.TunnelRoleListen
	if r.p("variant") == 1 {
		role = ctunnel.TunnelRoleTarget
	}
	mgr := ctunnel.NewTunnelManager(parent, role)
	app, local := vkit.NewBufConnPair("127.0.0.1:40001", "127.0.0.1:8080")
	peer, tun := vkit.NewBufConnPair("10.0.0.9:7000", "10.0.0.1:8000")
	defer func() { app.Close(); peer.Close(); local.Close(); tun.Close() }()
	var rwcCloses atomic.Int32
	udp := r.p("udp") == 1
	proto := "tcp"
	if udp {
		proto = "udp"
		local.ReadCap.Store(1400) // one datagram per Read
	}
	var closeWrites atomic.Int32
	rwc, err := iocopy.NewReadWriteCloserWithCloseWrite(tun, tun, func() error { rwcCloses.Add(1); return tun.Close() },
		func() error { closeWrites.Add(1); return tun.CloseWrite() })
	if err != nil {
		o.skipped = true
		return o
	}
	client := &notifyClient{fail: r.p("notifyFault")&1 != 0, slow: r.p("notifyFault")&2 != 0}
	var onClosed counter
	var tnRef atomic.Pointer[ctunnel.Tunnel]
	var statSent, statRecv atomic.Int64
	var closedReason atomic.Int32
	closedReason.Store(-1)
	id := "c16-tunnel"
	tn := ctunnel.NewTunnel(&ctunnel.TunnelConfig{
		ID: id, MappingID: "m1", Role: role, Protocol: proto,
		LocalConn: local, TunnelConn: tun, TunnelRWC: rwc, TargetClient: 42,
		Manager: mgr, Client: client,
		OnClosed: func(reason ctunnel.CloseReason, err error) {
			if onClosed.hit() == 1 {
				// what BaseMappingHandler's callback does: this is the only place the tunnel's
				// traffic totals are handed on
				if st := tnRef.Load(); st != nil {
					s := st.GetStats()
					statSent.Store(s.BytesSent)
					statRecv.Store(s.BytesRecv)
				}
			}
			closedReason.Store(int32(reason))
		},
	})
	tnRef.Store(tn)
	if err := mgr.RegisterTunnel(tn); err != nil {
		o.skipped = true
		return o
	}
	startRace := r.p("startRace") == 1
	if !startRace {
		if err := tn.Start(); err != nil {
			o.skipped = true
			return o
		}
	}
	var startErr error
	// real I/O through the tunnel in both directions before the race
	nb := r.p("bytes")
	if nb > 0 {
		buf := make([]byte, nb)
		app.Write(buf)
		if udp { // tunnel -> UDP direction carries 2-byte length-prefixed datagrams
			n := nb/2 + 1
			peer.Write(append([]byte{byte(n >> 8), byte(n)}, buf[:n]...))
		} else {
			peer.Write(buf[:nb/2+1])
		}
		ok := pollUntil(2*time.Second, func() bool { return peer.Pending() >= nb && app.Pending() >= nb/2+1 })
		if !ok {
			o.skipped = true // copy did not deliver in time (load): not what this property is about
			tn.Close(ctunnel.CloseReasonNormal, nil)
			app.Close()
			peer.Close()
			mgr.Close()
			settle(tunnelPrefixes, base, 2*time.Second)
			return o
		}
	}

	rc := newRace("client-tunnel")
	reasons := []ctunnel.CloseReason{ctunnel.CloseReasonNormal, ctunnel.CloseReasonLocalClosed, ctunnel.CloseReasonPeerClosed,
		ctunnel.CloseReasonTimeout, ctunnel.CloseReasonError, ctunnel.CloseReasonContextCanceled}
	for i := 0; i < r.Closers; i++ {
		var reason ctunnel.CloseReason
		switch r.p("reasons") {
		case 0, 3:
			reason = reasons[i%len(reasons)]
		case 1:
			reason = ctunnel.CloseReasonNormal
		default:
			reason = ctunnel.CloseReasonPeerClosed
		}
		viaMgr := r.p("reasons") == 3 && i%2 == 0
		rc.spin(kindCloser, "Close", func() {
			if viaMgr {
				mgr.CloseTunnel(id, reason)
			} else {
				var e error
				if reason == ctunnel.CloseReasonError {
					e = errors.New("boom")
				}
				tn.Close(reason, e)
			}
		})
	}
	for _, p := range r.Paths {
		switch p {
		case "local-eof":
			rc.spin(kindPath, p, func() { app.Close() })
		case "tunnel-eof":
			rc.spin(kindPath, p, func() { peer.Close() })
		case "peer-notify":
			rc.spin(kindPath, p, func() { mgr.OnTunnelClosed(id, "m1", "peer_closed", 1, 2, 3) })
		case "mgr-close":
			rc.spin(kindPath, p, func() { mgr.Close() })
		case "parent-cancel":
			rc.spin(kindPath, p, func() { cancel() })
		case "fatal-error-notify":
			rc.spin(kindPath, p, func() { mgr.OnTunnelError(id, "m1", "E1", "fatal", false) })
		case "close-all":
			rc.spin(kindPath, p, func() { mgr.CloseAll() })
		case "start":
			rc.spin(kindPath, "Start", func() { startErr = tn.Start() })
		case "tunnel-write-fails":
			fire := func() {
				tun.FailWriteAfter.Store(tun.BytesWritten())
				app.Write(make([]byte, 300*1024))
			}
			if r.p("udpStage") == 1 {
				fire()
				// the loop has left through the batch-full exit once it half-closes the tunnel
				if pollUntil(2*time.Second, func() bool { return closeWrites.Load() >= 1 }) {
					o.extraClass = append(o.extraClass, "udp-send-loop-left-on-failed-flush-before-close")
				}
			} else {
				rc.spin(kindPath, p, fire)
			}
		}
	}
	rc.release()
	if !rc.mustReturn(o, base, "Tunnel.Close or a completion path") {
		return o
	}
	rc.measure(o)
	if startRace {
		if startErr == nil {
			o.extraClass = append(o.extraClass, "start-won-then-closed")
		} else {
			o.extraClass = append(o.extraClass, "start-refused-tunnel-already-closing")
		}
	}

	// unblock pending I/O: both far ends go away
	app.Close()
	peer.Close()
	// the close body runs on exactly one goroutine; wait for it to finish
	pollUntilBlocked(2*time.Second, 20*time.Second, func() bool { return tn.GetState() == ctunnel.TunnelStateClosed && onClosed.get() >= 1 })
	leaks := settle(tunnelPrefixes, base, 2*time.Second)

	if n := onClosed.get(); n != 1 {
		o.failf(fmt.Sprintf("C16/client-tunnel/OnClosed-ran-%s", times(n)),
			"OnClosed callback ran %d times (closers=%d paths=%v): Tunnel.Close let more than one caller past its state check", n, r.Closers, r.Paths)
	}
	if st := tn.GetState(); st != ctunnel.TunnelStateClosed {
		o.failf("C16/client-tunnel/state-not-closed", "state=%d after all Close calls returned and I/O was unblocked", st)
	}
	if n := mgr.CountTunnels(); n != 0 {
		o.failf("C16/client-tunnel/still-registered", "manager still lists %d tunnels after Close", n)
	}
	// peer notification: a cleanup action of the component itself; at most one, and only for a
	// Listen-role tunnel
	if n := int(client.calls.Load()); n > 1 {
		o.failf("C16/client-tunnel/close-notify-sent-"+times(n), "SendTunnelCloseNotify called %d times for one tunnel (notifier fault mode %d: bit 1 = the call fails)", n, r.p("notifyFault"))
	} else if n == 1 && role != ctunnel.TunnelRoleListen {
		o.failf("C16/client-tunnel/close-notify-from-target-role", "target-role tunnel sent a close notification")
	}
	// traffic totals: reported once, i.e. the totals handed to OnClosed are the bytes copied
	if onClosed.get() == 1 && !udp { // (udp: framing bytes and never-flushed batches make the two counts incomparable)
		wantSent, wantRecv := tun.BytesWritten(), local.BytesWritten()
		if gs, gr := statSent.Load(), statRecv.Load(); gs != wantSent || gr != wantRecv {
			o.failf("C16/client-tunnel/traffic-totals-not-final-at-OnClosed",
				"OnClosed (reason %s) saw stats sent=%d recv=%d, the tunnel copied sent=%d recv=%d: runDataCopy adds its byte counts only after the copy ends, a Close from outside invokes OnClosed before that",
				ctunnel.CloseReason(closedReason.Load()), gs, gr, wantSent, wantRecv)
		}
	}
	if !local.IsClosed() || !tun.IsClosed() {
		o.failf("C16/client-tunnel/conn-left-open", "local closed=%v tunnel closed=%v after Close", local.IsClosed(), tun.IsClosed())
	}
	if leaks != nil {
		o.failf("C16/client-tunnel/goroutine-leak/"+leakKeyPart(leaks[0]), "goroutines remain 2s after Close returned and both far ends were closed: %s", leakMsg(leaks))
	}
	// later operations fail cleanly
	rc2 := newRace("client-tunnel")
	rc2.guard("post-close", func() {
		tn.Close(ctunnel.CloseReasonNormal, nil)
		tn.NotifyPeerClosed("late", nil)
		mgr.CloseTunnel(id, ctunnel.CloseReasonNormal)
		tn.GetStats()
	})
	o.fails = append(o.fails, rc2.fails...)
	if n := onClosed.get(); n > 1 && len(o.fails) == 0 {
		o.failf("C16/client-tunnel/OnClosed-ran-again-on-later-close", "OnClosed ran %d times after a later Close", n)
	}
	mgr.Close()
	cancel()
	return o
}

var compTunnel = register(&component{name: "client-tunnel", quick: 2400, thorough: 60000, gen: genTunnel, run: runTunnel})

func TestClientTunnel(t *testing.T) { compTunnel.test(t) }
