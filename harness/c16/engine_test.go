// C16 — shutdown paths run exactly once and leave nothing running.
//
// Engine E3 (contention harness): every round constructs one component, starts real I/O on
// in-memory conns, parks N closers plus the drawn completion paths on a SPIN barrier (all
// goroutines spin on one atomic flag; a channel barrier does not hit 2-instruction
// check-then-act windows) and releases them together. Oracles: invocation counters of
// cleanup handlers / close callbacks, traffic totals, recovered panics, post-close operations,
// goroutine-dump diff against the pre-round baseline.
//
// Process model: rounds run in a CHILD process (the same test binary re-executed with
// C16_CHILD=1). A panic inside a goroutine spawned by the component, or a runtime fatal error
// ("concurrent map writes"), kills the child only; the supervising parent attributes the crash
// to the round journaled in replays/C16/current.s<shard>.json and reports it through
// vkit.Violation like every other oracle failure.
package c16

import (
	"fmt"
	"os"
	"regexp"
	"runtime"
	"runtime/debug"
	"sort"
	"strings"
	"sync"
	"sync/atomic"
	"time"
)

// Round is the replay unit: the parameters of one contention round. Rounds are schedule
// dependent, so a replay re-runs the same parameters many times.
type Round struct {
	Comp    string         `json:"comp"`
	Closers int            `json:"closers"`
	Paths   []string       `json:"paths"`
	P       map[string]int `json:"p,omitempty"`
}

func (r Round) p(k string) int { return r.P[k] }

func (r Round) has(path string) bool {
	for _, x := range r.Paths {
		if x == path {
			return true
		}
	}
	return false
}

func (r Round) sig() string {
	ps := append([]string(nil), r.Paths...)
	sort.Strings(ps)
	return fmt.Sprintf("%s|n=%d|%s|v=%d|m=%d", r.Comp, r.Closers, strings.Join(ps, "+"), r.P["variant"], r.P["udp"]+2*r.P["pathFirst"]+8*r.P["bw"]+16*r.P["lateAttach"]+32*r.P["startRace"]+64*r.P["cluster"]+128*r.P["slowTarget"])
}

type fail struct {
	Key    string `json:"key"`
	Detail string `json:"detail"`
}

// outcome is what one executed round reports.
type outcome struct {
	fails      []fail
	overlap    bool // >= 2 closers were inside Close at the same time
	maxInside  int  // max number of closers simultaneously inside Close
	pathInside bool // a completion path was triggered while a closer was inside Close (or within the closers' hull)
	pathsFired int
	class      string
	extraClass []string
	extra      map[string]int64
	skipped    bool
	abort      bool // the process is poisoned (goroutines blocked for good): the child must be replaced
}

func (o *outcome) failf(key, format string, a ...any) {
	o.fails = append(o.fails, fail{Key: key, Detail: fmt.Sprintf(format, a...)})
}

func (o *outcome) add(k string, n int64) {
	if o.extra == nil {
		o.extra = map[string]int64{}
	}
	o.extra[k] += n
}

var t0 = time.Now()

var debugTiming = os.Getenv("C16_DEBUG") != ""

func nowNS() int64 { return int64(time.Since(t0)) }

type span struct {
	name    string
	in, out int64
}

// race is one spin barrier with its actors.
type race struct {
	comp    string
	flag    atomic.Int32
	ready   atomic.Int32
	n       int32
	slots   [24]beatSlot // heartbeat of every spinner (own cache line each)
	allLive bool         // every spinner was observed running right before the release
	wg      sync.WaitGroup
	mu      sync.Mutex
	fails   []fail
	closers []span
	paths   []span
}

// beatSlot is bumped by a spinner on every loop iteration; the releaser uses it to see
// which spinners are on a CPU right now.
type beatSlot struct {
	beat atomic.Uint64
	_    [56]byte
}

func newRace(comp string) *race { return &race{comp: comp} }

func (r *race) fail(key, detail string) {
	r.mu.Lock()
	r.fails = append(r.fails, fail{key, detail})
	r.mu.Unlock()
}

// topRepoFrame returns the innermost tunnox-core/internal function of a stack dump that comes
// after the panic frame (i.e. the function that raised it).
func topRepoFrame(stack string) string {
	if i := strings.Index(stack, "panic("); i >= 0 {
		stack = stack[i:]
	}
	for _, ln := range strings.Split(stack, "\n") {
		if strings.HasPrefix(ln, "tunnox-core/internal/") {
			if i := strings.LastIndex(ln, "("); i > 0 {
				ln = ln[:i]
			}
			return shortFunc(ln)
		}
	}
	return "unknown-frame"
}

func shortFunc(f string) string {
	f = strings.TrimPrefix(f, "tunnox-core/internal/")
	return f
}

// guard runs fn and converts a panic into an oracle failure (the property promises that no
// shutdown interleaving panics). op names the operation of the harness goroutine.
func (r *race) guard(op string, fn func()) {
	defer func() {
		if p := recover(); p != nil {
			st := string(debug.Stack())
			fr := topRepoFrame(st)
			r.fail(fmt.Sprintf("C16/%s/panic/%s/%s", r.comp, op, fr), fmt.Sprintf("panic: %v\n%s", p, trimStack(st)))
		}
	}()
	fn()
}

func trimStack(st string) string {
	if len(st) > 1800 {
		st = st[:1800] + "..."
	}
	return st
}

const (
	kindCloser = iota
	kindPath
	kindOther
)

// spin registers an actor: it parks on the spin barrier and runs fn at release.
func (r *race) spin(kind int, name string, fn func()) {
	idx := int(r.n) % len(r.slots)
	r.n++
	r.wg.Add(1)
	go func() {
		defer r.wg.Done()
		s := &r.slots[idx]
		r.ready.Add(1)
		for b := uint64(1); r.flag.Load() == 0; b++ {
			s.beat.Store(b)
		}
		sp := span{name: name, in: nowNS()}
		r.guard(name, fn)
		sp.out = nowNS()
		r.mu.Lock()
		switch kind {
		case kindCloser:
			r.closers = append(r.closers, sp)
		case kindPath:
			r.paths = append(r.paths, sp)
		}
		r.mu.Unlock()
	}()
}

// bg runs a non-barrier harness goroutine (e.g. a blocked reader started before the race).
func (r *race) bg(name string, fn func()) {
	r.wg.Add(1)
	go func() {
		defer r.wg.Done()
		r.guard(name, fn)
	}()
}

// release waits until every actor spins, then flips the flag.
// release waits until every actor spins, then flips the flag at a moment when all of them
// were just seen making progress (on a loaded machine a spinner that is descheduled at the
// flip starts late and the round degenerates to serial closes). Gives up after 3 ms.
func (r *race) release() {
	for r.ready.Load() < r.n {
		runtime.Gosched()
	}
	n := int(r.n)
	if n > len(r.slots) {
		n = len(r.slots)
	}
	var last [24]uint64
	deadline := time.Now().Add(3 * time.Millisecond)
	for tries := 0; ; tries++ {
		for i := 0; i < n; i++ {
			last[i] = r.slots[i].beat.Load()
		}
		for k := 0; k < 60; k++ {
			_ = r.ready.Load()
		}
		all := true
		for i := 0; i < n; i++ {
			if r.slots[i].beat.Load() == last[i] {
				all = false
				break
			}
		}
		if all {
			r.allLive = true
			break
		}
		if tries&15 == 15 && time.Now().After(deadline) {
			break
		}
	}
	r.flag.Store(1)
}

// wait waits for all harness goroutines; false = some did not return within d.
func (r *race) wait(d time.Duration) bool {
	done := make(chan struct{})
	go func() { r.wg.Wait(); close(done) }()
	select {
	case <-done:
		return true
	case <-time.After(d):
		return false
	}
}

// measure fills overlap statistics into o.
func (r *race) measure(o *outcome) {
	r.mu.Lock()
	defer r.mu.Unlock()
	o.fails = append(o.fails, r.fails...)
	if r.allLive {
		o.add("barrier_all_spinners_live_at_release", 1)
	}
	type ev struct {
		t int64
		d int
	}
	var evs []ev
	lo, hi := int64(1<<62), int64(-1)
	for _, c := range r.closers {
		evs = append(evs, ev{c.in, +1}, ev{c.out, -1})
		if c.in < lo {
			lo = c.in
		}
		if c.out > hi {
			hi = c.out
		}
	}
	sort.Slice(evs, func(i, j int) bool {
		if evs[i].t != evs[j].t {
			return evs[i].t < evs[j].t
		}
		return evs[i].d < evs[j].d // exits before entries at equal stamps: conservative
	})
	cur := 0
	for _, e := range evs {
		cur += e.d
		if cur > o.maxInside {
			o.maxInside = cur
		}
	}
	o.overlap = o.maxInside >= 2
	for _, p := range r.paths {
		o.pathsFired++
		if p.in <= hi && p.out >= lo {
			o.pathInside = true
		}
	}
}

// ---------------------------------------------------------------------------
// goroutine-leak oracle

// gsnap is the pre-round baseline: the ids of ALL goroutines alive before the round (ids are
// never reused, so "not in the baseline" means "started during the round" whatever the
// goroutine is doing at the moment of a snapshot).
type gsnap map[int64]bool

var gbuf = make([]byte, 1<<20)

func allStacks() string {
	var n int
	for {
		n = runtime.Stack(gbuf, true)
		if n < len(gbuf) {
			break
		}
		gbuf = make([]byte, 2*len(gbuf))
	}
	return string(gbuf[:n])
}

func goid(header string) int64 {
	// "goroutine 123 [select]:"
	if !strings.HasPrefix(header, "goroutine ") {
		return -1
	}
	s := header[len("goroutine "):]
	if i := strings.IndexByte(s, ' '); i > 0 {
		s = s[:i]
	}
	var id int64
	for _, c := range s {
		if c < '0' || c > '9' {
			return -1
		}
		id = id*10 + int64(c-'0')
	}
	return id
}

// snapshot records the baseline. The prefixes argument is unused (kept for call-site symmetry
// with settle).
func snapshot(prefixes []string) gsnap {
	out := gsnap{}
	for _, g := range strings.Split(allStacks(), "\n\n") {
		h := g
		if i := strings.IndexByte(g, '\n'); i >= 0 {
			h = g[:i]
		}
		if id := goid(h); id >= 0 {
			out[id] = true
		}
	}
	return out
}

// lastLeakDump holds the stacks seen when settle last gave a leak verdict.
var lastLeakDump string

// leakMsg formats a leak verdict with the stacks of the goroutines inside the code under test.
func leakMsg(l []string) string { return fmt.Sprintf("%v; stacks: %s", l, lastLeakDump) }

// leakedNow lists goroutines started after the baseline that have a frame (or creator) in one
// of the given package prefixes (e.g. "tunnox-core/internal/client/tunnel."), described as
// "<innermost matching function> <- <creator> xN". runnable reports whether one of them is
// running/runnable (still making progress).
func leakedNow(prefixes []string, base gsnap) (ks []string, runnable bool) {
	counts := map[string]int{}
	first := true
	for _, g := range strings.Split(allStacks(), "\n\n") {
		if first { // the calling goroutine comes first
			first = false
			continue
		}
		lines := strings.Split(g, "\n")
		if base[goid(lines[0])] {
			continue
		}
		inner, creator := "", ""
		for _, ln := range lines[1:] {
			if strings.HasPrefix(ln, "\t") {
				continue
			}
			isCreator := false
			fn := ln
			if strings.HasPrefix(ln, "created by ") {
				isCreator = true
				fn = strings.TrimPrefix(ln, "created by ")
				if i := strings.Index(fn, " in goroutine"); i >= 0 {
					fn = fn[:i]
				}
			} else if i := strings.LastIndex(fn, "("); i >= 0 {
				fn = fn[:i]
			}
			match := false
			for _, p := range prefixes {
				if strings.HasPrefix(fn, p) {
					match = true
					break
				}
			}
			if !match {
				continue
			}
			if isCreator {
				creator = fn
			} else if inner == "" {
				inner = fn
			}
		}
		if inner == "" && creator == "" {
			continue
		}
		if inner == "" {
			inner = "(outside)"
		}
		if strings.Contains(lines[0], "[running") || strings.Contains(lines[0], "[runnable") {
			runnable = true
		}
		counts[shortFunc(inner)+" <- "+shortFunc(creator)]++
	}
	for k, n := range counts {
		ks = append(ks, fmt.Sprintf("%s x%d", k, n))
	}
	sort.Strings(ks)
	return ks, runnable
}

// settle polls until no goroutine of the component beyond the baseline remains, at most
// maxWait (the property speaks about the state after pending I/O has been unblocked; goroutines
// that finish a little later are legitimate).
func settle(prefixes []string, base gsnap, maxWait time.Duration) []string {
	deadline := time.Now().Add(maxWait)
	sleep := 50 * time.Microsecond
	for i := 0; ; i++ {
		if i < 3 {
			runtime.Gosched()
		}
		l, runnable := leakedNow(prefixes, base)
		if len(l) == 0 {
			return nil
		}
		if time.Now().After(deadline) {
			// goroutines that are runnable are finishing late (starved on a loaded machine), not
			// leaked: keep polling, but never longer than 5x the bound
			if !runnable || time.Now().After(deadline.Add(4*maxWait)) {
				lastLeakDump, _ = repoGoroutines(2500)
				return l
			}
		}
		time.Sleep(sleep)
		if sleep < 20*time.Millisecond {
			sleep *= 2
		}
	}
}

// leakKeyPart turns "pkg.(*T).fn <- creator x2" into a key component (function that leaked).
func leakKeyPart(l string) string {
	if i := strings.Index(l, " x"); i >= 0 {
		l = l[:i]
	}
	l = strings.ReplaceAll(l, " <- ", "<-")
	return l
}

// pollUntil polls cond up to d.
func pollUntil(d time.Duration, cond func() bool) bool {
	deadline := time.Now().Add(d)
	sleep := 20 * time.Microsecond
	for {
		if cond() {
			return true
		}
		if time.Now().After(deadline) {
			return cond()
		}
		time.Sleep(sleep)
		if sleep < 5*time.Millisecond {
			sleep *= 2
		}
	}
}

// counter is a counting cleanup action.
type counter struct{ n atomic.Int32 }

func (c *counter) hit() int32 { return c.n.Add(1) }
func (c *counter) get() int   { return int(c.n.Load()) }

// repoGoroutines returns the stacks of all goroutines that have a tunnox-core/internal frame
// (file lines dropped), and whether any of them is running or runnable (i.e. making or about
// to make progress, as opposed to blocked).
func repoGoroutines(max int) (dump string, progressing bool) {
	buf := make([]byte, 1<<20)
	n := runtime.Stack(buf, true)
	var sb strings.Builder
	inside := 0
	for _, g := range strings.Split(string(buf[:n]), "\n\n") {
		if !strings.Contains(g, "tunnox-core/internal/") {
			continue
		}
		lines := strings.Split(g, "\n")
		inside++
		if strings.Contains(lines[0], "[running") || strings.Contains(lines[0], "[runnable") {
			progressing = true
		}
		if sb.Len() > max {
			continue
		}
		for _, ln := range lines {
			if strings.HasPrefix(ln, "\t") {
				continue
			}
			if i := strings.LastIndex(ln, "("); i > 0 && !strings.HasPrefix(ln, "goroutine ") && !strings.HasPrefix(ln, "created by ") {
				ln = ln[:i]
			}
			sb.WriteString(ln)
			sb.WriteString(" | ")
		}
		sb.WriteString("\n")
	}
	if inside == 0 {
		// nobody is inside the code under test: whoever has not returned yet is a harness
		// goroutine that has not been scheduled (loaded machine) - that is progress, not a block
		progressing = true
	}
	return sb.String(), progressing
}

// waitBlocked waits for all harness goroutines of the race. It returns ok=false only when they
// have not returned after soft AND every goroutine inside the code under test is blocked (not
// runnable) in two samples: on a loaded machine a starved goroutine is slow, not stuck. After
// hard the verdict is given regardless.
func (r *race) waitBlocked(soft, hard time.Duration) (ok bool, dump string) {
	if r.wait(soft) {
		return true, ""
	}
	start := time.Now()
	for {
		d, prog := repoGoroutines(3000)
		if !prog {
			time.Sleep(50 * time.Millisecond)
			d2, prog2 := repoGoroutines(3000)
			if !prog2 {
				if r.wait(time.Millisecond) {
					return true, ""
				}
				return false, d2
			}
		}
		if time.Since(start) > hard-soft {
			return false, d
		}
		if r.wait(500 * time.Millisecond) {
			return true, ""
		}
	}
}

// pollUntilBlocked polls cond up to soft; after that it keeps polling (up to hard) for as long
// as some goroutine inside the code under test is still runnable.
func pollUntilBlocked(soft, hard time.Duration, cond func() bool) bool {
	if pollUntil(soft, cond) {
		return true
	}
	start := time.Now()
	for time.Since(start) < hard-soft {
		if _, prog := repoGoroutines(0); !prog {
			time.Sleep(50 * time.Millisecond)
			if _, prog2 := repoGoroutines(0); !prog2 {
				return cond()
			}
		}
		if pollUntil(300*time.Millisecond, cond) {
			return true
		}
	}
	return cond()
}

// roundAborted is set when a "does not return" verdict was given: tear-down code that calls
// into the (deadlocked) component must be skipped, the child process is replaced.
var roundAborted bool

// blockedTops names, for every goroutine started after the baseline that is inside the code
// under test and on a shutdown path, the innermost tunnox-core/internal function, plus the
// callers of dispose primitives that block without being closers (sorted, unique, joined by
// "+"): the root-cause part of a "does not return" key. Bystanders queued behind the same
// lock only appear in the detail.
func blockedTops(base gsnap) string {
	set, all := map[string]bool{}, map[string]bool{}
	for _, g := range strings.Split(allStacks(), "\n\n") {
		lines := strings.Split(g, "\n")
		if base[goid(lines[0])] {
			continue
		}
		var frames []string
		for _, ln := range lines[1:] {
			if strings.HasPrefix(ln, "tunnox-core/internal/") {
				if i := strings.LastIndex(ln, "("); i > 0 {
					ln = ln[:i]
				}
				frames = append(frames, shortFunc(ln))
			}
		}
		if len(frames) == 0 {
			continue
		}
		all[frames[0]] = true
		onClosePath := false
		for _, f := range frames {
			if closePathFunc.MatchString(f) {
				onClosePath = true
				break
			}
		}
		switch {
		case onClosePath:
			// a goroutine on a shutdown path: where it is blocked
			set[frames[0]] = true
		case strings.HasPrefix(frames[0], "core/dispose."):
			// blocked inside the dispose primitives without being a closer: name who called them
			for _, f := range frames {
				if !strings.HasPrefix(f, "core/dispose.") {
					set[f] = true
					break
				}
			}
		}
		// other goroutines are bystanders queued behind the same lock: detail only
	}
	if len(set) == 0 {
		set = all
	}
	var ks []string
	for k := range set {
		ks = append(ks, k)
	}
	sort.Strings(ks)
	if len(ks) > 4 {
		ks = ks[:4]
	}
	if len(ks) == 0 {
		return "no-repo-frame"
	}
	return strings.Join(ks, "+")
}

var closePathFunc = regexp.MustCompile(`\.(Close|CloseWithResult|CloseWithError|CloseConnection|CloseAll|CloseTunnel|onClose|cleanup|runCleanHandlers|StopCleanup|Stop|Dispose|DisposeAll|DisposeWithTimeout)(\.func\d+)*$`)

// mustReturn is the bounded "Close returns" verdict: all harness goroutines of the race must
// come back. After 3 s it fails as soon as every goroutine inside the code under test is
// blocked in two samples (deadlock), at the latest after 20 s. The round is then aborted: the
// blocked goroutines can never be collected, so the child process is replaced.
func (r *race) mustReturn(o *outcome, base gsnap, what string) bool {
	ok, dump := r.waitBlocked(3*time.Second, 20*time.Second)
	if ok {
		return true
	}
	o.fails = append(o.fails, r.failsSnapshot()...)
	o.failf(fmt.Sprintf("C16/%s/close-does-not-return/%s", r.comp, blockedTops(base)),
		"%s did not return: 3s after the release every goroutine inside the code under test is blocked (two samples) or still not done after 20s. Stacks:\n%s", what, dump)
	o.abort = true
	roundAborted = true
	return false
}

func (r *race) failsSnapshot() []fail {
	r.mu.Lock()
	defer r.mu.Unlock()
	return append([]fail(nil), r.fails...)
}

// errInjected is what fault-injected cleanup steps and resource Close calls return.
var errInjected = fmt.Errorf("c16: injected cleanup failure")

// faultyHandler is the fault dimension "an earlier cleanup step fails and/or is slow": bit 1 of
// mode makes it return an error, bit 2 makes it take ~30us. It is registered BEFORE the
// harness's counting handler, which must still run exactly once.
func faultyHandler(mode int, c *counter) func() error {
	return func() error {
		c.hit()
		if mode&2 != 0 {
			for t := nowNS(); nowNS()-t < 30000; {
			}
		}
		if mode&1 != 0 {
			return errInjected
		}
		return nil
	}
}
