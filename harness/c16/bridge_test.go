package c16

import (
	"context"
	"errors"
	"fmt"
	"net"
	"sync"
	"sync/atomic"
	"testing"
	"time"

	"pgregory.net/rapid"

	"tunnox-core/internal/cloud/models"
	"tunnox-core/internal/cloud/stats"
	"tunnox-core/internal/protocol/session"
	"tunnox-core/internal/stream"
	"tunnox-core/verif/vkit"
)

// server tunnel.Bridge (built with session.NewTunnelBridge exactly as
// SessionManager.startSourceBridge does, driven like runBridgeLifecycle): Close x N vs a copy
// direction finishing vs parent context cancel vs Start still waiting for the target. Traffic
// is reported through a counting CloudControlAPI double that can block inside
// UpdatePortMappingStats so that the two reporters (cleanup and the periodic reporter's final
// report) overlap.

var bridgePrefixes = []string{"tunnox-core/internal/protocol/session/tunnel.", "tunnox-core/internal/protocol/session.", "tunnox-core/internal/stream."}

// cloudDouble behaves like a mapping store: Get returns a copy of the stored statistics,
// Update replaces them. mode 1 parks after applying the update (the reply is slow), mode 2
// parks before applying it (the request is slow).
type cloudDouble struct {
	mu      sync.Mutex
	st      models.TrafficStats
	updates int
	gets    int
	mode    int
	gate    chan struct{}
	parked  atomic.Int32
	once    sync.Once
}

// slowCloseConn is a transport whose first Close takes a moment before it releases the conn.
type slowCloseConn struct {
	*vkit.BufConn
	d     time.Duration
	calls atomic.Int32
}

func (s *slowCloseConn) Close() error {
	if s.calls.Add(1) == 1 {
		time.Sleep(s.d)
	}
	return s.BufConn.Close()
}

func (c *cloudDouble) open() { c.once.Do(func() { close(c.gate) }) }

func (c *cloudDouble) GetPortMapping(id string) (*models.PortMapping, error) {
	if id != "m1" {
		return nil, errors.New("mapping not found")
	}
	c.mu.Lock()
	defer c.mu.Unlock()
	c.gets++
	return &models.PortMapping{ID: id, TrafficStats: c.st}, nil
}

func (c *cloudDouble) UpdatePortMappingStats(id string, ts *stats.TrafficStats) error {
	if c.mode == 2 {
		c.parked.Add(1)
		<-c.gate
	}
	c.mu.Lock()
	c.st = *ts
	c.updates++
	c.mu.Unlock()
	if c.mode == 1 {
		c.parked.Add(1)
		<-c.gate
	}
	return nil
}

func (c *cloudDouble) GetClientPortMappings(int64) ([]*models.PortMapping, error) { return nil, nil }

func (c *cloudDouble) final() (sent, recv int64, updates int) {
	c.mu.Lock()
	defer c.mu.Unlock()
	return c.st.BytesSent, c.st.BytesReceived, c.updates
}

var bridgePaths = []string{"source-eof", "target-eof", "parent-cancel", "data-inflight", "target-arrives"}

func genBridge(t *rapid.T) Round {
	r := Round{Comp: "bridge", P: map[string]int{}}
	r.Closers = rapid.SampledFrom([]int{2, 2, 2, 3, 3, 4, 5, 6, 8}).Draw(t, "closers")
	r.P["variant"] = rapid.SampledFrom([]int{0, 0, 0, 1}).Draw(t, "waiting") // 1: Start still waits for the target
	names := []string{"source-eof", "target-eof", "parent-cancel", "data-inflight"}
	if r.P["variant"] == 1 {
		names = []string{"source-eof", "parent-cancel", "target-arrives"}
	}
	r.Paths = drawPaths(t, names, 3)
	r.P["bytes"] = rapid.SampledFrom([]int{0, 1, 900, 70000}).Draw(t, "bytes")
	r.P["block"] = rapid.SampledFrom([]int{0, 0, 1, 2}).Draw(t, "block") // cloud double: 0 never parks, 1 parks after apply, 2 parks before apply
	r.P["hfault"] = rapid.IntRange(0, 3).Draw(t, "hfault")               // bit 1: an earlier cleanup handler fails, bit 2: it is slow
	r.P["pathFirst"] = 0
	if r.P["variant"] == 1 && rapid.IntRange(0, 1).Draw(t, "lateAttach") == 1 {
		// three-step history: the bridge is closed by something else than its lifecycle's deferred
		// Close (the racing closers), then connections are attached (the target client arrives
		// late, the source reconnects - the bridge is still in tunnelBridges), then the lifecycle's
		// deferred Close runs: every connection ever attached must end up closed
		r.P["lateAttach"] = 1
		r.Paths = drawPaths(t, []string{"source-eof", "parent-cancel"}, 1)
	} else if r.P["variant"] == 1 {
		// the target attaches at the instant the closers arrive (Start leaves its wait and takes
		// its forwarder snapshot while Close tears down), and the target transport's Close takes
		// about a millisecond (close handshake, trailer flush)
		r.P["slowTarget"] = 1
		if !r.has("target-arrives") {
			r.Paths = append(r.Paths, "target-arrives")
		}
	}
	if r.P["variant"] == 0 && rapid.IntRange(0, 6).Draw(t, "pathFirst") == 0 {
		r.P["pathFirst"] = 1 // the completion path fires alone first and must close the bridge by itself
		r.Paths = []string{rapid.SampledFrom([]string{"source-eof", "target-eof"}).Draw(t, "firstPath")}
	}
	if r.P["variant"] == 0 && r.P["pathFirst"] == 0 && rapid.IntRange(0, 7).Draw(t, "bandwidth") == 0 {
		// a bandwidth-limited bridge (1 KiB/s, burst 2 KiB) that has read a 16 KiB chunk: the copy
		// loop is waiting for tokens when the closers arrive
		r.P["bw"] = 1
		r.P["bytes"] = 16 * 1024
	}
	if r.P["variant"] == 0 && r.P["pathFirst"] == 0 && r.P["bw"] == 0 && rapid.IntRange(0, 9).Draw(t, "streamCancel") == 0 {
		// the bridge's context is cancelled while both ends keep streaming small writes and nobody
		// closes the conns: the copy loops leave through their every-10000-iterations context check
		r.P["pathFirst"] = 2
		r.P["block"] = 0
		r.P["bytes"] = 10400
		r.Paths = []string{"cancel-while-streaming"}
	}
	return r
}

func runBridge(r Round) *outcome {
	o := &outcome{}
	tStart := time.Now()
	var marks []string
	mark := func(n string) {
		if debugTiming {
			marks = append(marks, fmt.Sprintf("%s=%v", n, time.Since(tStart).Round(10*time.Microsecond)))
		}
	}
	defer func() {
		if debugTiming && time.Since(tStart) > 20*time.Millisecond {
			fmt.Printf("SLOW %+v %v overlap=%v\n", r, marks, o.maxInside)
		}
	}()
	base := snapshot(bridgePrefixes)
	parent, cancel := context.WithCancel(context.Background())
	defer cancel()
	cc := &cloudDouble{mode: r.p("block"), gate: make(chan struct{})}
	defer cc.open()

	srcPeer, srcConn := vkit.NewBufConnPair("10.2.0.1:1111", "10.0.0.1:8000")
	tgtPeer, tgtConn := vkit.NewBufConnPair("10.2.0.2:2222", "10.0.0.1:8000")
	defer func() { srcPeer.Close(); tgtPeer.Close(); srcConn.Close(); tgtConn.Close() }()
	srcStream := stream.NewStreamProcessor(srcConn, srcConn, parent)
	var tgtNet net.Conn = tgtConn
	if r.p("slowTarget") == 1 {
		tgtNet = &slowCloseConn{BufConn: tgtConn, d: time.Millisecond}
	}
	tgtStream := stream.NewStreamProcessor(tgtNet, tgtNet, parent)
	const tid = "c16-bridge"
	srcTC := session.CreateTunnelConnection("conn-src", srcConn, srcStream, 7, "m1", tid)
	tgtTC := session.CreateTunnelConnection("conn-tgt", tgtNet, tgtStream, 8, "m1", tid)
	b := session.NewTunnelBridge(parent, &session.TunnelBridgeConfig{
		TunnelID: tid, MappingID: "m1", SourceTunnelConn: srcTC, SourceConn: srcConn, SourceStream: srcStream, CloudControl: cc,
		BandwidthLimit: int64(r.p("bw")) * 1024,
	})
	var mine, faulty counter
	if m := r.p("hfault"); m != 0 {
		b.AddCleanHandler(faultyHandler(m, &faulty))
	}
	b.AddCleanHandler(func() error { mine.hit(); return nil })

	rc := newRace("bridge")
	var startReturned atomic.Bool
	// what SessionManager.runBridgeLifecycle does
	lateAttach := r.p("lateAttach") == 1
	finalGate := make(chan struct{}) // holds back the lifecycle's deferred Close (late-attach rounds)
	var gateOnce sync.Once
	openFinal := func() { gateOnce.Do(func() { close(finalGate) }) }
	if !lateAttach {
		openFinal()
	}
	defer openFinal()
	rc.bg("Start", func() {
		defer func() {
			<-finalGate
			b.Close()
		}()
		b.Start()
		startReturned.Store(true)
	})
	waiting := r.p("variant") == 1
	attached := false
	if !waiting {
		b.SetTargetConnection(tgtTC)
		attached = true
	}
	cleanupRound := func() {
		openFinal()
		cc.open()
		b.Close()
		srcPeer.Close()
		tgtPeer.Close()
		srcStream.Close()
		tgtStream.Close()
		cancel()
		rc.wait(5 * time.Second)
		settle(bridgePrefixes, base, 2*time.Second)
	}
	nb := r.p("bytes")
	if r.p("bw") == 1 {
		srcPeer.Write(make([]byte, nb))
		// the copy loop has read the chunk and now waits for 14 s worth of tokens before writing it
		if !pollUntil(2*time.Second, func() bool { return srcConn.BytesRead() >= int64(nb) }) {
			o.skipped = true
			cleanupRound()
			return o
		}
		o.extraClass = append(o.extraClass, "copy-loop-waiting-for-bandwidth-tokens")
	} else if r.p("pathFirst") == 2 {
		// 1-byte reads on the bridge's ends: one loop iteration per byte
		srcConn.ReadCap.Store(1)
		tgtConn.ReadCap.Store(1)
		// first half: both loops do 5000 iterations and park in Read; then the context is
		// cancelled; the second half takes them past iteration 10000 where they look at it
		buf := make([]byte, nb)
		half := 5000
		srcPeer.Write(buf[:half])
		tgtPeer.Write(buf[:half])
		if !pollUntil(3*time.Second, func() bool { return tgtPeer.Pending() >= half && srcPeer.Pending() >= half }) {
			o.skipped = true
			cleanupRound()
			return o
		}
		cancel() // nobody closes anything: only the context says stop
		srcPeer.Write(buf[half:])
		tgtPeer.Write(buf[half:])
		if !pollUntilBlocked(3*time.Second, 20*time.Second, func() bool { return b.IsClosed() && startReturned.Load() }) {
			o.failf("C16/bridge/completion-path-did-not-close-bridge/cancel-while-streaming",
				"context cancelled while both ends stream %d 1-byte reads each (> the 10000-iteration context check): bridge closed=%v, Start returned=%v", nb, b.IsClosed(), startReturned.Load())
			cleanupRound()
			return o
		}
		o.extraClass = append(o.extraClass, "copy-loops-left-through-context-check")
	} else if nb > 0 && !waiting {
		buf := make([]byte, nb)
		srcPeer.Write(buf)
		tgtPeer.Write(buf[:nb/3+1])
		if !pollUntil(2*time.Second, func() bool { return tgtPeer.Pending() >= nb && srcPeer.Pending() >= nb/3+1 }) {
			o.skipped = true
			cleanupRound()
			return o
		}
	}

	firePath := func(p string) func() {
		switch p {
		case "source-eof":
			return func() { srcPeer.Close() }
		case "target-eof":
			return func() { tgtPeer.Close() }
		case "parent-cancel":
			return cancel
		case "data-inflight":
			return func() { srcPeer.Write(make([]byte, 3000)); tgtPeer.Write(make([]byte, 500)) }
		case "target-arrives":
			return func() { b.SetTargetConnection(tgtTC) }
		}
		return func() {}
	}

	if r.p("pathFirst") == 1 {
		// a completion path alone must shut the bridge down (copy finished / context cancelled)
		firePath(r.Paths[0])()
		if cc.mode != 0 { // IsClosed shares the lock that cleanup holds while it reports: let the reporters through first
			pollUntil(3*time.Millisecond, func() bool { return cc.parked.Load() >= 2 })
			cc.open()
		}
		if !pollUntilBlocked(3*time.Second, 20*time.Second, func() bool { return b.IsClosed() && startReturned.Load() }) {
			o.failf("C16/bridge/completion-path-did-not-close-bridge/"+r.Paths[0],
				"3s after %s: bridge closed=%v, Start returned=%v (no Close call from outside yet)", r.Paths[0], b.IsClosed(), startReturned.Load())
			cleanupRound()
			return o
		}
		o.extraClass = append(o.extraClass, "completion-path-closed-bridge-alone")
	}

	for i := 0; i < r.Closers; i++ {
		rc.spin(kindCloser, "Close", func() {
			b.Close()
			// Close returned => released, for every caller (also one that arrives while the
			// cleanup - final traffic report - of another caller is in progress)
			if mine.get() != 1 || !srcConn.IsClosed() {
				rc.fail("C16/bridge/close-returned-before-cleanup-finished",
					fmt.Sprintf("a Bridge.Close call returned with cleanup handler run=%d, source conn closed=%v (cloud double mode %d)", mine.get(), srcConn.IsClosed(), cc.mode))
			}
		})
	}
	if r.p("pathFirst") == 0 {
		for _, p := range r.Paths {
			if p == "target-arrives" {
				attached = true
			}
			rc.spin(kindPath, p, firePath(p))
		}
	}
	mark("setup")
	rc.release()
	// let the two reporters meet inside the cloud double, then let them go
	if cc.mode != 0 {
		pollUntil(3*time.Millisecond, func() bool { return cc.parked.Load() >= 2 })
		if cc.parked.Load() >= 2 {
			o.extraClass = append(o.extraClass, "two-reporters-inside-UpdatePortMappingStats")
		}
		cc.open()
	}
	var src2Peer, src2Conn *vkit.BufConn
	if lateAttach {
		// step 1 has happened once the closers made Start return; step 2: late attachments
		closersDone := func() bool {
			rc.mu.Lock()
			defer rc.mu.Unlock()
			return len(rc.closers) == r.Closers && startReturned.Load()
		}
		if pollUntilBlocked(3*time.Second, 20*time.Second, closersDone) {
			b.SetTargetConnection(tgtTC)
			src2Peer, src2Conn = vkit.NewBufConnPair("10.2.0.3:3333", "10.0.0.1:8000")
			src2Stream := stream.NewStreamProcessor(src2Conn, src2Conn, parent)
			defer func() { src2Peer.Close(); src2Conn.Close(); src2Stream.Close() }()
			b.SetSourceConnection(session.CreateTunnelConnection("conn-src2", src2Conn, src2Stream, 7, "m1", tid))
			o.extraClass = append(o.extraClass, "conns-attached-after-first-close")
		}
		openFinal() // step 3: the lifecycle's deferred Close
	}
	// stage 1: everything the bridge started must end because Close closed the bridge's own conns
	stage1, stuck := rc.waitBlocked(3*time.Second, 20*time.Second)
	var leaks1 []string
	if stage1 {
		leaks1 = settle(bridgePrefixes, base, 2*time.Second)
	}
	mark("stage1")
	// stage 2: unblock pending I/O from outside
	srcPeer.Close()
	tgtPeer.Close()
	if !stage1 {
		if ok, _ := rc.waitBlocked(3*time.Second, 20*time.Second); ok {
			o.failf("C16/bridge/close-or-start-returned-only-after-peers-went-away", "Close x%d / Start did not return within 3s after Close; returned once the far ends were closed. Goroutines at 3s:\n%s", r.Closers, stuck)
		} else {
			o.failf(fmt.Sprintf("C16/bridge/close-does-not-return/%s", blockedTops(base)), "Close x%d / Start did not return even after the far ends were closed. Stacks at 3s:\n%s", r.Closers, stuck)
			o.abort = true
			roundAborted = true
			return o
		}
	}
	rc.measure(o)
	mark("wait2")
	leaks2 := settle(bridgePrefixes, base, 2*time.Second)
	mark("settle2")
	if leaks2 != nil {
		o.failf("C16/bridge/goroutine-leak/"+leakKeyPart(leaks2[0]), "goroutines remain 2s after Close returned and the far ends were closed: %s", leakMsg(leaks2))
	} else if leaks1 != nil {
		o.failf("C16/bridge/goroutine-outlives-close-until-peer-closes/"+leakKeyPart(leaks1[0]),
			"goroutines still running 2s after Close returned, gone only after the far ends were closed (Close must close the bridge's own conns first): %v", leaks1)
	}

	if n := mine.get(); n != 1 {
		o.failf("C16/bridge/cleanup-handler-ran-"+times(n), "registered cleanup handler ran %d times", n)
	}
	if n := faulty.get(); r.p("hfault") != 0 && n != 1 {
		o.failf("C16/bridge/failing-or-slow-cleanup-handler-ran-"+times(n), "the cleanup handler registered before the counting one (fault mode %d) ran %d times", r.p("hfault"), n)
	}
	if !b.IsClosed() {
		o.failf("C16/bridge/not-closed", "IsClosed()==false after Close")
	}
	if !srcConn.IsClosed() {
		o.failf("C16/bridge/source-conn-left-open", "source conn still open after Bridge.Close")
	}
	if attached && !waiting && !tgtConn.IsClosed() {
		o.failf("C16/bridge/target-conn-left-open", "target conn (attached before Close) still open after Bridge.Close")
	}
	if lateAttach && src2Conn != nil && (!tgtConn.IsClosed() || !src2Conn.IsClosed()) {
		o.failf("C16/bridge/conn-attached-after-first-close-left-open",
			"the bridge was closed by %d concurrent Close calls, then a target and a new source connection were attached, then the lifecycle's deferred Close ran and returned: target conn closed=%v, new source conn closed=%v",
			r.Closers, tgtConn.IsClosed(), src2Conn.IsClosed())
	}
	if waiting && attached && !tgtConn.IsClosed() {
		o.extraClass = append(o.extraClass, "late-target-conn-left-open")
	}
	// traffic totals: reported once
	wantSent, wantRecv := tgtConn.BytesWritten(), srcConn.BytesWritten()
	gotSent, gotRecv, ups := cc.final()
	cSent, cRecv := b.GetBytesSent(), b.GetBytesReceived()
	tdetail := fmt.Sprintf("bridged source->target=%d target->source=%d; bridge counters %d/%d; mapping stats after close %d/%d in %d updates (block mode %d, paths %v)",
		wantSent, wantRecv, cSent, cRecv, gotSent, gotRecv, ups, cc.mode, r.Paths)
	switch {
	case cSent != wantSent || cRecv != wantRecv:
		o.failf("C16/bridge/byte-counters-differ-from-bridged", "%s", tdetail)
	case gotSent > wantSent || gotRecv > wantRecv:
		o.failf("C16/bridge/traffic-reported-twice/cleanup+periodicTrafficReport", "%s", tdetail)
	case gotSent < wantSent || gotRecv < wantRecv:
		o.failf("C16/bridge/traffic-not-reported/final-report-before-copy-flush", "%s", tdetail)
	}
	if wantSent+wantRecv > 0 {
		o.extraClass = append(o.extraClass, "traffic-bridged")
	}
	// later operations
	rc2 := newRace("bridge")
	rc2.guard("post-close", func() {
		b.Close()
		b.GetSourceConnectionID()
		b.IsActive()
		b.SetTargetConnection(nil)
		if err := b.Start(); err == nil && waiting && !attached {
			_ = err
		}
	})
	o.fails = append(o.fails, rc2.fails...)
	srcStream.Close()
	tgtStream.Close()
	cancel()
	if l := settle(bridgePrefixes, base, 2*time.Second); l != nil && leaks2 == nil {
		o.failf("C16/bridge/goroutine-leak-after-late-operations/"+leakKeyPart(l[0]), "goroutines remain after operations on the closed bridge: %s", leakMsg(l))
	}
	return o
}

var compBridge = register(&component{name: "bridge", quick: 1600, thorough: 50000, gen: genBridge, run: runBridge})

func TestBridge(t *testing.T) { compBridge.test(t) }
