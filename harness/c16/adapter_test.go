package c16

import (
	"context"
	"fmt"
	"io"
	"net"
	"reflect"
	"strings"
	"testing"
	"time"

	"pgregory.net/rapid"

	"tunnox-core/internal/protocol/adapter"
)

// protocol adapters (tcp, socks5, kcp, websocket, quic) as managed components:
// NewXAdapter(ctx, nil) + ListenFrom (real loopback sockets; the adapter's own accept loop is
// inside Accept) + Close x N racing the accept loop, a direct Accept call, a client connecting,
// the parent context being cancelled; Accept / Dial / Close after Close.

var adapterPrefixes = []string{"tunnox-core/internal/protocol/adapter."}

var adapterNames = []string{"tcp", "socks5", "kcp", "websocket", "quic"}

type protoAdapter interface {
	ListenFrom(addr string) error
	Close() error
	Accept() (io.ReadWriteCloser, error)
	Dial(addr string) (io.ReadWriteCloser, error)
	AddCleanHandler(func() error)
	IsClosed() bool
}

func newAdapter(kind int, ctx context.Context) protoAdapter {
	switch kind {
	case 0:
		return adapter.NewTcpAdapter(ctx, nil)
	case 1:
		return adapter.NewSocksAdapter(ctx, nil, nil)
	case 2:
		return adapter.NewKcpAdapter(ctx, nil)
	case 3:
		return adapter.NewWebSocketAdapter(ctx, nil)
	default:
		return adapter.NewQuicAdapter(ctx, nil)
	}
}

// nilConn reports a nil interface or a typed nil pointer inside it.
func nilConn(c io.ReadWriteCloser) bool {
	if c == nil {
		return true
	}
	v := reflect.ValueOf(c)
	return v.Kind() == reflect.Ptr && v.IsNil()
}

func udpBased(kind int) bool { return kind == 2 || kind == 4 }

// freeAddr picks a loopback port that is free right now.
func freeAddr(udp bool) (string, bool) {
	if udp {
		c, err := net.ListenPacket("udp", "127.0.0.1:0")
		if err != nil {
			return "", false
		}
		defer c.Close()
		return c.LocalAddr().String(), true
	}
	l, err := net.Listen("tcp", "127.0.0.1:0")
	if err != nil {
		return "", false
	}
	defer l.Close()
	return l.Addr().String(), true
}

func portFree(addr string, udp bool) bool {
	if udp {
		c, err := net.ListenPacket("udp", addr)
		if err != nil {
			return false
		}
		c.Close()
		return true
	}
	l, err := net.Listen("tcp", addr)
	if err != nil {
		return false
	}
	l.Close()
	return true
}

var adapterPaths = []string{"accept-direct", "accept-loop", "accept-loop-2", "client-connects", "parent-cancel"}

func genAdapter(t *rapid.T) Round {
	r := Round{Comp: "adapter", P: map[string]int{}}
	r.Closers = rapid.SampledFrom([]int{2, 2, 2, 3, 3, 4, 5, 6, 8}).Draw(t, "closers")
	// quic generates an RSA key per adapter (~100 ms): rare
	if x := rapid.IntRange(0, 49).Draw(t, "kind"); x == 0 {
		r.P["variant"] = 4
	} else {
		r.P["variant"] = x % 4
	}
	r.Paths = drawPaths(t, adapterPaths, 3)
	r.P["hfault"] = rapid.IntRange(0, 3).Draw(t, "hfault")
	r.P["settleUS"] = rapid.SampledFrom([]int{0, 20, 200}).Draw(t, "settleUS") // how long the accept loop has been running when the closers start
	return r
}

func runAdapter(r Round) *outcome {
	o := &outcome{}
	kind := r.p("variant")
	name := adapterNames[kind]
	began := time.Now()
	defer func() { o.add("round_ms_"+name, time.Since(began).Milliseconds()) }()
	base := snapshot(adapterPrefixes)
	parent, cancel := context.WithCancel(context.Background())
	defer cancel()
	addr, ok := freeAddr(udpBased(kind))
	if !ok {
		o.skipped = true
		return o
	}
	a := newAdapter(kind, parent)
	defer func() {
		if !roundAborted {
			a.Close()
		}
	}()
	var mine, faulty counter
	if m := r.p("hfault"); m != 0 {
		a.AddCleanHandler(faultyHandler(m, &faulty))
	}
	a.AddCleanHandler(func() error { mine.hit(); return nil })
	if err := a.ListenFrom(addr); err != nil {
		o.skipped = true // port taken in between
		return o
	}
	if us := r.p("settleUS"); us > 0 {
		time.Sleep(time.Duration(us) * time.Microsecond)
	}

	o.extraClass = append(o.extraClass, "kind="+name)
	rc := newRace("adapter")
	for i := 0; i < r.Closers; i++ {
		rc.spin(kindCloser, "Close", func() {
			a.Close()
			if mine.get() != 1 { // Close returned => released, for every caller
				rc.fail("C16/adapter/close-returned-before-cleanup-finished/"+name,
					fmt.Sprintf("a %s adapter Close call returned with the registered cleanup handler run %d times", name, mine.get()))
			}
		})
	}
	for _, p := range r.Paths {
		switch p {
		case "accept-loop", "accept-loop-2":
			// an accept loop that keeps calling Accept while it gets errors (BaseAdapter.acceptLoop
			// does so for timeouts): it is between two calls, or inside one, while Close tears the
			// listener down
			rc.spin(kindPath, "Accept", func() {
				for i := 0; i < 3000; i++ {
					c, err := a.Accept()
					if err == nil && nilConn(c) {
						rc.fail("C16/adapter/accept-returned-nil-conn-without-error/"+name,
							fmt.Sprintf("%s adapter: Accept racing Close returned (%T(nil), nil); BaseAdapter.acceptLoop hands such a value to handleConnection", name, c))
						return
					}
					if err == nil {
						c.Close()
					}
					// (no IsClosed() here: it waits for the dispose lock that Close holds)
					if err != nil {
						if m := err.Error(); strings.Contains(m, "not initialized") || strings.Contains(m, "adapter closed") || strings.Contains(m, "context cancel") {
							return // the adapter has finished closing
						}
					}
				}
			})
		case "accept-direct":
			// what BaseAdapter.acceptLoop does, from one more goroutine
			rc.spin(kindPath, "Accept", func() {
				c, err := a.Accept()
				if err == nil && nilConn(c) {
					rc.fail("C16/adapter/accept-returned-nil-conn-without-error/"+name,
						fmt.Sprintf("%s adapter: Accept racing Close returned (%T(nil), nil); BaseAdapter.acceptLoop hands such a value to handleConnection", name, c))
					return
				}
				if err == nil {
					c.Close()
				}
			})
		case "client-connects":
			if kind == 3 {
				continue // a half-open HTTP connection makes http.Server.Shutdown wait (by design, 5 s bound)
			}
			rc.spin(kindPath, p, func() {
				if udpBased(kind) {
					if c, err := net.Dial("udp", addr); err == nil {
						c.Write([]byte("c16 junk datagram"))
						c.Close()
					}
					return
				}
				if c, err := net.DialTimeout("tcp", addr, 200*time.Millisecond); err == nil {
					c.Close()
				}
			})
		case "parent-cancel":
			rc.spin(kindPath, p, cancel)
		}
	}
	rc.release()
	if !rc.mustReturn(o, base, name+" adapter Close / Accept") {
		return o
	}
	rc.measure(o)
	leaks := settle(adapterPrefixes, base, 2*time.Second)
	if n := mine.get(); n != 1 {
		o.failf("C16/adapter/cleanup-handler-ran-"+times(n)+"/"+name, "registered cleanup handler of the %s adapter ran %d times", name, n)
	}
	if n := faulty.get(); r.p("hfault") != 0 && n != 1 {
		o.failf("C16/adapter/failing-or-slow-cleanup-handler-ran-"+times(n)+"/"+name, "the cleanup handler registered before the counting one (fault mode %d) ran %d times", r.p("hfault"), n)
	}
	if !a.IsClosed() {
		o.failf("C16/adapter/not-closed/"+name, "IsClosed()==false after Close")
	}
	if !pollUntil(time.Second, func() bool { return portFree(addr, udpBased(kind)) }) {
		o.failf("C16/adapter/listener-left-open/"+name, "%s is still bound 1s after the %s adapter's Close returned", addr, name)
	}
	if leaks != nil {
		o.failf("C16/adapter/goroutine-leak/"+name+"/"+leakKeyPart(leaks[0]), "goroutines of the %s adapter remain 2s after Close returned: %s", name, leakMsg(leaks))
	}
	// later operations fail cleanly (and return)
	rc2 := newRace("adapter")
	rc2.bg("post-close-Accept", func() {
		if c, err := a.Accept(); err == nil {
			if nilConn(c) {
				rc2.fail("C16/adapter/accept-returned-nil-conn-without-error/"+name,
					fmt.Sprintf("%s adapter: Accept after Close returned (%T(nil), nil); BaseAdapter.acceptLoop hands such a value to handleConnection", name, c))
				return
			}
			rc2.fail("C16/adapter/op-after-close-succeeded/Accept/"+name, "Accept on a closed adapter returned a connection")
			c.Close()
		}
	})
	rc2.bg("post-close-Close", func() { a.Close() })
	if kind != 4 && kind != 3 { // (quic/websocket Dial to a closed port waits for its handshake timeout)
		rc2.bg("post-close-Dial", func() {
			if c, err := a.Dial(addr); err == nil && c != nil {
				c.Close()
			}
		})
	}
	if !rc2.mustReturn(o, base, name+" adapter Accept/Dial/Close after Close") {
		return o
	}
	o.fails = append(o.fails, rc2.failsSnapshot()...)
	cancel()
	if l := settle(adapterPrefixes, base, 2*time.Second); l != nil && leaks == nil {
		o.failf("C16/adapter/goroutine-leak-after-late-operations/"+name+"/"+leakKeyPart(l[0]), "goroutines remain after operations on the closed %s adapter: %s", name, leakMsg(l))
	}
	return o
}

var compAdapter = register(&component{name: "adapter", quick: 1600, thorough: 40000, gen: genAdapter, run: runAdapter})

func TestAdapter(t *testing.T) { compAdapter.test(t) }
