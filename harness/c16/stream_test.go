package c16

import (
	"context"
	"fmt"
	"io"
	"sync"
	"sync/atomic"
	"testing"
	"time"

	"pgregory.net/rapid"

	"tunnox-core/internal/packet"
	"tunnox-core/internal/stream"
	"tunnox-core/verif/vkit"
)

// stream.StreamProcessor: Close x N vs ReadPacket / WritePacket in flight (blocked inside the
// transport or between two transport calls of one packet).

var streamPrefixes = []string{"tunnox-core/internal/stream.", "tunnox-core/internal/stream/", "tunnox-core/internal/utils."}

// cReader is the read half handed to the processor: a BufConn end with a counting Close.
type cReader struct {
	c      *vkit.BufConn
	closes counter
	slowNS int64
	fail   bool // Close releases the transport but reports an error
}

func (r *cReader) Read(p []byte) (int, error) { return r.c.Read(p) }
func (r *cReader) Close() error {
	r.closes.hit()
	for t := nowNS(); nowNS()-t < r.slowNS; { // a transport whose Close takes a moment
	}
	r.c.Close()
	if r.fail {
		return errInjected
	}
	return nil
}

// gWriter is the write half: Write call number blockAt (1-based) of the whole life of the
// writer parks until the gate opens or the writer is closed (as a socket write would).
type gWriter struct {
	c       *vkit.BufConn
	closes  counter
	blockAt int32
	calls   atomic.Int32
	parked  atomic.Int32
	gate    chan struct{}
	closed  chan struct{}
	once    sync.Once
	fail    bool // Close releases the transport but reports an error
}

func (w *gWriter) Write(p []byte) (int, error) {
	n := w.calls.Add(1)
	if w.blockAt > 0 && n == w.blockAt {
		w.parked.Add(1)
		select {
		case <-w.gate:
		case <-w.closed:
			return 0, io.ErrClosedPipe
		}
	}
	return w.c.Write(p)
}

func (w *gWriter) Close() error {
	w.closes.hit()
	w.once.Do(func() { close(w.closed) })
	w.c.Close()
	if w.fail {
		return errInjected
	}
	return nil
}

var streamPaths = []string{"feed-partial", "feed-full", "peer-eof", "writer-unblock", "parent-cancel", "write-racing", "read-racing"}

func genStream(t *rapid.T) Round {
	r := Round{Comp: "stream", P: map[string]int{}}
	r.Closers = rapid.SampledFrom([]int{2, 2, 2, 3, 3, 4, 5, 6, 8}).Draw(t, "closers")
	r.Paths = drawPaths(t, streamPaths, 3)
	r.P["hfault"] = rapid.IntRange(0, 3).Draw(t, "hfault") // bit 1: an earlier cleanup handler fails, bit 2: it is slow
	r.P["readers"] = rapid.IntRange(0, 2).Draw(t, "readers")
	r.P["writer"] = rapid.IntRange(0, 1).Draw(t, "writer")   // a WritePacket parked inside the transport before the race
	r.P["blockAt"] = rapid.IntRange(1, 3).Draw(t, "blockAt") // which transport write of the packet parks (type, size, body)
	r.P["slowClose"] = rapid.IntRange(0, 1).Draw(t, "slowClose")
	r.P["closeErr"] = rapid.SampledFrom([]int{0, 0, 1, 2, 3}).Draw(t, "closeErr") // bit 1: writer.Close fails, bit 2: reader.Close fails
	r.P["cut"] = rapid.IntRange(1, 7).Draw(t, "cut")                              // feed-partial: bytes of the 9-byte packet delivered at the barrier
	r.P["variant"] = rapid.IntRange(0, 1).Draw(t, "compress")                     // WritePacket with compression
	return r
}

// drawPaths draws a subset of at most max completion paths, uniformly over the names.
func drawPaths(t *rapid.T, names []string, max int) []string {
	k := rapid.IntRange(0, max).Draw(t, "npaths")
	perm := rapid.Permutation(names).Draw(t, "pathperm")
	out := append([]string(nil), perm[:k]...)
	return out
}

func runStream(r Round) *outcome {
	o := &outcome{}
	base := snapshot(streamPrefixes)
	parent, cancel := context.WithCancel(context.Background())
	defer cancel()
	feed, rd := vkit.NewBufConnPair("10.1.0.1:1", "10.1.0.2:2")
	sink, wr := vkit.NewBufConnPair("10.1.0.3:3", "10.1.0.4:4")
	defer func() { feed.Close(); sink.Close(); rd.Close(); wr.Close() }()
	reader := &cReader{c: rd, slowNS: int64(r.p("slowClose")) * 20000}
	writer := &gWriter{c: wr, gate: make(chan struct{}), closed: make(chan struct{})}
	if r.p("writer") == 1 {
		writer.blockAt = int32(r.p("blockAt"))
	}
	writer.fail = r.p("closeErr")&1 != 0
	reader.fail = r.p("closeErr")&2 != 0
	sp := stream.NewStreamProcessor(reader, writer, parent)
	var mine, faulty counter
	if m := r.p("hfault"); m != 0 {
		sp.AddCleanHandler(faultyHandler(m, &faulty))
	}
	sp.AddCleanHandler(func() error { mine.hit(); return nil })

	pkt := func() *packet.TransferPacket {
		return &packet.TransferPacket{PacketType: packet.TunnelOpen, Payload: []byte("abcd")}
	}
	wire := []byte{byte(packet.TunnelOpen), 0, 0, 0, 4, 'a', 'b', 'c', 'd'}
	compress := r.p("variant") == 1

	rc := newRace("stream")
	var readErrs, readOK, bgDone atomic.Int32
	for i := 0; i < r.p("readers"); i++ {
		rc.bg("ReadPacket", func() {
			defer bgDone.Add(1)
			for k := 0; k < 4; k++ {
				p, _, err := sp.ReadPacket()
				if err != nil {
					readErrs.Add(1)
					return
				}
				if p == nil {
					rc.fail("C16/stream/ReadPacket-nil-without-error", "ReadPacket returned (nil, nil)")
					return
				}
				readOK.Add(1)
			}
		})
	}
	if r.p("writer") == 1 {
		rc.bg("WritePacket", func() {
			defer bgDone.Add(1)
			sp.WritePacket(pkt(), compress, 0)
		})
		if !pollUntil(2*time.Second, func() bool { return writer.parked.Load() == 1 }) {
			o.skipped = true
			close(writer.gate)
			feed.Close()
			sp.Close()
			rc.wait(5 * time.Second)
			settle(streamPrefixes, base, 2*time.Second)
			return o
		}
	}
	// readers are parked inside the transport read (nothing to read yet) - give them a moment
	if r.p("readers") > 0 {
		time.Sleep(20 * time.Microsecond)
	}

	for i := 0; i < r.Closers; i++ {
		i := i
		rc.spin(kindCloser, "Close", func() {
			if i%3 == 2 {
				if res := sp.CloseWithResult(); res.HasErrors() != (r.p("closeErr") != 0 || r.p("hfault")&1 != 0) {
					rc.fail("C16/stream/close-result-misreports-cleanup-errors",
						fmt.Sprintf("CloseWithResult().HasErrors()=%v with injected close errors mode %d, failing handler mode %d", res.HasErrors(), r.p("closeErr"), r.p("hfault")))
				}
			} else {
				sp.Close()
			}
			// Close returned => released, for every caller
			if mine.get() != 1 || reader.closes.get() < 1 || writer.closes.get() < 1 || !rd.IsClosed() || !wr.IsClosed() {
				rc.fail("C16/stream/close-returned-before-cleanup-finished",
					fmt.Sprintf("a Close call (closer %d of %d) returned with cleanup handler run=%d, reader closed=%v, writer closed=%v", i, r.Closers, mine.get(), rd.IsClosed(), wr.IsClosed()))
			}
		})
	}
	var gateOnce sync.Once
	openGate := func() { gateOnce.Do(func() { close(writer.gate) }) }
	for _, p := range r.Paths {
		switch p {
		case "feed-partial":
			rc.spin(kindPath, p, func() { feed.Write(wire[:r.p("cut")]) })
		case "feed-full":
			rc.spin(kindPath, p, func() { feed.Write(wire) })
		case "peer-eof":
			rc.spin(kindPath, p, func() { feed.Close() })
		case "writer-unblock":
			rc.spin(kindPath, p, openGate)
		case "parent-cancel":
			rc.spin(kindPath, p, cancel)
		case "write-racing":
			rc.spin(kindPath, "WritePacket", func() { sp.WritePacket(pkt(), compress, 0) })
		case "read-racing":
			rc.spin(kindPath, "ReadExact", func() { sp.ReadExact(2) })
		}
	}
	rc.release()
	// closers return on their own
	pollUntil(10*time.Second, func() bool {
		rc.mu.Lock()
		defer rc.mu.Unlock()
		return len(rc.closers) == r.Closers
	})
	// Close closes the processor's own reader and writer, so operations that were blocked inside
	// them are released by Close itself - before the far ends go away - even when closing one of
	// the two reported an error
	rc.mu.Lock()
	closersBack := len(rc.closers) == r.Closers
	rc.mu.Unlock()
	if want := int32(r.p("readers") + r.p("writer")); closersBack && want > 0 {
		if !pollUntilBlocked(3*time.Second, 20*time.Second, func() bool { return bgDone.Load() >= want }) {
			o.failf("C16/stream/blocked-operation-not-released-by-close",
				"%d of %d ReadPacket/WritePacket calls that were in flight are still blocked after Close returned (reader closed %d times, writer closed %d times, injected close errors mode %d)",
				want-bgDone.Load(), want, reader.closes.get(), writer.closes.get(), r.p("closeErr"))
		}
	}
	feed.Close()
	sink.Close()
	openGate()
	if !rc.mustReturn(o, base, "Close or an in-flight Read/WritePacket (both transports already closed)") {
		return o
	}
	rc.measure(o)
	leaks := settle(streamPrefixes, base, 2*time.Second)

	if n := mine.get(); n != 1 {
		o.failf("C16/stream/cleanup-handler-ran-"+times(n), "registered cleanup handler ran %d times", n)
	}
	if n := faulty.get(); r.p("hfault") != 0 && n != 1 {
		o.failf("C16/stream/failing-or-slow-cleanup-handler-ran-"+times(n), "the cleanup handler registered before the counting one (fault mode %d) ran %d times", r.p("hfault"), n)
	}
	if n := reader.closes.get(); n != 1 {
		o.failf("C16/stream/reader-closed-"+times(n), "the processor closed its reader %d times", n)
	}
	if n := writer.closes.get(); n != 1 {
		o.failf("C16/stream/writer-closed-"+times(n), "the processor closed its writer %d times", n)
	}
	// later operations fail cleanly
	rc2 := newRace("stream")
	post := func(name string, fn func() error) {
		rc2.guard("post-close-"+name, func() {
			if err := fn(); err == nil {
				rc2.fail("C16/stream/op-after-close-succeeded/"+name, name+" returned nil error on a closed processor")
			}
		})
	}
	post("ReadPacket", func() error { _, _, err := sp.ReadPacket(); return err })
	post("WritePacket", func() error { _, err := sp.WritePacket(pkt(), false, 0); return err })
	post("ReadExact", func() error { _, err := sp.ReadExact(1); return err })
	post("WriteExact", func() error { return sp.WriteExact([]byte{1}) })
	rc2.guard("post-close-Close", func() { sp.Close() })
	o.fails = append(o.fails, rc2.fails...)
	if leaks != nil {
		o.failf("C16/stream/goroutine-leak/"+leakKeyPart(leaks[0]), "goroutines remain after Close: %s", leakMsg(leaks))
	}
	if readOK.Load() > 0 {
		o.extraClass = append(o.extraClass, "packet-read-during-close")
	}
	_ = fmt.Sprint
	return o
}

var compStream = register(&component{name: "stream", quick: 2400, thorough: 60000, gen: genStream, run: runStream})

func TestStream(t *testing.T) { compStream.test(t) }
