package c16

import (
	"net/http"
	"net/http/httptest"
	"strings"
	"sync/atomic"
	"testing"
	"time"

	"github.com/gorilla/websocket"
	"pgregory.net/rapid"

	"tunnox-core/internal/client/transport"
)

// client transport.WebSocketStreamConn (what a client tunnel uses as TunnelConn over the
// websocket transport) against a real loopback websocket server: Close x N while a Write is
// stalled against a peer that has stopped reading (socket buffers and flow-control window
// full), while a Read is blocked, or on an idle connection. Oracle: every Close returns within
// the bound, the blocked Write/Read are released, nothing of the transport remains.

var wsPrefixes = []string{"tunnox-core/internal/client/transport."}

func genWSTransport(t *rapid.T) Round {
	r := Round{Comp: "ws-transport", P: map[string]int{}}
	r.Closers = rapid.SampledFrom([]int{2, 2, 3, 4}).Draw(t, "closers")
	r.P["variant"] = rapid.SampledFrom([]int{1, 1, 1, 0}).Draw(t, "stalledWrite") // 1: a Write is stalled against a non-draining peer
	if rapid.Bool().Draw(t, "reader") {
		r.Paths = append(r.Paths, "read-in-flight")
	}
	if r.P["variant"] == 1 {
		r.Paths = append(r.Paths, "write-stalled")
	}
	return r
}

func runWSTransport(r Round) *outcome {
	o := &outcome{}
	base := snapshot(wsPrefixes)
	release := make(chan struct{})
	up := websocket.Upgrader{CheckOrigin: func(*http.Request) bool { return true }}
	srv := httptest.NewServer(http.HandlerFunc(func(w http.ResponseWriter, req *http.Request) {
		c, err := up.Upgrade(w, req, nil)
		if err != nil {
			return
		}
		<-release // a stalled peer: never reads
		c.Close()
	}))
	defer srv.Close()
	released := false
	free := func() {
		if !released {
			released = true
			close(release)
		}
	}
	defer free()
	wsc, err := transport.NewWebSocketStreamConn("ws" + strings.TrimPrefix(srv.URL, "http") + "/_tunnox")
	if err != nil {
		o.skipped = true
		return o
	}
	defer func() {
		if !roundAborted {
			wsc.Close()
		}
	}()
	rc := newRace("ws-transport")
	var written atomic.Int64
	var bgDone atomic.Int32
	want := int32(0)
	if r.p("variant") == 1 {
		want++
		rc.bg("Write", func() {
			defer bgDone.Add(1)
			buf := make([]byte, 64*1024)
			for i := 0; i < 4096; i++ {
				n, err := wsc.Write(buf)
				written.Add(int64(n))
				if err != nil {
					return
				}
			}
		})
		// stalled = no progress for 30 ms with at least 256 KiB queued
		last, since := int64(-1), time.Now()
		stalled := pollUntil(5*time.Second, func() bool {
			if w := written.Load(); w != last {
				last, since = w, time.Now()
				return false
			}
			return last >= 256*1024 && time.Since(since) > 30*time.Millisecond
		})
		if !stalled {
			o.skipped = true
			free()
			wsc.Close()
			rc.wait(5 * time.Second)
			settle(wsPrefixes, base, 2*time.Second)
			return o
		}
		o.extraClass = append(o.extraClass, "write-stalled-against-non-draining-peer")
	}
	if r.has("read-in-flight") {
		want++
		rc.bg("Read", func() {
			defer bgDone.Add(1)
			wsc.Read(make([]byte, 1024))
		})
		time.Sleep(200 * time.Microsecond)
	}
	for i := 0; i < r.Closers; i++ {
		rc.spin(kindCloser, "Close", func() { wsc.Close() })
	}
	rc.release()
	if !rc.mustReturn(o, base, "WebSocketStreamConn.Close (and the Write/Read it must release)") {
		return o
	}
	rc.measure(o)
	o.pathInside = len(r.Paths) > 0 // the stalled Write / blocked Read are in flight during every Close
	if bgDone.Load() != want {
		o.failf("C16/ws-transport/blocked-operation-not-released-by-close", "%d of %d in-flight Write/Read calls still blocked after Close returned", want-bgDone.Load(), want)
	}
	free()
	if l := settle(wsPrefixes, base, 2*time.Second); l != nil {
		o.failf("C16/ws-transport/goroutine-leak/"+leakKeyPart(l[0]), "goroutines remain after Close: %s", leakMsg(l))
	}
	rc2 := newRace("ws-transport")
	rc2.guard("post-close", func() {
		wsc.Close()
		if _, err := wsc.Write([]byte("x")); err == nil {
			rc2.fail("C16/ws-transport/op-after-close-succeeded/Write", "Write on a closed websocket transport returned nil error")
		}
	})
	o.fails = append(o.fails, rc2.fails...)
	return o
}

var compWSTransport = register(&component{name: "ws-transport", quick: 24, thorough: 400, gen: genWSTransport, run: runWSTransport})

func TestWSTransport(t *testing.T) { compWSTransport.test(t) }
