package c16

import (
	"context"
	"fmt"
	"io"
	"runtime"
	"runtime/debug"
	"sync/atomic"
	"testing"

	"pgregory.net/rapid"

	"tunnox-core/internal/packet"
	"tunnox-core/internal/stream"
)

// stream.StreamProcessor, Close against the FIRST use of a buffer size class by an in-flight
// read. Every processor owns a fresh buffer pool whose per-size-class pools are created lazily,
// so the first read of each 4 KiB class takes the pool's slow path; Close tears the pool down
// concurrently. The windows are a few instructions wide, so this component runs batches of
// several thousand light-weight trials (a fresh processor per trial, two persistent worker
// goroutines released by spin flags, the reader's start swept against the closer's in ~25 ns
// steps) instead of full contention rounds. Oracle: no panic - the read fails cleanly or
// succeeds.
//
//   kind 0  ReadPacket in flight: the type byte has been read (the processor was open when the
//           call began), the reader is parked inside the transport in front of the length
//           field; when released it reads a body length that needs a new size class
//   kind 1  ReadExact(n) of a new size class starting together with Close
//   kind 2  ReadAvailable(n) of a new size class starting together with Close

// gateReader serves a prepared byte string; the read that would deliver offset gateAt first
// spins until released (no scheduler involved: the reader is running when it is let go).
type gateReader struct {
	data   []byte
	pos    int
	gateAt int
	atGate atomic.Bool
	open   atomic.Bool
	delay  int // busy iterations after the release
}

func (g *gateReader) Read(p []byte) (int, error) {
	if g.pos >= len(g.data) {
		return 0, io.EOF
	}
	if g.pos == g.gateAt {
		g.atGate.Store(true)
		for !g.open.Load() {
		}
		spinFor(g.delay)
	}
	end := len(g.data)
	if g.pos < g.gateAt && end > g.gateAt {
		end = g.gateAt
	}
	n := copy(p, g.data[g.pos:end])
	g.pos += n
	return n, nil
}

var spinSink atomic.Uint64

// spinFor burns roughly n*1..2 ns without touching shared cache lines.
func spinFor(n int) {
	x := uint64(n)
	for i := 0; i < n; i++ {
		x = x*6364136223846793005 + 1442695040888963407
	}
	if x == 42 {
		spinSink.Add(1)
	}
}

type faTrial struct {
	sp     *stream.StreamProcessor
	rd     *gateReader
	kind   int
	size   int
	delayR int // reader's extra delay (kind 1, 2)
	delayC int // closer's delay
}

type faWorkers struct {
	seq     atomic.Uint64
	cur     atomic.Pointer[faTrial]
	doneR   atomic.Uint64
	doneC   atomic.Uint64
	quit    atomic.Bool
	panics  atomic.Int32
	panicAt atomic.Pointer[string]
}

func (w *faWorkers) reader() {
	last := uint64(0)
	for {
		s := w.seq.Load()
		if s == last {
			if w.quit.Load() {
				return
			}
			continue
		}
		last = s
		t := w.cur.Load()
		func() {
			defer func() {
				if p := recover(); p != nil {
					w.panics.Add(1)
					msg := fmt.Sprintf("panic: %v\n%s", p, trimStack(string(debug.Stack())))
					w.panicAt.CompareAndSwap(nil, &msg)
				}
			}()
			switch t.kind {
			case 0:
				t.sp.ReadPacket()
			case 1:
				for !t.rd.open.Load() {
				}
				spinFor(t.delayR)
				t.sp.ReadExact(t.size)
			default:
				for !t.rd.open.Load() {
				}
				spinFor(t.delayR)
				t.sp.ReadAvailable(t.size)
			}
		}()
		w.doneR.Store(s)
	}
}

func (w *faWorkers) closer() {
	last := uint64(0)
	for {
		s := w.seq.Load()
		if s == last {
			if w.quit.Load() {
				return
			}
			continue
		}
		last = s
		t := w.cur.Load()
		if t.kind == 0 {
			// wait until the reader sits in front of the length field (or has already returned)
			for !t.rd.atGate.Load() && w.doneR.Load() != s {
			}
		}
		t.rd.open.Store(true)
		spinFor(t.delayC)
		func() {
			defer func() {
				if p := recover(); p != nil {
					w.panics.Add(1)
					msg := fmt.Sprintf("panic in Close: %v\n%s", p, trimStack(string(debug.Stack())))
					w.panicAt.CompareAndSwap(nil, &msg)
				}
			}()
			t.sp.Close()
		}()
		w.doneC.Store(s)
	}
}

func genFirstAlloc(t *rapid.T) Round {
	r := Round{Comp: "stream-first-alloc", Closers: 1, Paths: []string{"first-use-of-size-class"}, P: map[string]int{}}
	r.P["variant"] = rapid.SampledFrom([]int{0, 0, 0, 1, 2}).Draw(t, "kind")
	r.P["size"] = rapid.SampledFrom([]int{5000, 9000, 20000, 70000}).Draw(t, "size")
	r.P["trials"] = 4000
	r.P["step"] = rapid.SampledFrom([]int{8, 16, 32}).Draw(t, "step") // delay sweep step (busy iterations)
	return r
}

func runFirstAlloc(r Round) *outcome {
	o := &outcome{}
	kind, size, step := r.p("variant"), r.p("size"), r.p("step")
	ctx, cancel := context.WithCancel(context.Background())
	defer cancel()
	w := &faWorkers{}
	go w.reader()
	go w.closer()
	defer w.quit.Store(true)
	wire := make([]byte, 5+size)
	wire[0] = byte(packet.TunnelOpen)
	wire[1], wire[2], wire[3], wire[4] = byte(size>>24), byte(size>>16), byte(size>>8), byte(size)
	trials := r.p("trials")
	done := 0
	for i := 0; i < trials; i++ {
		rd := &gateReader{data: wire, gateAt: 1}
		if kind != 0 {
			rd.gateAt = -1
		}
		sweep := (i % 96) * step
		t := &faTrial{kind: kind, size: size, rd: rd}
		switch {
		case kind == 0:
			rd.delay = sweep // the reader reaches the new size class `sweep` after Close began
		case i%2 == 0:
			t.delayC = sweep / 4 // Close begins shortly after the read (the read has passed its closed-check)
		default:
			t.delayR = sweep / 4
		}
		t.sp = stream.NewStreamProcessor(rd, io.Discard, ctx)
		w.cur.Store(t)
		s := w.seq.Add(1)
		for n := 0; w.doneR.Load() != s || w.doneC.Load() != s; n++ {
			if n&1023 == 1023 {
				runtime.Gosched()
			}
		}
		done++
		if w.panics.Load() > 0 {
			break
		}
	}
	o.add("close_vs_first_allocation_trials", int64(done))
	o.extraClass = append(o.extraClass, fmt.Sprintf("kind=%d", kind))
	if p := w.panicAt.Load(); p != nil {
		op := []string{"ReadPacket", "ReadExact", "ReadAvailable"}[kind]
		o.failf(fmt.Sprintf("C16/stream/panic/%s-first-use-of-size-class-during-close/%s", op, topRepoFrame(*p)),
			"trial %d of a batch (fresh processor per trial, %s needing a %d-byte buffer of a size class this processor has not used yet, Close concurrently): %s", done, op, size, *p)
	}
	return o
}

var compFirstAlloc = register(&component{name: "stream-first-alloc", quick: 160, thorough: 4000, gen: genFirstAlloc, run: runFirstAlloc})

func TestStreamFirstAlloc(t *testing.T) { compFirstAlloc.test(t) }
