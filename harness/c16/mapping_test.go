package c16

import (
	"context"
	"errors"
	"fmt"
	"io"
	"net"
	"sync"
	"sync/atomic"
	"testing"
	"time"

	"pgregory.net/rapid"

	"tunnox-core/internal/client/mapping"
	"tunnox-core/internal/cloud/models"
	"tunnox-core/internal/config"
	"tunnox-core/internal/stream"
	"tunnox-core/verif/vkit"
)

// client mapping.BaseMappingHandler (the owner of the client tunnels): Close/Stop x N vs a
// connection being accepted and its tunnel dialled vs tunnels finishing vs peer notifications
// vs the client context being cancelled. The protocol adapter and the client are doubles.

var mappingPrefixes = []string{"tunnox-core/internal/client/mapping.", "tunnox-core/internal/client/tunnel.", "tunnox-core/internal/utils/iocopy."}

type timeoutErr struct{}

func (timeoutErr) Error() string   { return "accept timeout" }
func (timeoutErr) Timeout() bool   { return true }
func (timeoutErr) Temporary() bool { return true }

// adapterDouble hands out connections pushed by the harness; Accept times out every 200us like
// the real adapters' SetDeadline-based accept.
type adapterDouble struct {
	ch     chan io.ReadWriteCloser
	closed chan struct{}
	closes counter
	once   sync.Once
	fail   bool // Close releases the listener but reports an error
}

func (a *adapterDouble) StartListener(config.MappingConfig) error { return nil }
func (a *adapterDouble) Accept() (io.ReadWriteCloser, error) {
	select {
	case c := <-a.ch:
		return c, nil
	case <-a.closed:
		return nil, errors.New("use of closed network connection")
	case <-time.After(200 * time.Microsecond):
		return nil, timeoutErr{}
	}
}
func (a *adapterDouble) PrepareConnection(io.ReadWriteCloser) error { return nil }
func (a *adapterDouble) GetProtocol() string                        { return "tcp" }
func (a *adapterDouble) Close() error {
	a.closes.hit()
	a.once.Do(func() { close(a.closed) })
	if a.fail {
		return errInjected
	}
	return nil
}

type dialled struct {
	peer, conn *vkit.BufConn
}

// mapClient is the ClientInterface double: every DialTunnel creates a fresh in-memory tunnel.
type mapClient struct {
	ctx       context.Context
	mu        sync.Mutex
	tunnels   []dialled
	peersGone bool
	sent      atomic.Int64
	recv      atomic.Int64
	notifies  atomic.Int32
	dials     atomic.Int32
	tracks    atomic.Int32
	// optional: the first TrackTraffic call parks on trackGate (trackEntered is closed when it is inside)
	trackGate    chan struct{}
	trackEntered chan struct{}
	trackSlow    bool
}

func (c *mapClient) DialTunnel(tunnelID, mappingID, secretKey string) (net.Conn, stream.PackageStreamer, error) {
	peer, conn := vkit.NewBufConnPair("10.4.0.9:7000", "10.0.0.1:8000")
	c.mu.Lock()
	c.tunnels = append(c.tunnels, dialled{peer, conn})
	gone := c.peersGone
	c.mu.Unlock()
	if gone { // the harness has already unblocked all pending I/O: a tunnel dialled now finds its peer gone
		peer.Close()
	}
	c.dials.Add(1)
	return conn, stream.NewStreamProcessor(conn, conn, c.ctx), nil
}
func (c *mapClient) DialTunnelPooled(string, string) (mapping.PooledTunnelConnInterface, error) {
	return nil, nil
}
func (c *mapClient) ReturnTunnelToPool(mapping.PooledTunnelConnInterface)  {}
func (c *mapClient) CloseTunnelFromPool(mapping.PooledTunnelConnInterface) {}
func (c *mapClient) IsTunnelPoolEnabled() bool                             { return false }
func (c *mapClient) GetContext() context.Context                           { return c.ctx }
func (c *mapClient) CheckMappingQuota(string) error                        { return nil }
func (c *mapClient) TrackTraffic(_ string, s, r int64) error {
	c.sent.Add(s)
	c.recv.Add(r)
	if c.tracks.Add(1) == 1 && c.trackGate != nil {
		// a stalled control connection: the first report stays in flight until released
		close(c.trackEntered)
		<-c.trackGate
	}
	if c.trackSlow {
		for t := nowNS(); nowNS()-t < 30000; {
		}
	}
	return nil
}
func (c *mapClient) GetUserQuota() (*models.UserQuota, error) {
	return &models.UserQuota{MaxConnections: 100}, nil
}
func (c *mapClient) GetServerProtocol() string { return "tcp" }
func (c *mapClient) SendTunnelCloseNotify(int64, string, string, string) error {
	c.notifies.Add(1)
	return nil
}

var mappingPaths = []string{"local-eof", "tunnel-eof", "new-connection", "parent-cancel", "peer-notify", "stop"}

func genMapping(t *rapid.T) Round {
	r := Round{Comp: "mapping-handler", P: map[string]int{}}
	r.Closers = rapid.SampledFrom([]int{2, 2, 2, 3, 3, 4, 5, 6, 8}).Draw(t, "closers")
	r.Paths = drawPaths(t, mappingPaths, 3)
	r.P["hfault"] = rapid.IntRange(0, 3).Draw(t, "hfault") // bit 1: an earlier cleanup handler fails, bit 2: it is slow
	r.P["conns"] = rapid.IntRange(0, 3).Draw(t, "conns")
	r.P["bytes"] = rapid.SampledFrom([]int{0, 1, 600}).Draw(t, "bytes")
	r.P["variant"] = 0
	r.P["adapterErr"] = rapid.IntRange(0, 1).Draw(t, "adapterErr") // the adapter's Close reports an error
	r.P["slowTrack"] = rapid.IntRange(0, 1).Draw(t, "slowTrack")   // TrackTraffic takes ~30us
	return r
}

func runMapping(r Round) *outcome {
	o := &outcome{}
	base := snapshot(mappingPrefixes)
	parent, cancel := context.WithCancel(context.Background())
	defer cancel()
	cl := &mapClient{ctx: parent, trackSlow: r.p("slowTrack") == 1}
	ad := &adapterDouble{ch: make(chan io.ReadWriteCloser, 8), closed: make(chan struct{}), fail: r.p("adapterErr") == 1}
	cfg := config.MappingConfig{MappingID: "m-c16", SecretKey: "k", Protocol: "tcp", LocalPort: 18080, TargetClientID: 42, MaxConnections: 100}
	h := mapping.NewBaseMappingHandler(cl, cfg, ad)
	defer func() {
		if !roundAborted {
			h.Close()
		}
	}()
	var mine, faulty counter
	if m := r.p("hfault"); m != 0 {
		h.AddCleanHandler(faultyHandler(m, &faulty))
	}
	h.AddCleanHandler(func() error { mine.hit(); return nil })
	if err := h.Start(); err != nil {
		o.skipped = true
		return o
	}
	var apps, locals []*vkit.BufConn
	defer func() {
		for _, a := range apps {
			a.Close()
		}
		cl.mu.Lock()
		for _, d := range cl.tunnels {
			d.peer.Close()
		}
		cl.mu.Unlock()
	}()
	push := func() {
		app, local := vkit.NewBufConnPair(fmt.Sprintf("127.0.0.1:%d", 41000+len(apps)), "127.0.0.1:18080")
		apps = append(apps, app)
		locals = append(locals, local)
		ad.ch <- local
	}
	nconn := r.p("conns")
	for i := 0; i < nconn; i++ {
		push()
	}
	tm := h.GetTunnelManager()
	if !pollUntil(2*time.Second, func() bool { return tm.CountTunnels() == nconn }) {
		o.skipped = true
		return o
	}
	nb := r.p("bytes")
	if nb > 0 && nconn > 0 {
		buf := make([]byte, nb)
		for _, a := range apps {
			a.Write(buf)
		}
		cl.mu.Lock()
		ts := append([]dialled(nil), cl.tunnels...)
		cl.mu.Unlock()
		for _, d := range ts {
			d.peer.Write(buf[:nb/2+1])
		}
		ok := pollUntil(2*time.Second, func() bool {
			for _, d := range ts {
				if d.peer.Pending() < nb {
					return false
				}
			}
			for _, a := range apps {
				if a.Pending() < nb/2+1 {
					return false
				}
			}
			return true
		})
		if !ok {
			o.skipped = true
			return o
		}
	}
	var firstID string
	if l := tm.ListTunnels(); len(l) > 0 {
		firstID = l[0].GetID()
	}

	rc := newRace("mapping-handler")
	for i := 0; i < r.Closers; i++ {
		i := i
		rc.spin(kindCloser, "Close", func() {
			if i%2 == 1 {
				h.Stop()
			} else {
				h.Close()
			}
			if mine.get() != 1 || ad.closes.get() < 1 { // Close returned => released, for every caller
				rc.fail("C16/mapping-handler/close-returned-before-cleanup-finished",
					fmt.Sprintf("a Close/Stop call returned with cleanup handler run=%d, adapter closed %d times", mine.get(), ad.closes.get()))
			}
		})
	}
	for _, p := range r.Paths {
		switch p {
		case "local-eof":
			if nconn > 0 {
				rc.spin(kindPath, p, func() { apps[0].Close() })
			}
		case "tunnel-eof":
			if nconn > 0 {
				rc.spin(kindPath, p, func() {
					cl.mu.Lock()
					d := cl.tunnels[0]
					cl.mu.Unlock()
					d.peer.Close()
				})
			}
		case "new-connection":
			app, local := vkit.NewBufConnPair("127.0.0.1:41999", "127.0.0.1:18080")
			apps = append(apps, app)
			locals = append(locals, local)
			rc.spin(kindPath, p, func() {
				select {
				case ad.ch <- local:
				default:
				}
			})
		case "parent-cancel":
			rc.spin(kindPath, p, cancel)
		case "peer-notify":
			if firstID != "" {
				rc.spin(kindPath, p, func() { tm.OnTunnelClosed(firstID, "m-c16", "peer_closed", 0, 0, 0) })
			}
		case "stop":
			rc.spin(kindPath, p, func() { tm.CloseAll() })
		}
	}
	rc.release()
	if !rc.mustReturn(o, base, "BaseMappingHandler.Close/Stop") {
		return o
	}
	rc.measure(o)
	// unblock pending I/O
	for _, a := range apps {
		a.Close()
	}
	cl.mu.Lock()
	cl.peersGone = true
	ts := append([]dialled(nil), cl.tunnels...)
	cl.mu.Unlock()
	for _, d := range ts {
		d.peer.Close()
	}
	leaks := settle(mappingPrefixes, base, 2*time.Second)

	if n := mine.get(); n != 1 {
		o.failf("C16/mapping-handler/cleanup-handler-ran-"+times(n), "registered cleanup handler ran %d times", n)
	}
	if n := faulty.get(); r.p("hfault") != 0 && n != 1 {
		o.failf("C16/mapping-handler/failing-or-slow-cleanup-handler-ran-"+times(n), "the cleanup handler registered before the counting one (fault mode %d) ran %d times", r.p("hfault"), n)
	}
	if n := ad.closes.get(); n != 1 {
		o.failf("C16/mapping-handler/adapter-closed-"+times(n), "the handler closed its protocol adapter %d times", n)
	}
	if n := tm.CountTunnels(); n != 0 {
		o.failf("C16/mapping-handler/tunnels-still-registered", "%d tunnels still registered after Close", n)
	}
	for i := 0; i < nconn; i++ {
		if !locals[i].IsClosed() {
			o.failf("C16/mapping-handler/local-conn-left-open", "local connection %d (accepted before Close) still open after Close", i)
			break
		}
	}
	for i, d := range ts {
		if i < nconn && !d.conn.IsClosed() {
			o.failf("C16/mapping-handler/tunnel-conn-left-open", "tunnel connection %d (dialled before Close) still open after Close", i)
			break
		}
	}
	if leaks != nil {
		o.failf("C16/mapping-handler/goroutine-leak/"+leakKeyPart(leaks[0]), "goroutines remain 2s after Close returned and all far ends were closed: %s", leakMsg(leaks))
	}
	// traffic totals of the tunnels that existed before Close: reported once through TrackTraffic
	var wantSent, wantRecv int64
	for i := 0; i < nconn && i < len(ts); i++ {
		wantSent += ts[i].conn.BytesWritten()
		wantRecv += locals[i].BytesWritten()
	}
	gotSent, gotRecv := cl.sent.Load(), cl.recv.Load()
	switch {
	case gotSent > wantSent || gotRecv > wantRecv:
		o.failf("C16/mapping-handler/traffic-reported-twice", "TrackTraffic total %d/%d, tunnels copied %d/%d", gotSent, gotRecv, wantSent, wantRecv)
	case gotSent < wantSent || gotRecv < wantRecv:
		if r.has("local-eof") || r.has("tunnel-eof") || r.has("peer-notify") || r.has("stop") {
			// a tunnel was being closed by someone else while the handler closed: CloseAll's Close
			// call loses the state CAS and returns before the winner has invoked OnClosed
			o.failf("C16/mapping-handler/traffic-not-reported/tunnel-closing-concurrently-with-handler-close",
				"TrackTraffic total %d/%d, tunnels copied %d/%d (paths %v): the handler's final report ran before the OnClosed callback of a tunnel whose Close was already in progress on another goroutine", gotSent, gotRecv, wantSent, wantRecv, r.Paths)
		} else {
			o.failf("C16/mapping-handler/traffic-not-reported/final-report-before-tunnels-closed",
				"TrackTraffic total %d/%d, tunnels copied %d/%d: the cleanup handler sends its last report before it closes the tunnel manager, and a tunnel closed from outside hands zero totals to OnClosed", gotSent, gotRecv, wantSent, wantRecv)
		}
	}
	rc2 := newRace("mapping-handler")
	rc2.guard("post-close", func() {
		h.Close()
		h.Stop()
		tm.CloseAll()
	})
	o.fails = append(o.fails, rc2.fails...)
	return o
}

var compMapping = register(&component{name: "mapping-handler", quick: 1200, thorough: 30000, gen: genMapping, run: runMapping})

func TestMappingHandler(t *testing.T) { compMapping.test(t) }
