package c16

import (
	"context"
	"fmt"
	"strings"
	"testing"
	"time"

	"pgregory.net/rapid"

	"tunnox-core/internal/core/storage/memory"
)

// memory.Storage: Close x N vs data operations vs the cleanup ticker vs StopCleanup / parent cancel.

var storagePrefixes = []string{"tunnox-core/internal/core/storage/memory."}

var storagePaths = []string{"ops-racing", "ops-racing-2", "stop-cleanup", "parent-cancel", "start-cleanup", "cleanup-expired"}

func genStorage(t *rapid.T) Round {
	r := Round{Comp: "memory-storage", P: map[string]int{}}
	r.Closers = rapid.SampledFrom([]int{2, 2, 2, 3, 3, 4, 5, 6, 8}).Draw(t, "closers")
	r.Paths = drawPaths(t, storagePaths, 3)
	r.P["hfault"] = rapid.IntRange(0, 3).Draw(t, "hfault")  // bit 1: an earlier cleanup handler fails, bit 2: it is slow
	r.P["variant"] = rapid.IntRange(0, 2).Draw(t, "ticker") // 0 no ticker, 1 ticker every 100us, 2 ticker every 1ms
	r.P["keys"] = rapid.IntRange(0, 20).Draw(t, "keys")
	r.P["opseed"] = rapid.IntRange(0, 1<<20).Draw(t, "opseed")
	return r
}

type storeOp struct {
	name string
	fn   func(st *memory.Storage, k string) error
}

var storeOps = []storeOp{
	{"Set", func(st *memory.Storage, k string) error { return st.Set(k, "v", time.Minute) }},
	{"Get", func(st *memory.Storage, k string) error { _, err := st.Get(k); return err }},
	{"Delete", func(st *memory.Storage, k string) error { return st.Delete(k) }},
	{"Exists", func(st *memory.Storage, k string) error { _, err := st.Exists(k); return err }},
	{"AppendToList", func(st *memory.Storage, k string) error { return st.AppendToList("l"+k, "x") }},
	{"RemoveFromList", func(st *memory.Storage, k string) error { return st.RemoveFromList("l"+k, "x") }},
	{"GetList", func(st *memory.Storage, k string) error { _, err := st.GetList("l" + k); return err }},
	{"SetHash", func(st *memory.Storage, k string) error { return st.SetHash("h"+k, "f", 1) }},
	{"GetHash", func(st *memory.Storage, k string) error { _, err := st.GetHash("h"+k, "f"); return err }},
	{"GetAllHash", func(st *memory.Storage, k string) error { _, err := st.GetAllHash("h" + k); return err }},
	{"DeleteHash", func(st *memory.Storage, k string) error { return st.DeleteHash("h"+k, "f") }},
	{"IncrBy", func(st *memory.Storage, k string) error { _, err := st.IncrBy("c"+k, 2); return err }},
	{"SetNX", func(st *memory.Storage, k string) error { _, err := st.SetNX("n"+k, 1, time.Minute); return err }},
	{"CompareAndSwap", func(st *memory.Storage, k string) error {
		_, err := st.CompareAndSwap("s"+k, nil, 1, time.Minute)
		return err
	}},
	{"SetExpiration", func(st *memory.Storage, k string) error { return st.SetExpiration(k, time.Minute) }},
	{"GetExpiration", func(st *memory.Storage, k string) error { _, err := st.GetExpiration(k); return err }},
	{"QueryByPrefix", func(st *memory.Storage, k string) error { _, err := st.QueryByPrefix("k", 5); return err }},
	{"ZAdd", func(st *memory.Storage, k string) error { return st.ZAdd("z"+k, "m", 1) }},
	{"ZRangeByScore", func(st *memory.Storage, k string) error { _, err := st.ZRangeByScore("z"+k, 0, 9); return err }},
	{"ZRem", func(st *memory.Storage, k string) error { return st.ZRem("z"+k, "m") }},
	{"ZCard", func(st *memory.Storage, k string) error { _, err := st.ZCard("z" + k); return err }},
	{"SetList", func(st *memory.Storage, k string) error { return st.SetList("l"+k, []any{"a"}, time.Minute) }},
}

// guardOp runs one store operation; a panic becomes a failure keyed by its cause.
func guardOp(rc *race, when string, op storeOp, st *memory.Storage, k string) {
	defer func() {
		if p := recover(); p != nil {
			msg := fmt.Sprint(p)
			if strings.Contains(msg, "assignment to entry in nil map") {
				rc.fail("C16/memory-storage/panic/nil-map-after-close/"+op.name, fmt.Sprintf("%s %s: panic: %s (Close set the data map to nil; the operation writes to it)", op.name, when, msg))
				return
			}
			rc.fail("C16/memory-storage/panic/"+op.name, fmt.Sprintf("%s %s: panic: %s", op.name, when, msg))
		}
	}()
	op.fn(st, k)
}

func runStorage(r Round) *outcome {
	o := &outcome{}
	base := snapshot(storagePrefixes)
	parent, cancel := context.WithCancel(context.Background())
	defer cancel()
	st := memory.New(parent)
	defer func() {
		defer func() { recover() }()
		if !roundAborted {
			st.Close()
		}
	}()
	var mine, faulty counter
	if m := r.p("hfault"); m != 0 {
		st.AddCleanHandler(faultyHandler(m, &faulty))
	}
	st.AddCleanHandler(func() error { mine.hit(); return nil })
	for i := 0; i < r.p("keys"); i++ {
		ttl := time.Duration(0)
		if i%2 == 0 {
			ttl = 50 * time.Microsecond // expires around the race so the ticker has work
		}
		st.Set(fmt.Sprintf("k%d", i), i, ttl)
	}
	switch r.p("variant") {
	case 1:
		st.StartCleanup(100 * time.Microsecond)
	case 2:
		st.StartCleanup(time.Millisecond)
	}

	rc := newRace("memory-storage")
	for i := 0; i < r.Closers; i++ {
		rc.spin(kindCloser, "Close", func() {
			st.Close()
			if mine.get() != 1 { // Close returned => released, for every caller
				rc.fail("C16/memory-storage/close-returned-before-cleanup-finished",
					fmt.Sprintf("a Close call returned with the registered cleanup handler run %d times", mine.get()))
			}
		})
	}
	opsRun := func(seed int) func() {
		return func() {
			x := uint32(seed)*2654435761 + 12345
			for i := 0; i < 24; i++ {
				x = x*1664525 + 1013904223
				op := storeOps[int(x>>8)%len(storeOps)]
				guardOp(rc, "racing Close", op, st, fmt.Sprintf("k%d", (x>>4)%8))
			}
		}
	}
	for _, p := range r.Paths {
		switch p {
		case "ops-racing":
			rc.spin(kindPath, p, opsRun(r.p("opseed")))
		case "ops-racing-2":
			rc.spin(kindPath, p, opsRun(r.p("opseed")+7))
		case "stop-cleanup":
			rc.spin(kindPath, p, func() { st.StopCleanup() })
		case "start-cleanup":
			rc.spin(kindPath, p, func() { st.StartCleanup(200 * time.Microsecond) })
		case "parent-cancel":
			rc.spin(kindPath, p, cancel)
		case "cleanup-expired":
			rc.spin(kindPath, p, func() { st.CleanupExpired() })
		}
	}
	rc.release()
	if !rc.mustReturn(o, base, "Close or a racing storage operation / StartCleanup / StopCleanup") {
		return o
	}
	rc.measure(o)
	leaks := settle(storagePrefixes, base, 2*time.Second)
	if n := mine.get(); n != 1 {
		o.failf("C16/memory-storage/cleanup-handler-ran-"+times(n), "registered cleanup handler ran %d times", n)
	}
	if n := faulty.get(); r.p("hfault") != 0 && n != 1 {
		o.failf("C16/memory-storage/failing-or-slow-cleanup-handler-ran-"+times(n), "the cleanup handler registered before the counting one (fault mode %d) ran %d times", r.p("hfault"), n)
	}
	if !st.IsClosed() {
		o.failf("C16/memory-storage/not-closed", "IsClosed()==false after Close")
	}
	if leaks != nil {
		o.failf("C16/memory-storage/goroutine-leak/"+leakKeyPart(leaks[0]), "goroutines remain after Close: %s", leakMsg(leaks))
	}
	// later operations: every operation of the interface, none may panic
	rc2 := newRace("memory-storage")
	for _, op := range storeOps {
		guardOp(rc2, "after Close", op, st, "k1")
	}
	rc2.guard("post-close-Close", func() { st.Close(); st.CleanupExpired() })
	func() {
		defer func() {
			if p := recover(); p != nil {
				key := "C16/memory-storage/panic/StopCleanup-after-close"
				if strings.Contains(fmt.Sprint(p), "close of closed channel") {
					key = "C16/memory-storage/panic/StopCleanup-closes-stop-channel-twice/StartCleanup-raced-or-followed-Close"
				}
				rc2.fail(key, fmt.Sprintf("StopCleanup after Close (paths %v): panic: %v", r.Paths, p))
			}
		}()
		st.StopCleanup()
	}()
	o.fails = append(o.fails, rc2.fails...)
	cancel()
	return o
}

var compStorage = register(&component{name: "memory-storage", quick: 2400, thorough: 60000, gen: genStorage, run: runStorage})

func TestMemoryStorage(t *testing.T) { compStorage.test(t) }
