package c16

import (
	"encoding/json"
	"fmt"
	"os"
	"os/exec"
	"path/filepath"
	"regexp"
	"runtime"
	"runtime/debug"
	"sort"
	"strconv"
	"strings"
	"sync/atomic"
	"testing"
	"time"

	"pgregory.net/rapid"

	"tunnox-core/verif/vkit"
)

func TestMain(m *testing.M) {
	if !isChild() && os.Getenv("VERIF_REPLAY") == "" && os.Getenv("C16_NO_LONG") == "" {
		startPeriodicChild() // ~31 s scenario, runs beside the sequential components
	}
	vkit.Main(m, "C16")
}

// component describes one managed component's contention rounds.
type component struct {
	name            string // "dispose", "stream", "client-tunnel", "bridge", "memory-storage", "session-manager"
	quick, thorough int    // total rounds over all shards
	gen             func(*rapid.T) Round
	run             func(Round) *outcome
}

var components = map[string]*component{}

func register(c *component) *component { components[c.name] = c; return c }

// ---------------------------------------------------------------------------
// child side: executes rounds, journals them, aggregates into a side file

type knownRec struct {
	Count  int    `json:"count"`
	Detail string `json:"detail"`
	Round  Round  `json:"round"`
}

type violRec struct {
	Key    string `json:"key"`
	Detail string `json:"detail"`
	Round  Round  `json:"round"`
}

type sideRec struct {
	Test      string               `json:"test"`
	Rounds    int                  `json:"rounds"`
	Cases     map[string]int       `json:"cases"` // class \x1f nt \x1f sig -> count
	Classes   map[string]int       `json:"classes"`
	Extra     map[string]int64     `json:"extra"`
	Known     map[string]*knownRec `json:"known"`
	Viol      []violRec            `json:"viol"`
	Samples   map[string]Round     `json:"samples"`
	Skipped   int                  `json:"skipped"`
	BudgetCut int                  `json:"budget_cut"`
	Done      bool                 `json:"done"`
	Aborted   bool                 `json:"aborted"` // a "does not return" verdict poisoned the process: child exited early
}

var (
	side        *sideRec
	sidePath    string
	journalFile *os.File
	stopped     bool
)

func isChild() bool { return os.Getenv("C16_CHILD") == "1" }

func journalPath() string {
	dir := filepath.Join(vkit.Root(), "replays", "C16")
	if d := os.Getenv("VERIF_REPLAY_DIR"); d != "" {
		dir = d
	}
	return filepath.Join(dir, fmt.Sprintf("current.s%d%s.json", vkit.Shard(), os.Getenv("C16_JOURNAL_SUFFIX")))
}

// journal records the round that is about to run, so that a process crash is attributable.
func journal(test string, idx int, r Round) {
	if journalFile == nil {
		os.MkdirAll(filepath.Dir(journalPath()), 0o755)
		f, err := os.OpenFile(journalPath(), os.O_CREATE|os.O_RDWR|os.O_TRUNC, 0o644)
		if err != nil {
			return
		}
		journalFile = f
	}
	b, _ := json.Marshal(map[string]any{"test": test, "index": idx, "round": r, "seed": vkit.Seed(), "shard": vkit.Shard()})
	journalFile.Truncate(0)
	journalFile.WriteAt(b, 0)
}

func flushSide() {
	if side == nil || sidePath == "" {
		return
	}
	b, _ := json.Marshal(side)
	tmp := sidePath + ".tmp"
	if os.WriteFile(tmp, b, 0o644) == nil {
		os.Rename(tmp, sidePath)
	}
}

func knownCount(key string) int {
	if side == nil {
		return 0
	}
	if k := side.Known[key]; k != nil {
		return k.Count
	}
	return 0
}

// record judges one executed round in the child.
func record(r Round, o *outcome) {
	side.Rounds++
	if o.skipped {
		side.Skipped++
		return
	}
	nt := o.overlap && o.pathInside
	class := r.Comp + "/serial"
	switch {
	case nt:
		class = r.Comp + "/closers-overlap+path-in-window"
	case o.overlap:
		class = r.Comp + "/closers-overlap"
	case o.pathInside:
		class = r.Comp + "/path-in-window"
	}
	ntS := "0"
	if nt {
		ntS = "1"
	}
	side.Cases[class+"\x1f"+ntS+"\x1f"+r.sig()]++
	for _, p := range r.Paths {
		side.Classes[r.Comp+"/path="+p]++
	}
	side.Classes[fmt.Sprintf("%s/closers=%d", r.Comp, r.Closers)]++
	for _, c := range o.extraClass {
		side.Classes[r.Comp+"/"+c]++
	}
	side.Extra["rounds/"+r.Comp]++
	if o.overlap {
		side.Extra["closers_overlapped/"+r.Comp]++
	}
	if o.maxInside >= 3 {
		side.Extra["three_or_more_inside_close/"+r.Comp]++
	}
	if o.pathInside {
		side.Extra["path_in_close_window/"+r.Comp]++
	}
	for k, v := range o.extra {
		side.Extra[k+"/"+r.Comp] += v
	}
	if _, ok := side.Samples[class]; !ok && len(side.Samples) < 12 {
		side.Samples[class] = r
	}
	seen := map[string]bool{}
	for _, f := range o.fails {
		if seen[f.Key] {
			continue
		}
		seen[f.Key] = true
		if vkit.IsKnown(f.Key) {
			k := side.Known[f.Key]
			if k == nil {
				k = &knownRec{Detail: f.Detail, Round: r}
				side.Known[f.Key] = k
			}
			k.Count++
			continue
		}
		side.Viol = append(side.Viol, violRec{Key: f.Key, Detail: f.Detail, Round: r})
		stopped = true
	}
}

// roundStart is the start time (unix ns) of the round in progress, 0 between rounds.
var roundStart atomic.Int64

// watchdog bounds a round whose own goroutine got stuck inside the code under test (a call
// made outside the barrier: set-up, post-close operations): after 30 s, once every goroutine
// inside the code under test is blocked in two samples, it records the verdict and ends the
// child (the parent continues with a fresh one). The round goroutine is blocked, so the side
// record is not being written concurrently.
func watchdog(comp string, cur *Round) {
	for {
		time.Sleep(time.Second)
		st := roundStart.Load()
		if st == 0 || time.Since(time.Unix(0, st)) < 30*time.Second {
			continue
		}
		in1 := roundGoroutineInside()
		if in1 == "" {
			continue // the round goroutine is in harness code (polling, sleeping): not stuck in the component
		}
		time.Sleep(200 * time.Millisecond)
		if in2 := roundGoroutineInside(); in2 != in1 || roundStart.Load() != st {
			continue
		}
		dump, _ := repoGoroutines(3000)
		o := &outcome{abort: true}
		o.failf(fmt.Sprintf("C16/%s/operation-does-not-return/%s", comp, blockedTops(gsnap{})),
			"the round did not finish within 30s and every goroutine inside the code under test is blocked. Stacks:\n%s", dump)
		record(*cur, o)
		side.Aborted = true
		flushSide()
		os.Exit(7)
	}
}

// roundGoroutineInside returns the innermost tunnox-core/internal function the round's own
// goroutine is blocked in, or "" when that goroutine is running, runnable or in harness code.
func roundGoroutineInside() string {
	for _, g := range strings.Split(allStacksCopy(), "\n\n") {
		if !strings.Contains(g, "c16.(*component).runGuarded") {
			continue
		}
		lines := strings.Split(g, "\n")
		if strings.Contains(lines[0], "[running") || strings.Contains(lines[0], "[runnable") {
			return ""
		}
		for _, ln := range lines[1:] {
			if strings.HasPrefix(ln, "tunnox-core/verif/") {
				return ""
			}
			if strings.HasPrefix(ln, "tunnox-core/internal/") {
				if i := strings.LastIndex(ln, "("); i > 0 {
					ln = ln[:i]
				}
				return ln
			}
		}
	}
	return ""
}

// allStacksCopy is allStacks with a private buffer (the watchdog runs beside the round).
func allStacksCopy() string {
	buf := make([]byte, 1<<20)
	for {
		n := runtime.Stack(buf, true)
		if n < len(buf) {
			return string(buf[:n])
		}
		buf = make([]byte, 2*len(buf))
	}
}

// runGuarded runs one round; a panic on the round's own goroutine (construction, I/O set-up,
// post-close operations outside an explicit guard) is a verdict like any other recovered panic.
func (c *component) runGuarded(r Round) (o *outcome) {
	defer func() {
		if p := recover(); p != nil {
			st := string(debug.Stack())
			o = &outcome{}
			fr := topRepoFrame(st)
			if fr == "unknown-frame" {
				panic(p) // not inside the code under test: harness bug, let it surface
			}
			o.failf(fmt.Sprintf("C16/%s/panic/round-setup-or-teardown/%s", c.name, fr), "panic: %v\n%s", p, trimStack(st))
		}
	}()
	return c.run(r)
}

func (c *component) child(t *testing.T) {
	sidePath = os.Getenv("C16_SIDE")
	side = &sideRec{Test: t.Name(), Cases: map[string]int{}, Classes: map[string]int{}, Extra: map[string]int64{},
		Known: map[string]*knownRec{}, Samples: map[string]Round{}}
	stopped = false
	rounds, _ := strconv.Atoi(os.Getenv("C16_ROUNDS"))
	if rounds <= 0 {
		rounds = 1
	}
	attempt := os.Getenv("C16_ATTEMPT")
	var fixed *Round
	if s := os.Getenv("C16_FIXED_ROUND"); s != "" {
		fixed = &Round{}
		if err := json.Unmarshal([]byte(s), fixed); err != nil {
			t.Fatalf("bad C16_FIXED_ROUND: %v", err)
		}
	}
	idx := 0
	lastFlush := time.Now()
	var cur Round
	go watchdog(c.name, &cur)
	began := time.Now()
	budget := time.Duration(0)
	if ms, _ := strconv.Atoi(os.Getenv("C16_BUDGET_MS")); ms > 0 {
		budget = time.Duration(ms) * time.Millisecond
	}
	prop := func(rt *rapid.T) {
		if stopped {
			return
		}
		if budget > 0 && time.Since(began) > budget {
			// wall budget of the tier used up (loaded machine): the remaining rounds are not run
			side.BudgetCut++
			return
		}
		var r Round
		if fixed != nil && fixed.Closers > 0 {
			r = *fixed
			rapid.Bool().Draw(rt, "tick")
		} else {
			r = c.gen(rt)
		}
		idx++
		cur = r
		journal(t.Name(), idx, r)
		roundStart.Store(time.Now().UnixNano())
		o := c.runGuarded(r)
		roundStart.Store(0)
		record(r, o)
		if o.abort {
			// goroutines of this round are blocked for good: report and let the parent start a fresh child
			side.Aborted = true
			flushSide()
			os.Exit(7)
		}
		if time.Since(lastFlush) > 500*time.Millisecond {
			flushSide()
			lastFlush = time.Now()
		}
	}
	// a distinct sub-test name per attempt gives every restart a different rapid sequence
	t.Run("a"+attempt, func(t *testing.T) {
		n := rounds * vkit.NShards()
		vkit.Check(t, n, n, prop)
	})
	side.Done = true
	flushSide()
	if journalFile != nil {
		journalFile.Close()
		journalFile = nil
		os.Remove(journalPath())
	}
	if len(side.Viol) > 0 {
		t.Fatalf("C16 child: %d violation(s), first: %s: %s", len(side.Viol), side.Viol[0].Key, side.Viol[0].Detail)
	}
}

// ---------------------------------------------------------------------------
// parent side

func (c *component) feed(t *testing.T, s *sideRec) (violated bool) {
	if s == nil {
		return false
	}
	keys := make([]string, 0, len(s.Cases))
	for k := range s.Cases {
		keys = append(keys, k)
	}
	sort.Strings(keys)
	for _, k := range keys {
		parts := strings.SplitN(k, "\x1f", 3)
		for i := 0; i < s.Cases[k]; i++ {
			vkit.Case(parts[0], parts[1] == "1", parts[2])
		}
	}
	for k, n := range s.Classes {
		for i := 0; i < n; i++ {
			vkit.Class(k)
		}
	}
	for k, v := range s.Extra {
		vkit.AddExtra(k, v)
	}
	if s.Skipped > 0 {
		vkit.Skipped(s.Skipped)
	}
	if s.BudgetCut > 0 {
		vkit.AddExtra("rounds_not_run_wall_budget/"+c.name, int64(s.BudgetCut))
	}
	for cl, r := range s.Samples {
		vkit.Sample(cl, r)
	}
	for key, k := range s.Known {
		for i := 0; i < k.Count; i++ {
			vkit.Violation(t, key, k.Detail, k.Round) // listed finding: counted, returns
		}
	}
	for _, v := range s.Viol {
		v := v
		violated = true
		t.Run("violation", func(t *testing.T) { vkit.Violation(t, v.Key, v.Detail, v.Round) })
	}
	return violated
}

var closeFrame = regexp.MustCompile(`tunnox-core/internal/[^\s]*\.(Close|CloseWithResult|CloseWithError|CloseConnection|CloseAll|CloseTunnel|onClose|cleanup|runCleanHandlers|StopCleanup|Dispose|DisposeAll)(-fm)?\(\)`)

// feedRaces turns race-detector reports of a child into verdicts. Only races in which one of
// the two accesses happens on a shutdown path (a Close / cleanup frame of the code under test
// is on its stack) belong to this property; other races (e.g. two request handlers) are
// counted and left to the properties that own them.
func (c *component) feedRaces(t *testing.T, out string) (violated bool) {
	blocks := strings.Split(out, "WARNING: DATA RACE")
	if len(blocks) < 2 {
		return false
	}
	seen := map[string]bool{}
	for _, b := range blocks[1:] {
		if i := strings.Index(b, "=================="); i >= 0 {
			b = b[:i]
		}
		stacks := strings.Split(strings.TrimSpace(b), "\n\n")
		if len(stacks) < 2 {
			continue
		}
		var tops []string
		onClosePath, harnessOnly := false, true
		for _, st := range stacks[:2] {
			top := ""
			for _, ln := range strings.Split(st, "\n") {
				ln = strings.TrimSpace(ln)
				if strings.HasPrefix(ln, "tunnox-core/internal/") {
					if top == "" {
						top = shortFunc(strings.TrimSuffix(ln, "()"))
					}
					harnessOnly = false
				}
			}
			if closeFrame.MatchString(st) {
				onClosePath = true
			}
			tops = append(tops, top)
		}
		if harnessOnly {
			t.Errorf("INCONCLUSIVE: data race inside the harness itself:\n%s", tail(b, 1500))
			continue
		}
		if !onClosePath {
			vkit.AddExtra("data_races_not_on_a_close_path/"+c.name, 1)
			continue
		}
		sort.Strings(tops)
		key := fmt.Sprintf("C16/%s/data-race-with-close/%s+%s", c.name, tops[0], tops[1])
		if seen[key] {
			vkit.AddExtra("data_races_with_close/"+c.name, 1)
			continue
		}
		seen[key] = true
		vkit.AddExtra("data_races_with_close/"+c.name, 1)
		// first line: both accesses with their call chains (innermost first, file lines dropped);
		// then the detector's report
		var sum []string
		for _, st := range stacks[:2] {
			var chain []string
			hdr := ""
			for _, ln := range strings.Split(st, "\n") {
				ln = strings.TrimSpace(ln)
				switch {
				case ln == "":
				case hdr == "":
					hdr = strings.TrimSuffix(ln, ":")
				case strings.HasPrefix(ln, "/") || strings.HasPrefix(ln, "<autogenerated>"):
				default:
					if len(chain) < 6 {
						chain = append(chain, strings.TrimSuffix(strings.TrimPrefix(ln, "tunnox-core/"), "()"))
					}
				}
			}
			sum = append(sum, hdr+": "+strings.Join(chain, " < "))
		}
		detail := "DATA RACE " + strings.Join(sum, "  ||  ") + "\n" + strings.TrimSpace(b)
		if len(detail) > 3500 {
			detail = detail[:3500] + "..."
		}
		if vkit.IsKnown(key) {
			vkit.Violation(t, key, detail, Round{Comp: c.name})
			continue
		}
		violated = true
		t.Run("data-race", func(t *testing.T) { vkit.Violation(t, key, detail, Round{Comp: c.name}) })
	}
	return violated
}

func readSide(path string) *sideRec {
	b, err := os.ReadFile(path)
	if err != nil {
		return nil
	}
	s := &sideRec{}
	if json.Unmarshal(b, s) != nil {
		return nil
	}
	return s
}

// crashKey classifies a dead child from its output. ok=false: not attributable to the code
// under test (harness bug, watchdog) -> inconclusive.
func crashKey(comp, out string) (key, excerpt string, ok bool) {
	i := strings.Index(out, "\nfatal error: ")
	j := strings.Index(out, "\npanic: ")
	if strings.HasPrefix(out, "panic: ") {
		j = 0
	}
	if strings.HasPrefix(out, "fatal error: ") {
		i = 0
	}
	pos, kind := -1, ""
	switch {
	case i >= 0 && (j < 0 || i < j):
		pos, kind = i, "fatal"
	case j >= 0:
		pos, kind = j, "panic"
	default:
		return "", tail(out, 1500), false
	}
	body := strings.TrimLeft(out[pos:], "\n")
	excerpt = body
	if len(excerpt) > 2500 {
		excerpt = excerpt[:2500] + "..."
	}
	msg := body
	if k := strings.Index(msg, "\n"); k >= 0 {
		msg = msg[:k]
	}
	if strings.Contains(msg, "test timed out") {
		return "", excerpt, false
	}
	// first goroutine block after the message is the one that died
	blk := body
	if k := strings.Index(blk, "\ngoroutine "); k >= 0 {
		blk = blk[k+1:]
	}
	if k := strings.Index(blk, "\n\n"); k >= 0 {
		blk = blk[:k]
	}
	fn := ""
	for _, ln := range strings.Split(blk, "\n") {
		if strings.HasPrefix(ln, "\t") || strings.HasPrefix(ln, "goroutine ") || strings.HasPrefix(ln, "created by ") {
			continue
		}
		if strings.HasPrefix(ln, "runtime.") || strings.HasPrefix(ln, "panic(") || strings.HasPrefix(ln, "runtime/") ||
			strings.HasPrefix(ln, "sync.") || strings.HasPrefix(ln, "sync/") || strings.HasPrefix(ln, "internal/") {
			continue
		}
		if strings.HasPrefix(ln, "tunnox-core/verif/") || strings.HasPrefix(ln, "testing.") || strings.HasPrefix(ln, "pgregory.net/") {
			return "", excerpt, false // died in harness code: not a verdict about the code under test
		}
		if k := strings.LastIndex(ln, "("); k > 0 {
			ln = ln[:k]
		}
		if strings.HasPrefix(ln, "tunnox-core/internal/") {
			fn = shortFunc(ln)
			break
		}
		// frame of a dependency (io, bytes, ...): keep looking for the repo frame that called it
	}
	if fn == "" {
		return "", excerpt, false
	}
	what := "panic-in-component-goroutine"
	if kind == "fatal" {
		m := strings.TrimPrefix(msg, "fatal error: ")
		what = "fatal-" + strings.ReplaceAll(strings.TrimSpace(m), " ", "-")
	}
	return fmt.Sprintf("C16/%s/process-crash/%s/%s", comp, what, fn), excerpt, true
}

func tail(s string, n int) string {
	if len(s) > n {
		return "..." + s[len(s)-n:]
	}
	return s
}

func readJournal() (Round, string) {
	b, err := os.ReadFile(journalPath())
	if err != nil {
		return Round{}, ""
	}
	var j struct {
		Test  string `json:"test"`
		Index int    `json:"index"`
		Round Round  `json:"round"`
	}
	json.Unmarshal(b, &j)
	return j.Round, fmt.Sprintf("%s round #%d", j.Test, j.Index)
}

// supervise runs the component's rounds in child processes and feeds the evidence recorder.
func (c *component) supervise(t *testing.T, total int, fixed *Round) {
	remaining := total
	const maxCrashes = 3
	budgetEnd := time.Now().Add(time.Duration(vkit.Pick(8, 100)) * time.Second)
	if fixed != nil {
		budgetEnd = time.Now().Add(240 * time.Second) // replay: the round count is the bound
	}
	crashes := 0
	for attempt := 0; remaining > 0; attempt++ {
		wd, _ := os.Getwd()
		sp := filepath.Join(wd, fmt.Sprintf("c16-side-%s-%d.json", c.name, attempt))
		lp := filepath.Join(wd, fmt.Sprintf("c16-child-%s-%d.log", c.name, attempt))
		os.Remove(sp)
		logf, err := os.Create(lp)
		if err != nil {
			t.Fatalf("cannot create child log: %v", err)
		}
		timeout := "240s"
		if vkit.Thorough() {
			timeout = "3000s"
		}
		cmd := exec.Command(os.Args[0], "-test.run", "^"+strings.SplitN(t.Name(), "/", 2)[0]+"$", "-test.timeout", timeout, "-test.count=1")
		env := []string{}
		for _, e := range os.Environ() {
			if strings.HasPrefix(e, "VERIF_OUT=") || strings.HasPrefix(e, "C16_") {
				continue
			}
			env = append(env, e)
		}
		env = append(env, "C16_CHILD=1", "C16_SIDE="+sp, "C16_ROUNDS="+strconv.Itoa(remaining), "C16_ATTEMPT="+strconv.Itoa(attempt),
			"C16_BUDGET_MS="+strconv.Itoa(int((budgetEnd.Sub(time.Now()))/time.Millisecond)+1))
		if fixed != nil {
			b, _ := json.Marshal(fixed)
			env = append(env, "C16_FIXED_ROUND="+string(b))
		}
		cmd.Env = env
		cmd.Stdout = logf
		cmd.Stderr = logf
		runErr := cmd.Run()
		logf.Close()
		s := readSide(sp)
		if c.feed(t, s) {
			return // violation reported (sub-test failed => this test fails)
		}
		if s != nil && s.Aborted {
			// a listed "does not return" finding ended that child: continue with a fresh one
			crashes++
			vkit.AddExtra("child_replaced_after_deadlock/"+c.name, 1)
			remaining -= s.Rounds
			if crashes >= maxCrashes {
				if remaining > 0 {
					vkit.Excluded(remaining)
				}
				return
			}
			continue
		}
		if s != nil && s.Done {
			// (race-built binaries) data races reported by the detector during this child's rounds
			ob, _ := os.ReadFile(lp)
			if c.feedRaces(t, string(ob)) {
				return
			}
			if runErr == nil || strings.Contains(string(ob), "WARNING: DATA RACE") {
				os.Remove(lp)
				os.Remove(sp)
				return
			}
		}
		if time.Now().After(budgetEnd) && runErr == nil {
			return
		}
		// the child died
		ob, _ := os.ReadFile(lp)
		out := string(ob)
		round, where := readJournal()
		key, excerpt, ok := crashKey(c.name, out)
		if !ok {
			t.Fatalf("INCONCLUSIVE: C16 child for %s died without an attributable crash (err=%v) at %s:\n%s", c.name, runErr, where, excerpt)
		}
		crashes++
		done := 0
		if s != nil {
			done = s.Rounds
		}
		vkit.AddExtra("child_crashes/"+c.name, 1)
		vkit.Violation(t, key, fmt.Sprintf("process died in %s (params journaled in %s): %s", where, journalPath(), excerpt), round)
		// listed finding: continue with the remaining budget in a fresh child
		remaining -= done + 1
		if crashes >= maxCrashes {
			if remaining > 0 {
				vkit.Excluded(remaining)
			}
			return
		}
	}
}

func (c *component) test(t *testing.T) {
	if isChild() {
		c.child(t)
		return
	}
	if vkit.Replaying() != "" {
		t.Skip("replay mode")
	}
	c.supervise(t, vkit.PerShard(vkit.Pick(c.quick, c.thorough)), nil)
}

// TestReplay re-runs the parameters of a recorded round many times (E3 failures are
// schedule dependent; the replay unit is the parameter set, not the schedule).
func TestReplay(t *testing.T) {
	if isChild() {
		var r Round
		if err := json.Unmarshal([]byte(os.Getenv("C16_FIXED_ROUND")), &r); err != nil {
			t.Fatalf("bad C16_FIXED_ROUND: %v", err)
		}
		c := components[r.Comp]
		if c == nil {
			t.Fatalf("unknown component %q", r.Comp)
		}
		c.child(t)
		return
	}
	path := vkit.Replaying()
	if path == "" {
		t.Skip("no VERIF_REPLAY")
	}
	var r Round
	key, err := vkit.LoadReplay(path, &r)
	if err != nil {
		t.Fatalf("bad replay file: %v", err)
	}
	c := components[r.Comp]
	if c == nil {
		t.Fatalf("replay names unknown component %q", r.Comp)
	}
	n := 2000
	if r.Comp == compPeriodic.name {
		n = 3 // each round waits for the handler's real 30 s tick
	}
	if s := os.Getenv("C16_REPLAY_ROUNDS"); s != "" {
		n, _ = strconv.Atoi(s)
	}
	t.Logf("replaying key %s: %d rounds of %+v", key, n, r)
	c.supervise(t, n, &r)
}
