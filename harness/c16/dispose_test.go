package c16

import (
	"context"
	"errors"
	"fmt"
	"runtime"
	"testing"
	"time"

	"pgregory.net/rapid"

	"tunnox-core/internal/core/dispose"
)

// dispose.Dispose / ResourceBase / ManagerBase: Close x N with AddCleanHandler racing.
//
// p: variant 0 Dispose, 1 ResourceBase, 2 ManagerBase; handlers = pre-registered counting
// handlers; errs = how many of them return an error; adders = goroutines that call
// AddCleanHandler from the barrier; slow = handlers yield inside (widens the window).

var disposePrefixes = []string{"tunnox-core/internal/core/dispose."}

type disposable interface {
	Close() *dispose.DisposeResult
	AddCleanHandler(func() error)
	IsClosed() bool
	Ctx() context.Context
	GetErrors() []*dispose.DisposeError
}

func genDispose(t *rapid.T) Round {
	r := Round{Comp: "dispose", P: map[string]int{}}
	r.Closers = rapid.SampledFrom([]int{2, 2, 3, 3, 4, 5, 6, 8}).Draw(t, "closers")
	r.P["variant"] = rapid.IntRange(0, 3).Draw(t, "variant") // 3: dispose.ResourceManager.DisposeAll
	r.P["handlers"] = rapid.IntRange(1, 4).Draw(t, "handlers")
	r.P["errs"] = rapid.IntRange(0, 1).Draw(t, "errs")
	r.P["slow"] = rapid.IntRange(0, 3).Draw(t, "slow") // 3: every handler takes ~30us (a final report, a flush)
	if n := rapid.IntRange(0, 2).Draw(t, "adders"); n > 0 {
		r.P["adders"] = n
		r.Paths = append(r.Paths, "add-clean-handler")
	}
	if rapid.Bool().Draw(t, "cancel") {
		r.Paths = append(r.Paths, "parent-cancel")
	}
	if rapid.Bool().Draw(t, "isclosed") {
		r.Paths = append(r.Paths, "is-closed-poll")
	}
	return r
}

// cDisposable is a counting dispose.Disposable.
type cDisposable struct {
	c    counter
	slow int
}

func (d *cDisposable) Dispose() error {
	d.c.hit()
	if d.slow > 0 {
		runtime.Gosched()
	}
	return nil
}

// runResourceManager: DisposeAll / DisposeWithTimeout x N with Register / Unregister racing.
func runResourceManager(r Round) *outcome {
	o := &outcome{}
	base := snapshot(disposePrefixes)
	rm := dispose.NewResourceManager()
	nh := r.p("handlers")
	pre := make([]*cDisposable, nh)
	for i := range pre {
		pre[i] = &cDisposable{slow: r.p("slow")}
		rm.Register(fmt.Sprintf("r%d", i), pre[i])
	}
	rc := newRace("dispose")
	lates := make([]*cDisposable, r.p("adders"))
	regOK := make([]bool, len(lates))
	for i := range lates {
		i := i
		lates[i] = &cDisposable{}
		rc.spin(kindPath, "Register", func() { regOK[i] = rm.Register(fmt.Sprintf("late%d", i), lates[i]) == nil })
	}
	unregistered := false
	if r.has("parent-cancel") { // reused draw: an Unregister of r0 racing the disposal
		unregistered = true
		rc.spin(kindPath, "Unregister", func() { rm.Unregister("r0") })
	}
	if r.has("is-closed-poll") {
		rc.spin(kindOther, "List", func() {
			for i := 0; i < 20; i++ {
				rm.ListResources()
				rm.GetResourceCount()
			}
		})
	}
	for i := 0; i < r.Closers; i++ {
		i := i
		rc.spin(kindCloser, "DisposeAll", func() {
			if i%3 == 2 {
				rm.DisposeWithTimeout(5 * time.Second)
			} else {
				rm.DisposeAll()
			}
		})
	}
	rc.release()
	if !rc.mustReturn(o, base, "DisposeAll/Register") {
		return o
	}
	rc.measure(o)
	// a resource registered during the disposal is picked up by the next DisposeAll
	rc2 := newRace("dispose")
	rc2.guard("post-close", func() { rm.DisposeAll(); rm.DisposeAll() })
	o.fails = append(o.fails, rc2.fails...)
	leaks := settle(disposePrefixes, base, 2*time.Second)
	for j, p := range pre {
		n := p.c.get()
		if j == 0 && unregistered {
			if n > 1 {
				o.failf("C16/dispose/resource-manager/resource-disposed-"+times(n), "resource r0 (unregistered during DisposeAll) disposed %d times", n)
			}
			continue
		}
		if n != 1 {
			o.failf("C16/dispose/resource-manager/resource-disposed-"+times(n), "registered resource r%d disposed %d times after %d concurrent DisposeAll calls", j, n, r.Closers)
		}
	}
	for j, l := range lates {
		if n := l.c.get(); regOK[j] && n != 1 {
			o.failf("C16/dispose/resource-manager/late-resource-disposed-"+times(n), "resource registered during DisposeAll disposed %d times after a following DisposeAll", n)
		}
	}
	if n := rm.GetResourceCount(); n != 0 {
		o.failf("C16/dispose/resource-manager/resources-left", "%d resources still registered after DisposeAll", n)
	}
	if leaks != nil {
		o.failf("C16/dispose/goroutine-leak/"+leakKeyPart(leaks[0]), "goroutines remain after DisposeAll: %s", leakMsg(leaks))
	}
	return o
}

func runDispose(r Round) *outcome {
	if r.p("variant") == 3 {
		return runResourceManager(r)
	}
	o := &outcome{}
	base := snapshot(disposePrefixes)
	parent, cancel := context.WithCancel(context.Background())
	defer cancel()

	nh := r.p("handlers")
	pre := make([]*counter, nh)
	for i := range pre {
		pre[i] = &counter{}
	}
	finished := map[*counter]*counter{} // handler -> completions (a handler has "run" when it has returned)
	for _, c := range pre {
		finished[c] = &counter{}
	}
	slow := r.p("slow")
	mk := func(c *counter, fails bool) func() error {
		fin := finished[c]
		return func() error {
			c.hit()
			if fin != nil {
				defer fin.hit()
			}
			switch slow {
			case 1:
				runtime.Gosched()
			case 2:
				for i := 0; i < 200; i++ {
					_ = i
				}
				runtime.Gosched()
			case 3:
				for t := nowNS(); nowNS()-t < 30000; {
				}
			}
			if fails {
				return errors.New("handler failed")
			}
			return nil
		}
	}
	var d disposable
	var closeErr func() error
	first := mk(pre[0], r.p("errs") > 0)
	builtin := 0 // handlers the constructor registers itself (ResourceBase.onClose)
	switch r.p("variant") {
	case 0:
		d = dispose.NewDispose(parent, first)
	case 1:
		rb := dispose.NewResourceBase("c16")
		rb.Initialize(parent)
		rb.AddCleanHandler(first)
		d, closeErr, builtin = &rb.Dispose, rb.Close, 1
	default:
		mb := dispose.NewManager("c16", parent)
		mb.AddCleanHandler(first)
		d, closeErr, builtin = &mb.Dispose, mb.Close, 1
	}
	_ = builtin
	for i := 1; i < nh; i++ {
		d.AddCleanHandler(mk(pre[i], false))
	}

	rc := newRace("dispose")
	type added struct {
		c        *counter
		returned int64 // stamp when AddCleanHandler returned
	}
	adds := make([]*added, r.p("adders"))
	for i := range adds {
		a := &added{c: &counter{}}
		adds[i] = a
		rc.spin(kindPath, "AddCleanHandler", func() {
			d.AddCleanHandler(mk(a.c, false))
			a.returned = nowNS()
		})
	}
	if r.has("parent-cancel") {
		rc.spin(kindPath, "parent-cancel", cancel)
	}
	if r.has("is-closed-poll") {
		rc.spin(kindOther, "IsClosed", func() {
			for i := 0; i < 20; i++ {
				d.IsClosed()
				d.GetErrors()
			}
		})
	}
	for i := 0; i < r.Closers; i++ {
		i := i
		rc.spin(kindCloser, "Close", func() {
			gotErr := false
			if closeErr != nil && i%2 == 1 {
				gotErr = closeErr() != nil
			} else {
				gotErr = d.Close().HasErrors()
			}
			// Close returned => released: whichever caller it is (the one that ran the cleanup or
			// one that arrived while it was in progress), every registered cleanup action has
			// completed and its errors are reported to this caller
			for j, c := range pre {
				if n := finished[c].get(); n == 0 {
					rc.fail("C16/dispose/close-returned-before-cleanup-finished",
						fmt.Sprintf("a Close call (closer %d of %d) returned while pre-registered handler %d had not finished (started %d times)", i, r.Closers, j, c.get()))
					break
				}
			}
			if want := r.p("errs") > 0; gotErr != want {
				rc.fail("C16/dispose/close-returned-without-cleanup-errors",
					fmt.Sprintf("a Close call (closer %d of %d) reported errors=%v, %d cleanup handlers failed", i, r.Closers, gotErr, r.p("errs")))
			}
			// at no point may a cleanup action have run more than once
			for j, c := range pre {
				if n := c.get(); n > 1 {
					rc.fail(fmt.Sprintf("C16/dispose/cleanup-handler-ran-%s/at-close-return", times(n)),
						fmt.Sprintf("handler %d ran %d times when a Close call returned", j, n))
				}
			}
		})
	}
	rc.release()
	if !rc.mustReturn(o, base, "Close/AddCleanHandler") {
		return o
	}
	rc.measure(o)

	for j, c := range pre {
		if n := c.get(); n != 1 {
			o.failf(fmt.Sprintf("C16/dispose/cleanup-handler-ran-%s", times(n)), "pre-registered handler %d ran %d times after %d concurrent Close calls", j, n, r.Closers)
		}
	}
	firstClose := int64(1 << 62)
	for _, c := range rc.closers {
		if c.in < firstClose {
			firstClose = c.in
		}
	}
	for j, a := range adds {
		n := a.c.get()
		if n > 1 {
			o.failf("C16/dispose/racing-handler-ran-twice", "handler %d added during Close ran %d times", j, n)
		}
		if a.returned != 0 && a.returned < firstClose && n == 0 {
			o.failf("C16/dispose/handler-registered-before-close-not-run", "handler %d: AddCleanHandler returned before the first Close began, ran %d times", j, n)
		}
		if n == 0 {
			o.extraClass = append(o.extraClass, "late-handler-dropped")
		}
	}
	if !d.IsClosed() {
		o.failf("C16/dispose/not-closed-after-close", "IsClosed()==false after Close returned")
	}
	select {
	case <-d.Ctx().Done():
	default:
		o.failf("C16/dispose/ctx-not-cancelled", "Ctx() not cancelled after Close")
	}
	// later operations: Close again is a no-op, AddCleanHandler does not panic or run anything
	late := &counter{}
	rc2 := newRace("dispose")
	rc2.guard("post-close", func() {
		d.Close()
		d.AddCleanHandler(mk(late, false))
		d.Close()
		if closeErr != nil {
			closeErr()
		}
	})
	o.fails = append(o.fails, rc2.fails...)
	for j, c := range pre {
		if n := c.get(); n != 1 {
			o.failf(fmt.Sprintf("C16/dispose/cleanup-handler-ran-%s/on-second-close", times(n)), "handler %d ran %d times after a later Close", j, n)
		}
	}
	if want := r.p("errs"); len(d.GetErrors()) != want {
		o.failf("C16/dispose/errors-miscounted", "GetErrors has %d entries, %d handlers failed once each", len(d.GetErrors()), want)
	}
	if l := settle(disposePrefixes, base, 2*time.Second); l != nil {
		o.failf("C16/dispose/goroutine-leak/"+leakKeyPart(l[0]), "goroutines remain after Close: %s", leakMsg(l))
	}
	return o
}

func times(n int) string {
	switch {
	case n == 0:
		return "never"
	case n == 2:
		return "twice"
	default:
		return "many-times"
	}
}

var compDispose = register(&component{name: "dispose", quick: 3000, thorough: 60000, gen: genDispose, run: runDispose})

func TestDispose(t *testing.T) { compDispose.test(t) }
