package c17

import (
	"context"
	"encoding/json"
	"fmt"
	"sort"
	"strings"
	"sync/atomic"
	"testing"
	"time"

	"pgregory.net/rapid"

	"tunnox-core/internal/cloud/models"
	"tunnox-core/internal/cloud/repos"
	"tunnox-core/internal/cloud/services"
	coreerrors "tunnox-core/internal/core/errors"
	"tunnox-core/internal/core/idgen"
	"tunnox-core/internal/core/storage"
	"tunnox-core/internal/core/storage/hybrid"
	stypes "tunnox-core/internal/core/storage/types"
	"tunnox-core/verif/vkit"
)

// ---- (4)/(5) storage-backed per-client quotas under the gate scheduler ----------------

const (
	quotaTarget = int64(71000001) // client whose active-code quota is exercised
	quotaListen = int64(81000001) // client whose active-mapping quota is exercised
)

type selCache struct {
	*vkit.GateCache
	sel func(key string) bool
}

func (s *selCache) Get(k string) (any, error) {
	if !s.sel(k) {
		return s.GateCache.Storage.Get(k)
	}
	return s.GateCache.Get(k)
}
func (s *selCache) Set(k string, v any, ttl time.Duration) error {
	if !s.sel(k) {
		return s.GateCache.Storage.Set(k, v, ttl)
	}
	return s.GateCache.Set(k, v, ttl)
}
func (s *selCache) Delete(k string) error {
	if !s.sel(k) {
		return s.GateCache.Storage.Delete(k)
	}
	return s.GateCache.Delete(k)
}
func (s *selCache) Exists(k string) (bool, error) {
	if !s.sel(k) {
		return s.GateCache.Storage.Exists(k)
	}
	return s.GateCache.Exists(k)
}
func (s *selCache) SetNX(k string, v any, ttl time.Duration) (bool, error) {
	if !s.sel(k) {
		return s.GateCache.Storage.SetNX(k, v, ttl)
	}
	return s.GateCache.SetNX(k, v, ttl)
}

// list operations (only reached when the gated memory backend is the Storage itself)
func (s *selCache) GetList(k string) ([]any, error) {
	if !s.sel(k) {
		return s.GateCache.Storage.GetList(k)
	}
	return s.GateCache.GetList(k)
}
func (s *selCache) SetList(k string, v []any, ttl time.Duration) error {
	if !s.sel(k) {
		return s.GateCache.Storage.SetList(k, v, ttl)
	}
	return s.GateCache.SetList(k, v, ttl)
}
func (s *selCache) AppendToList(k string, v any) error {
	if !s.sel(k) {
		return s.GateCache.Storage.AppendToList(k, v)
	}
	return s.GateCache.AppendToList(k, v)
}
func (s *selCache) RemoveFromList(k string, v any) error {
	if !s.sel(k) {
		return s.GateCache.Storage.RemoveFromList(k, v)
	}
	return s.GateCache.RemoveFromList(k, v)
}

type qnode struct {
	pms services.PortMappingService
	cc  *services.ConnectionCodeService
}

type qworld struct {
	cancel context.CancelFunc
	g      *vkit.Gate
	cache  *vkit.GateCache
	store  storage.Storage
	pmf    *pmFail // hybrid backend: facade that can make every write of a mapping record fail
	nodes  []*qnode
}

// pmFail: armed, every Set of a tunnox:port_mapping: record fails at the storage facade (a storage fault in
// CreatePortMapping), so that an activation fails AFTER it has claimed its code.
type pmFail struct {
	*hybrid.Storage
	armed atomic.Bool
}

func (p *pmFail) Set(k string, v any, ttl time.Duration) error {
	if p.armed.Load() && strings.HasPrefix(k, "tunnox:port_mapping:") {
		return fmt.Errorf("%w (Set %s)", vkit.ErrGateFault, k)
	}
	return p.Storage.Set(k, v, ttl)
}

func newQWorld(nNodes int, cfg *services.ConnectionCodeServiceConfig, gated bool, sel func(string) bool) *qworld {
	return newQWorldOn("hybrid", nNodes, cfg, gated, sel)
}

// backend "hybrid": hybrid.Storage over the gated memory backend; "memory": the gated memory backend used
// directly as the Storage (its list operations are then single atomic steps).
func newQWorldOn(backend string, nNodes int, cfg *services.ConnectionCodeServiceConfig, gated bool, sel func(string) bool) *qworld {
	ctx, cancel := context.WithCancel(context.Background())
	w := &qworld{cancel: cancel}
	if gated {
		w.g = vkit.NewGate()
		w.g.Stall = 5 * time.Second // nothing in these programs blocks outside the gate; never mistake a slow task for a stalled one
	}
	w.cache = vkit.NewGateCache(w.g, "cache")
	var tier stypes.CacheStorage = w.cache
	if sel != nil {
		tier = &selCache{GateCache: w.cache, sel: sel}
	}
	if backend == "memory" {
		if sel == nil {
			sel = func(string) bool { return true }
		}
		w.store = &selCache{GateCache: w.cache, sel: sel}
	} else {
		w.pmf = &pmFail{Storage: hybrid.NewWithSharedCache(ctx, tier, nil, nil, hybrid.DefaultConfig())}
		w.store = w.pmf
	}
	for i := 0; i < nNodes; i++ {
		repo := repos.NewRepository(w.store)
		pmRepo := repos.NewPortMappingRepo(repo)
		idm := idgen.NewIDManager(w.store, ctx)
		sp, _ := services.NewSimpleStatsProvider(w.store, ctx)
		n := &qnode{pms: services.NewPortMappingService(pmRepo, idm, sp.GetCounter(), ctx)}
		n.cc = services.NewConnectionCodeService(repos.NewConnectionCodeRepository(repo), n.pms, repos.NewPortMappingRepo(repo), cfg, ctx)
		w.nodes = append(w.nodes, n)
	}
	return w
}

func (w *qworld) close() {
	if w.g != nil {
		w.g.Deactivate()
	}
	w.cancel()
	w.store.Close()
}

// snapshot of every key in the store (oracle side, ungated)
func (w *qworld) snapshot() map[string]string {
	m, _ := w.cache.Raw().QueryByPrefix("", 0)
	return m
}

func diffSnap(a, b map[string]string) string {
	var d []string
	for k, v := range a {
		if bv, ok := b[k]; !ok {
			d = append(d, "-"+k)
		} else if bv != v {
			d = append(d, "~"+k)
		}
	}
	for k := range b {
		if _, ok := a[k]; !ok {
			d = append(d, "+"+k)
		}
	}
	sort.Strings(d)
	return strings.Join(d, " ")
}

func (w *qworld) activeCodes(target int64) int {
	raw, _ := w.cache.Raw().QueryByPrefix("tunnox:runtime:conncode:id:", 0)
	n := 0
	for _, v := range raw {
		var c models.TunnelConnectionCode
		if json.Unmarshal([]byte(v), &c) == nil && c.TargetClientID == target && c.IsValidForActivation() {
			n++
		}
	}
	return n
}

func (w *qworld) activeMappings(client int64) int {
	raw, _ := w.cache.Raw().QueryByPrefix("tunnox:port_mapping:", 0)
	n := 0
	for _, v := range raw {
		var m models.PortMapping
		if json.Unmarshal([]byte(v), &m) == nil && (m.ListenClientID == client || m.TargetClientID == client) &&
			m.Status == models.MappingStatusActive && !m.IsRevoked && !m.IsExpired() {
			n++
		}
	}
	return n
}

type qres struct {
	key, detail string
	log         []vkit.Step
	overlap     bool
	successes   int
	refused     int
	final       int
	class       string
}

func normK(k string) string {
	for _, p := range []string{"tunnox:port_mapping:", "tunnox:id:used:pmap:", "tunnox:runtime:conncode:code:", "tunnox:runtime:conncode:id:", "tunnox:runtime:conncode:claim:"} {
		if strings.HasPrefix(k, p) {
			return strings.TrimPrefix(p, "tunnox:") + "*"
		}
	}
	return strings.TrimPrefix(k, "tunnox:")
}

func normLog(log []vkit.Step) string {
	var b strings.Builder
	for i, s := range log {
		if i > 0 {
			b.WriteString(" ; ")
		}
		b.WriteString(s.Task + ":" + strings.TrimPrefix(s.Op, "cache.") + "(" + normK(s.Key) + ")")
	}
	return b.String()
}

func isWriteOp(op string) bool {
	for _, s := range []string{".Set", ".Delete", ".SetNX", ".SetList", ".AppendToList", ".RemoveFromList", ".Incr", ".SetHash", ".DeleteHash", ".SetExpiration"} {
		if strings.HasSuffix(op, s) {
			return true
		}
	}
	return false
}

// runQuota: Limit-1 items exist; Tasks requests race for the last slot.
func runQuota(c Case, choose func(int, []string) int) qres {
	var r qres
	q := c.Limit
	cfg := &services.ConnectionCodeServiceConfig{MaxActiveCodesPerClient: 10, MaxActiveMappingsPerClient: 50}
	var sel func(string) bool
	var countKey string // the index list the quota count reads
	gran := "all"
	if len(c.Ops) > 0 && c.Ops[0] == 1 {
		gran = "index"
	}
	if c.Kind == "code-quota" {
		cfg.MaxActiveCodesPerClient = q
		countKey = fmt.Sprintf("tunnox:index:conncode:target:%d", quotaTarget)
		if gran == "index" {
			sel = func(k string) bool {
				return strings.HasPrefix(k, "tunnox:index:conncode:") || strings.HasPrefix(k, "tunnox:runtime:conncode:id:")
			}
		}
	} else {
		cfg.MaxActiveMappingsPerClient = q
		countKey = fmt.Sprintf("tunnox:client_mappings:%d", quotaListen)
		if gran == "index" {
			sel = func(k string) bool { return k == countKey }
		}
	}
	nodes := c.Nodes
	if nodes < 1 {
		nodes = 1
	}
	if gran == "all" && c.Kind == "mapping-quota" {
		// every request through its own service stack: requests sharing one PortMappingRepo would wait for
		// each other inside its singleflight group (outside the gate) while reading the same mapping record
		nodes = c.Tasks
	}
	w := newQWorld(nodes, cfg, true, sel)
	defer w.close()
	r.class = fmt.Sprintf("%s/limit=%d/tasks=%d/nodes=%d/gran=%s", c.Kind, q, c.Tasks, nodes, gran)
	// ---- set-up (ungated): occupancy q-1 --------------------------------------------
	var codes []string
	if c.Kind == "code-quota" {
		for i := 0; i < q-1; i++ {
			if _, err := w.nodes[0].cc.CreateConnectionCode(&services.CreateConnectionCodeRequest{TargetClientID: quotaTarget, TargetAddress: "tcp://10.0.0.9:80", ActivationTTL: time.Hour, CreatedBy: "verif"}); err != nil {
				r.key, r.detail = "C17/harness/setup", err.Error()
				return r
			}
		}
	} else {
		for i := 0; i < q-1; i++ {
			if _, err := w.nodes[0].pms.CreatePortMapping(&models.PortMapping{ListenClientID: quotaListen, TargetClientID: 72000000 + int64(i), Protocol: "tcp", SourcePort: 7000 + i,
				TargetHost: "10.9.9.9", TargetPort: 22, ListenAddress: fmt.Sprintf("0.0.0.0:%d", 7000+i), TargetAddress: "tcp://10.9.9.9:22", Status: models.MappingStatusActive, Type: models.MappingTypeAnonymous}); err != nil {
				r.key, r.detail = "C17/harness/setup", err.Error()
				return r
			}
		}
		for i := 0; i < c.Tasks; i++ {
			cc, err := w.nodes[0].cc.CreateConnectionCode(&services.CreateConnectionCodeRequest{TargetClientID: 73000001 + int64(i), TargetAddress: "tcp://10.0.0.9:80", ActivationTTL: time.Hour, CreatedBy: "verif"})
			if err != nil {
				r.key, r.detail = "C17/harness/setup", err.Error()
				return r
			}
			codes = append(codes, cc.Code)
		}
	}
	// ---- racing requests ------------------------------------------------------------
	errs := make([]error, c.Tasks)
	w.g.Activate()
	for i := 0; i < c.Tasks; i++ {
		i := i
		n := w.nodes[i%nodes]
		w.g.Go(fmt.Sprintf("T%d", i+1), func() {
			if c.Kind == "code-quota" {
				_, errs[i] = n.cc.CreateConnectionCode(&services.CreateConnectionCodeRequest{TargetClientID: quotaTarget, TargetAddress: "tcp://10.0.0.9:80", ActivationTTL: time.Hour, CreatedBy: "verif"})
			} else {
				_, errs[i] = n.cc.ActivateConnectionCode(&services.ActivateConnectionCodeRequest{Code: codes[i], ListenClientID: quotaListen, ListenAddress: fmt.Sprintf("0.0.0.0:%d", 9000+i)})
			}
		})
	}
	r.log = w.g.Run(choose)
	w.g.Deactivate()
	if w.g.Aborted {
		r.key, r.detail = "C17/harness/schedule-aborted", vkit.StepsString(r.log)
		return r
	}
	// ---- measures ------------------------------------------------------------------
	countRead := make([]int, c.Tasks)
	firstWrite := make([]int, c.Tasks)
	wrote := make([]bool, c.Tasks)
	for i := range countRead {
		countRead[i], firstWrite[i] = -1, len(r.log)
	}
	for idx, s := range r.log {
		var n int
		if _, err := fmt.Sscanf(s.Task, "T%d", &n); err != nil || n < 1 || n > c.Tasks {
			continue
		}
		i := n - 1
		if s.Key == countKey && strings.HasSuffix(s.Op, ".Get") && countRead[i] < 0 {
			countRead[i] = idx
		}
		if isWriteOp(s.Op) {
			wrote[i] = true
			// the write that makes the new item visible to other requests' counts is the index update
			if s.Key == countKey && firstWrite[i] == len(r.log) {
				firstWrite[i] = idx
			}
		}
	}
	var winners []int
	outcomes := ""
	for i, e := range errs {
		code := "ok"
		if e != nil {
			code = string(coreerrors.GetCode(e))
		}
		outcomes += fmt.Sprintf("T%d=%s ", i+1, code)
		if e == nil {
			winners = append(winners, i)
		} else if coreerrors.IsCode(e, coreerrors.CodeQuotaExceeded) {
			r.refused++
		}
	}
	r.successes = len(winners)
	for a := 0; a < c.Tasks; a++ {
		for b := a + 1; b < c.Tasks; b++ {
			if countRead[a] >= 0 && countRead[b] >= 0 && countRead[a] < firstWrite[b] && countRead[b] < firstWrite[a] {
				r.overlap = true
			}
		}
	}
	limitName, op := "max-active-codes-per-client", "CreateConnectionCode"
	if c.Kind == "code-quota" {
		r.final = w.activeCodes(quotaTarget)
	} else {
		limitName, op = "max-active-mappings-per-client", "ActivateConnectionCode"
		r.final = w.activeMappings(quotaListen)
	}
	pfx := "C17/" + limitName + "/" + op + "/"
	sched := fmt.Sprintf(" [quota %d, %d existed, %s-> %d active]; schedule: %s", q, q-1, outcomes, r.final, normLog(r.log))
	if r.final > q {
		winOverlap := false
		for x := 0; x < len(winners); x++ {
			for y := x + 1; y < len(winners); y++ {
				a, b := winners[x], winners[y]
				if countRead[a] >= 0 && countRead[b] >= 0 && countRead[a] < firstWrite[b] && countRead[b] < firstWrite[a] {
					winOverlap = true
				}
			}
		}
		if winOverlap {
			r.key, r.detail = pfx+"count-then-create-overlap", fmt.Sprintf("%d requests admitted at occupancy quota-1", r.successes)+sched
		} else {
			r.key, r.detail = pfx+"over-admission-non-overlapping", fmt.Sprintf("%d requests admitted at occupancy quota-1 although each counted after the previous one had written", r.successes)+sched
		}
		return r
	}
	// (5) a request refused because of the quota wrote nothing
	if gran == "all" {
		for i, e := range errs {
			if e != nil && coreerrors.IsCode(e, coreerrors.CodeQuotaExceeded) && wrote[i] {
				r.key, r.detail = pfx+"refusal-changed-state", fmt.Sprintf("T%d was refused (%v) but performed storage writes", i+1, e)+sched
				return r
			}
		}
	}
	return r
}

func reportQuota(t vkit.TB, c Case, r qres) {
	sig := fmt.Sprintf("%s|%d|%d|%d|%v|%s", c.Kind, c.Limit, c.Tasks, c.Nodes, c.Ops, normLog(r.log))
	if r.overlap {
		vkit.Class("feat:quota counts of two requests both precede either write")
	}
	if r.key != "" {
		vkit.Violation(t, r.key, r.detail, c)
		vkit.Case("known:"+r.class, r.overlap, sig)
		return
	}
	vkit.Class(fmt.Sprintf("quota-outcome:admitted=%d,refused=%d", r.successes, r.refused))
	vkit.Case(r.class, r.overlap, sig)
	vkit.Sample(c.Kind, map[string]any{"case": c, "schedule": normLog(r.log), "admitted": r.successes, "final": r.final})
}

type qdfs struct {
	prefix, trace, widths []int
	Diverged              int
}

func (d *qdfs) Choose(n int, _ []string) int {
	i := len(d.trace)
	c := 0
	if i < len(d.prefix) {
		c = d.prefix[i]
		if c >= n {
			c = n - 1
			d.Diverged++
		}
	}
	d.trace = append(d.trace, c)
	d.widths = append(d.widths, n)
	return c
}
func (d *qdfs) Next() bool {
	for i := len(d.trace) - 1; i >= 0; i-- {
		if d.trace[i]+1 < d.widths[i] {
			d.prefix = append(append([]int(nil), d.trace[:i]...), d.trace[i]+1)
			d.trace, d.widths = nil, nil
			return true
		}
	}
	d.trace, d.widths = nil, nil
	return false
}

// TestQuotaExhaustive: all schedules of two racing requests at the quota-relevant
// granularity, quota 1..3, one and two nodes.
func TestQuotaExhaustive(t *testing.T) {
	idx := 0
	for _, kind := range []string{"code-quota", "mapping-quota"} {
		for q := 1; q <= 3; q++ {
			for nodes := 1; nodes <= 2; nodes++ {
				idx++
				if !vkit.Mine(idx) {
					continue
				}
				c := Case{Kind: kind, Limit: q, Tasks: 2, Nodes: nodes, Ops: []int{1}}
				d := &qdfs{}
				n := 0
				capN := vkit.Pick(1500, 200000)
				for {
					r := runQuota(c, d.Choose)
					cc := c
					cc.Picks = append([]int(nil), d.trace...)
					reportQuota(t, cc, r)
					n++
					if !d.Next() || n >= capN {
						break
					}
				}
				vkit.Exhaustive(fmt.Sprintf("schedules:%s/limit=%d/tasks=2/nodes=%d/gran=index", kind, q, nodes), n < capN && d.Diverged == 0)
				vkit.AddExtra("dfs_schedules", int64(n))
			}
		}
	}
}

func TestQuotaRandomSchedules(t *testing.T) {
	vkit.Check(t, 4000, 30000, func(t *rapid.T) {
		c := Case{Kind: rapid.SampledFrom([]string{"code-quota", "mapping-quota"}).Draw(t, "kind"),
			Limit: rapid.IntRange(1, 3).Draw(t, "quota"),
			Tasks: rapid.IntRange(2, 3).Draw(t, "tasks"),
			Nodes: rapid.IntRange(1, 2).Draw(t, "nodes"),
			Ops:   []int{rapid.IntRange(0, 1).Draw(t, "indexGranularity")},
		}
		c.Picks = rapid.SliceOfN(rapid.IntRange(0, 2), 0, 70).Draw(t, "picks")
		p := &vkit.Picks{List: c.Picks}
		reportQuota(t, c, runQuota(c, p.Choose))
	})
}

// TestQuotaRefusal (5): at occupancy == quota a request is refused and the store is unchanged.
func TestQuotaRefusal(t *testing.T) {
	if vkit.Shard() != 0 {
		t.Skip("single shard")
	}
	for _, kind := range []string{"code-quota", "mapping-quota"} {
		for q := 1; q <= 3; q++ {
			for occ := q - 1; occ <= q; occ++ {
				c := Case{Kind: kind, Limit: q, Occ: occ, Mode: "sequential"}
				cfg := &services.ConnectionCodeServiceConfig{MaxActiveCodesPerClient: 10, MaxActiveMappingsPerClient: 50}
				if kind == "code-quota" {
					cfg.MaxActiveCodesPerClient = q
				} else {
					cfg.MaxActiveMappingsPerClient = q
				}
				w := newQWorld(1, cfg, false, nil)
				n := w.nodes[0]
				limitName, op := "max-active-codes-per-client", "CreateConnectionCode"
				var call func() error
				if kind == "code-quota" {
					mk := func() error {
						_, err := n.cc.CreateConnectionCode(&services.CreateConnectionCodeRequest{TargetClientID: quotaTarget, TargetAddress: "tcp://10.0.0.9:80", ActivationTTL: time.Hour, CreatedBy: "verif"})
						return err
					}
					for i := 0; i < occ; i++ {
						if err := mk(); err != nil {
							vkit.Violation(t, "C17/"+limitName+"/"+op+"/refused-below-limit", fmt.Sprintf("quota %d, %d active: %v", q, i, err), c)
						}
					}
					call = mk
				} else {
					limitName, op = "max-active-mappings-per-client", "ActivateConnectionCode"
					mkCode := func(i int) string {
						cc, err := n.cc.CreateConnectionCode(&services.CreateConnectionCodeRequest{TargetClientID: 73000001 + int64(i), TargetAddress: "tcp://10.0.0.9:80", ActivationTTL: time.Hour, CreatedBy: "verif"})
						if err != nil {
							t.Fatalf("setup: %v", err)
						}
						return cc.Code
					}
					act := func(i int, code string) error {
						_, err := n.cc.ActivateConnectionCode(&services.ActivateConnectionCodeRequest{Code: code, ListenClientID: quotaListen, ListenAddress: fmt.Sprintf("0.0.0.0:%d", 9000+i)})
						return err
					}
					for i := 0; i < occ; i++ {
						if err := act(i, mkCode(i)); err != nil {
							vkit.Violation(t, "C17/"+limitName+"/"+op+"/refused-below-limit", fmt.Sprintf("quota %d, %d active: %v", q, i, err), c)
						}
					}
					last := mkCode(occ)
					call = func() error { return act(occ, last) }
				}
				pfx := "C17/" + limitName + "/" + op + "/"
				before := w.snapshot()
				err := call()
				after := w.snapshot()
				switch {
				case occ < q && err != nil:
					vkit.Violation(t, pfx+"refused-below-limit", fmt.Sprintf("quota %d, %d active: %v", q, occ, err), c)
				case occ >= q && err == nil:
					vkit.Violation(t, pfx+"over-admission-sequential", fmt.Sprintf("quota %d, %d active, one more request admitted without any concurrency", q, occ), c)
				case occ >= q && !coreerrors.IsCode(err, coreerrors.CodeQuotaExceeded):
					vkit.Violation(t, pfx+"refused-with-unexpected-error", err.Error(), c)
				case occ >= q && diffSnap(before, after) != "":
					vkit.Violation(t, pfx+"refusal-changed-state", "keys changed by the refused request: "+diffSnap(before, after), c)
				default:
					vkit.Case(fmt.Sprintf("%s/sequential/limit=%d/occ=%d", kind, q, occ), occ >= q, fmt.Sprintf("%s|%d|%d", kind, q, occ))
				}
				w.close()
			}
		}
	}
}
