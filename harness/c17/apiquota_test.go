package c17

import (
	"fmt"
	"net/http"
	"net/http/httptest"
	"strings"
	"sync/atomic"
	"testing"
	"time"

	"pgregory.net/rapid"

	"tunnox-core/internal/client"
	"tunnox-core/verif/vkit"
)

// ---- (3c) per-mapping limit taken from the USER quota as the real client obtains it -------
//
// A mapping with MaxConnections 0 is limited by the user's quota. Here BaseMappingHandler asks the
// REAL TunnoxClient.GetUserQuota (quota cache + Management API client); the Management API is an
// HTTP double that serves max_connections = q but answers slowly (it holds every quota request until
// the burst of arrivals has reached the client). Cold cache, q+1..q+8 connections arrive while the
// first fetch is in flight: the connections open at the same time must never exceed q.

func roundAPIQuota(t vkit.TB, c Case) {
	q := c.Limit
	var requests atomic.Int32
	release := make(chan struct{})
	api := httptest.NewServer(http.HandlerFunc(func(w http.ResponseWriter, r *http.Request) {
		if !strings.HasSuffix(r.URL.Path, "/quota") {
			http.NotFound(w, r)
			return
		}
		requests.Add(1)
		<-release
		w.Header().Set("Content-Type", "application/json")
		fmt.Fprintf(w, `{"success":true,"data":{"max_client_ids":10,"max_connections":%d}}`, q)
	}))
	defer api.Close()
	r, err := newMappingRig(0, "mapping") // MaxConnections 0: use the user quota
	if err != nil {
		vkit.Violation(t, "C17/harness/mapping-rig", err.Error(), c)
		return
	}
	cfg := &client.ClientConfig{ClientID: 12345678, SecretKey: "verif-token"}
	cfg.Server.Address = strings.TrimPrefix(api.URL, "http://")
	cfg.Server.Protocol = "tcp"
	real := client.NewClient(r.cl.ctx, cfg)
	r.cl.real = real
	defer func() {
		select {
		case <-release:
		default:
			close(release)
		}
		r.close()
		real.Close()
	}()
	// the API answers once the burst has reached the client (first request seen, then a short grace for the
	// other arrivals to get to GetUserQuota), or after 1 s at the latest
	go func() {
		deadline := time.Now().Add(time.Second)
		for requests.Load() == 0 && time.Now().Before(deadline) {
			time.Sleep(100 * time.Microsecond)
		}
		time.Sleep(time.Duration(c.Occ) * time.Millisecond)
		close(release)
	}()
	if !r.feed(c.Feed) {
		vkit.Skipped(1)
		return
	}
	// after the first fetch the cache is warm: a second burst must be judged against q too
	if len(c.Ops) > 0 && c.Ops[0] > 0 {
		if !r.feed(c.Ops[0]) {
			vkit.Skipped(1)
			return
		}
	}
	openMax := r.cl.open.Max()
	detail := fmt.Sprintf("mapping MaxConnections=0, Management API serves max_connections=%d (answer held back %d ms after the first request; %d quota request(s) reached it); cold quota cache, %d connections arrive at once: %d admitted, at most %d open at the same time, %d refused",
		q, c.Occ, requests.Load(), c.Feed, r.admitted, openMax, r.refused.Load())
	const pfx = "C17/mapping-max-connections/user-quota-from-management-api/"
	switch {
	case openMax > q:
		vkit.Violation(t, pfx+"over-admission-while-quota-fetch-in-flight", detail, c)
	case r.admitted < q && r.fed >= q:
		vkit.Violation(t, pfx+"refused-below-limit", detail, c)
	default:
		vkit.Case(fmt.Sprintf("mapping-cap/api-quota=%d", q), true, fmt.Sprintf("api|%d|%d|%d|%v", q, c.Feed, c.Occ, c.Ops))
	}
}

func TestMappingAPIQuota(t *testing.T) {
	vkit.Check(t, 320, 4000, func(t *rapid.T) {
		c := Case{Kind: "mapping-cap", Mode: "api-quota", Rounds: 30}
		c.Limit = rapid.SampledFrom([]int{1, 2, 3, 5}).Draw(t, "apiQuota")
		c.Feed = c.Limit + rapid.IntRange(1, 8).Draw(t, "extraArrivals")
		c.Occ = rapid.IntRange(1, 4).Draw(t, "apiHoldMs")
		c.Ops = []int{rapid.IntRange(0, 3).Draw(t, "secondBurst")}
		roundAPIQuota(t, c)
	})
}
