package c17

import (
	"fmt"
	"strings"
	"testing"
	"time"

	"pgregory.net/rapid"

	"tunnox-core/internal/cloud/services"
	coreerrors "tunnox-core/internal/core/errors"
	"tunnox-core/verif/vkit"
)

// ---- (4e) the active-code quota while one of the client's codes is being activated ------------
//
// The client is at its active-code limit. One of its codes is activated by another client; that
// activation fails after it has claimed the code (every write of the mapping record fails), so the
// code is valid again afterwards. Meanwhile the client asks for a new code (1-2 requests). Every
// operation on code-record, claim and index keys is a scheduling point. At quiescence the client's
// valid codes, counted from the stored records, must not exceed the limit.

func runClaimWindow(c Case, choose func(int, []string) int) qres {
	var r qres
	q := c.Limit
	sel := func(k string) bool {
		return strings.HasPrefix(k, "tunnox:runtime:conncode:") || strings.HasPrefix(k, "tunnox:index:conncode:")
	}
	w := newQWorldOn("hybrid", 1, &services.ConnectionCodeServiceConfig{MaxActiveCodesPerClient: q, MaxActiveMappingsPerClient: 50}, true, sel)
	defer w.close()
	n := w.nodes[0]
	r.class = fmt.Sprintf("code-quota-claim-window/limit=%d/creates=%d/activation-fails=%v", q, c.Tasks, c.Mode == "fails")
	var codes []string
	for i := 0; i < q; i++ {
		cc, err := n.cc.CreateConnectionCode(&services.CreateConnectionCodeRequest{TargetClientID: quotaTarget, TargetAddress: "tcp://10.0.0.9:80", ActivationTTL: time.Hour, CreatedBy: "verif"})
		if err != nil {
			r.key, r.detail = "C17/harness/setup", err.Error()
			return r
		}
		codes = append(codes, cc.Code)
	}
	w.pmf.armed.Store(c.Mode == "fails")
	w.g.Activate()
	var actErr error
	createErrs := make([]error, c.Tasks)
	w.g.Go("A", func() {
		_, actErr = n.cc.ActivateConnectionCode(&services.ActivateConnectionCodeRequest{Code: codes[0], ListenClientID: quotaListen, ListenAddress: "0.0.0.0:9001"})
	})
	for i := 0; i < c.Tasks; i++ {
		i := i
		w.g.Go(fmt.Sprintf("T%d", i+1), func() {
			_, createErrs[i] = n.cc.CreateConnectionCode(&services.CreateConnectionCodeRequest{TargetClientID: quotaTarget, TargetAddress: "tcp://10.0.0.9:81", ActivationTTL: time.Hour, CreatedBy: "verif"})
		})
	}
	r.log = w.g.Run(choose)
	w.g.Deactivate()
	w.pmf.armed.Store(false)
	if w.g.Aborted {
		r.key, r.detail = "C17/harness/schedule-aborted", vkit.StepsString(r.log)
		return r
	}
	// was a create's count taken while the activation held its claim?
	claimAt, unclaimAt := -1, len(r.log)
	for i, s := range r.log {
		if s.Task == "A" && strings.HasSuffix(s.Op, ".SetNX") && strings.Contains(s.Key, ":claim:") {
			claimAt = i
		}
		if s.Task == "A" && strings.HasSuffix(s.Op, ".Delete") && strings.Contains(s.Key, ":claim:") {
			unclaimAt = i
		}
	}
	for i, s := range r.log {
		if strings.HasPrefix(s.Task, "T") && claimAt >= 0 && i > claimAt && i < unclaimAt && strings.HasSuffix(s.Op, ".Get") {
			r.overlap = true
		}
	}
	outcomes := fmt.Sprintf("A=%v", errCodeOf(actErr))
	for i, e := range createErrs {
		outcomes += fmt.Sprintf(" T%d=%s", i+1, errCodeOf(e))
		if e == nil {
			r.successes++
		} else if coreerrors.IsCode(e, coreerrors.CodeQuotaExceeded) {
			r.refused++
		}
	}
	r.final = w.activeCodes(quotaTarget)
	if r.final > q {
		r.key = "C17/max-active-codes-per-client/CreateConnectionCode/over-admission-during-activation-that-failed"
		if actErr == nil {
			r.key = "C17/max-active-codes-per-client/CreateConnectionCode/over-admission-during-activation"
		}
		r.detail = fmt.Sprintf("quota %d, the client held %d valid codes; activation of one of them (%s) raced %d create request(s) [%s]: %d valid codes stored afterwards; schedule: %s", q, q, errCodeOf(actErr), c.Tasks, outcomes, r.final, normLog(r.log))
	}
	return r
}

func errCodeOf(err error) string {
	if err == nil {
		return "ok"
	}
	return string(coreerrors.GetCode(err))
}

func reportClaimWindow(t vkit.TB, c Case, r qres) {
	sig := fmt.Sprintf("%s|%d|%d|%s|%s", c.Kind, c.Limit, c.Tasks, c.Mode, normLog(r.log))
	if r.key != "" {
		vkit.Violation(t, r.key, r.detail, c)
		vkit.Case("known:"+r.class, r.overlap, sig)
		return
	}
	vkit.Case(r.class, r.overlap, sig)
}

func TestCodeQuotaClaimWindow(t *testing.T) {
	idx := 0
	for _, mode := range []string{"fails", "succeeds"} {
		for q := 1; q <= 2; q++ {
			idx++
			if !vkit.Mine(idx) {
				continue
			}
			c := Case{Kind: "code-quota-claim-window", Limit: q, Tasks: 1, Mode: mode}
			d := &qdfs{}
			n, capN := 0, vkit.Pick(1200, 100000)
			for {
				r := runClaimWindow(c, d.Choose)
				cc := c
				cc.Picks = append([]int(nil), d.trace...)
				reportClaimWindow(t, cc, r)
				n++
				if !d.Next() || n >= capN {
					break
				}
			}
			vkit.Exhaustive(fmt.Sprintf("schedules:code-quota-claim-window/limit=%d/%s", q, mode), n < capN && d.Diverged == 0)
			vkit.AddExtra("dfs_schedules", int64(n))
		}
	}
	vkit.Check(t, 400, 8000, func(t *rapid.T) {
		c := Case{Kind: "code-quota-claim-window", Limit: rapid.IntRange(1, 3).Draw(t, "quota"), Tasks: 1, // one create request: two racing creates are the separate count-then-create program
			Mode: rapid.SampledFrom([]string{"fails", "fails", "succeeds"}).Draw(t, "activation")}
		c.Picks = rapid.SliceOfN(rapid.IntRange(0, 2), 0, 40).Draw(t, "picks")
		p := &vkit.Picks{List: c.Picks}
		reportClaimWindow(t, c, runClaimWindow(c, p.Choose))
	})
}
