package c17

import (
	"context"
	"encoding/json"
	"fmt"
	"strings"
	"sync"
	"testing"
	"time"

	"pgregory.net/rapid"

	"tunnox-core/internal/cloud/models"
	"tunnox-core/internal/cloud/repos"
	"tunnox-core/internal/cloud/services"
	coreerrors "tunnox-core/internal/core/errors"
	"tunnox-core/internal/core/idgen"
	"tunnox-core/internal/core/storage"
	"tunnox-core/internal/core/storage/hybrid"
	"tunnox-core/internal/core/storage/memory"
	"tunnox-core/verif/vkit"
)

// ---- (4b) the active-code quota over histories (no concurrency) -------------------------
//
// The quota must hold whatever the client's code index looks like: codes that were revoked or
// already used stay in the index (not active), and records lapse with their activation TTL while
// their index entry stays until the next listing removes it lazily. Histories over
// {create, revoke i, activate i, lapse the record of i} run on the real service over the memory
// backend used directly and over hybrid(memory); after every step the client's ACTIVE codes are
// counted by an independent scan of the stored records.

// readFaults is the storage facade of the history worlds: it can make one READ of the quota count (Get of a
// code record by id, GetList of a client's code index) fail with a transient error.
type readFaults struct {
	storage.FullStorage
	armed  bool
	failAt int
	seen   int
	fired  string
}

func (f *readFaults) hit(op, key string) error {
	if !f.armed {
		return nil
	}
	i := f.seen
	f.seen++
	if i == f.failAt {
		f.fired = op + " " + key
		return fmt.Errorf("%w (%s %s)", vkit.ErrGateFault, op, key)
	}
	return nil
}
func (f *readFaults) Get(k string) (any, error) {
	if strings.HasPrefix(k, "tunnox:runtime:conncode:id:") {
		if err := f.hit("Get", k); err != nil {
			return nil, err
		}
	}
	return f.FullStorage.Get(k)
}
func (f *readFaults) GetList(k string) ([]any, error) {
	if strings.HasPrefix(k, "tunnox:index:conncode:target:") {
		if err := f.hit("GetList", k); err != nil {
			return nil, err
		}
	}
	return f.FullStorage.GetList(k)
}

// tierFaults wraps the cache tier BELOW hybrid: it can make the k-th Get of a client's code index on that
// tier fail (k=0: the quota count's read, k=1: the read inside hybrid.AppendToList when the new code is indexed).
type tierFaults struct {
	*memory.Storage
	mu     sync.Mutex
	armed  bool
	failAt int
	seen   int
	fired  string
}

func (f *tierFaults) Get(k string) (any, error) {
	if strings.HasPrefix(k, "tunnox:index:conncode:target:") {
		f.mu.Lock()
		hit := false
		if f.armed {
			hit = f.seen == f.failAt
			f.seen++
			if hit {
				f.fired = "tier.Get " + k
			}
		}
		f.mu.Unlock()
		if hit {
			return nil, fmt.Errorf("%w (tier Get %s)", vkit.ErrGateFault, k)
		}
	}
	return f.Storage.Get(k)
}

type hworld struct {
	rf     *readFaults
	tf     *tierFaults // hybrid backends only
	pms    services.PortMappingService
	mapMax int
	cancel context.CancelFunc
	raw    *memory.Storage
	st     storage.Storage
	cc     *services.ConnectionCodeService
	next   int64 // next fresh client id
	used   int
}

func newHWorld(backend string, limit int) *hworld { return newHWorldQ(backend, limit, 1000) }

// backends: memory (used directly) | hybrid (memory as the only cache tier) | hybrid-shared (a node-local
// memory cache plus the observed memory store as SHARED cache tier, the multi-node configuration)
func newHWorldQ(backend string, limit, mapLimit int) *hworld {
	ctx, cancel := context.WithCancel(context.Background())
	w := &hworld{cancel: cancel, raw: memory.New(ctx), next: 74000000, mapMax: mapLimit}
	var under storage.FullStorage = w.raw
	switch backend {
	case "hybrid":
		w.tf = &tierFaults{Storage: w.raw}
		under = hybrid.NewWithSharedCache(ctx, w.tf, nil, nil, hybrid.DefaultConfig())
	case "hybrid-shared":
		w.tf = &tierFaults{Storage: w.raw}
		under = hybrid.NewWithSharedCache(ctx, memory.New(ctx), w.tf, nil, hybrid.DefaultConfig())
	}
	w.rf = &readFaults{FullStorage: under}
	w.st = w.rf
	repo := repos.NewRepository(w.st)
	pmRepo := repos.NewPortMappingRepo(repo)
	idm := idgen.NewIDManager(w.st, ctx)
	sp, _ := services.NewSimpleStatsProvider(w.st, ctx)
	pms := services.NewPortMappingService(pmRepo, idm, sp.GetCounter(), ctx)
	w.pms = pms
	w.cc = services.NewConnectionCodeService(repos.NewConnectionCodeRepository(repo), pms, repos.NewPortMappingRepo(repo),
		&services.ConnectionCodeServiceConfig{MaxActiveCodesPerClient: limit, MaxActiveMappingsPerClient: mapLimit}, ctx)
	return w
}

func (w *hworld) close() { w.cancel(); w.st.Close() }

// activeCodes: independent count from the stored records (not through the repository's index).
func (w *hworld) activeCodes(target int64) int {
	rawm, _ := w.raw.QueryByPrefix("tunnox:runtime:conncode:id:", 0)
	n := 0
	for _, v := range rawm {
		var c models.TunnelConnectionCode
		if json.Unmarshal([]byte(v), &c) == nil && c.TargetClientID == target && c.IsValidForActivation() {
			n++
		}
	}
	return n
}

// records: every stored record except the per-client code index lists (a listing may clean those lazily).
func (w *hworld) records() map[string]string {
	m, _ := w.raw.QueryByPrefix("tunnox:", 0)
	for k := range m {
		if strings.HasPrefix(k, "tunnox:index:conncode:target:") {
			delete(m, k)
		}
	}
	return m
}

type hcode struct {
	rec     *models.TunnelConnectionCode
	state   string // active | revoked | activated
	present bool
}

var hworlds = map[string]*hworld{}

// runHistory executes one history for a fresh client. w may be shared between histories (nil: own world).
func runHistory(t vkit.TB, w *hworld, c Case) bool {
	if w == nil {
		w = newHWorld(c.Backend, c.Limit)
		defer w.close()
	}
	w.next++
	w.used++
	target := w.next
	listen := target + 500000
	const base = "C17/max-active-codes-per-client/CreateConnectionCode/"
	var codes []*hcode
	active := func() int {
		n := 0
		for _, h := range codes {
			if h.present && h.state == "active" {
				n++
			}
		}
		return n
	}
	nontrivial := false
	for si, a := range c.Hist {
		idx := 0
		if len(a) > 1 && a[0] != 'C' {
			fmt.Sscanf(a[1:], "%d", &idx)
		}
		faultAt, tierAt := -1, -1
		if strings.HasPrefix(a, "Cf") {
			fmt.Sscanf(a[2:], "%d", &faultAt)
		}
		if strings.HasPrefix(a, "Ca") && w.tf != nil { // tier-level read fault (hybrid backends)
			fmt.Sscanf(a[2:], "%d", &tierAt)
		}
		var h *hcode
		if a[0] != 'C' {
			if idx >= len(codes) {
				continue
			}
			h = codes[idx]
		}
		switch a[0] {
		case 'C':
			before := active()
			stale := false // a not-active or lapsed entry is still listed in the index
			for _, x := range codes {
				if !x.present || x.state != "active" {
					stale = true
				}
			}
			snap := w.records()
			w.rf.armed, w.rf.failAt, w.rf.seen, w.rf.fired = faultAt >= 0, faultAt, 0, ""
			if w.tf != nil {
				w.tf.mu.Lock()
				w.tf.armed, w.tf.failAt, w.tf.seen, w.tf.fired = tierAt >= 0, tierAt, 0, ""
				w.tf.mu.Unlock()
			}
			rec, err := w.cc.CreateConnectionCode(&services.CreateConnectionCodeRequest{TargetClientID: target, TargetAddress: "tcp://10.0.0.9:80", ActivationTTL: time.Hour, CreatedBy: "verif"})
			w.rf.armed = false
			if w.tf != nil {
				w.tf.mu.Lock()
				w.tf.armed = false
				if w.tf.fired != "" {
					w.rf.fired = w.tf.fired
				}
				w.tf.mu.Unlock()
			}
			faulted := w.rf.fired != ""
			if err == nil {
				codes = append(codes, &hcode{rec: rec, state: "active", present: true})
			}
			got := w.activeCodes(target)
			if faulted {
				// under a transient read failure the create may fail (fail closed), but it must never be
				// admitted beyond the quota
				vkit.Class("history-read-fault:" + strings.SplitN(w.rf.fired, " ", 2)[0])
				if got > c.Limit {
					vkit.Violation(t, base+"over-admission-under-read-fault/backend="+c.Backend, fmt.Sprintf("backend=%s, quota %d, history %s (step %d): %d active before; the quota count's read %q failed; create -> err=%v, %d active codes stored now", c.Backend, c.Limit, strings.Join(c.Hist, " "), si, before, w.rf.fired, err, got), c)
					return false
				}
				if before >= c.Limit {
					nontrivial = true
				}
				break
			}
			where := fmt.Sprintf("backend=%s, quota %d, history %s (step %d): %d active before, create -> err=%v, %d active codes stored now", c.Backend, c.Limit, strings.Join(c.Hist, " "), si, before, err, got)
			switch {
			case got > c.Limit:
				vkit.Violation(t, base+"over-admission-after-history/backend="+c.Backend, where, c)
				return false
			case before < c.Limit && err != nil:
				vkit.Violation(t, base+"refused-below-limit-after-history/backend="+c.Backend, where, c)
				return false
			case before >= c.Limit && err != nil && !coreerrors.IsCode(err, coreerrors.CodeQuotaExceeded):
				vkit.Violation(t, base+"refused-with-unexpected-error/backend="+c.Backend, where, c)
				return false
			case before >= c.Limit && err != nil:
				if d := diffSnap(snap, w.records()); d != "" {
					vkit.Violation(t, base+"refusal-changed-state-after-history/backend="+c.Backend, where+"; records changed: "+d, c)
					return false
				}
			}
			if before >= c.Limit && stale {
				nontrivial = true
			}
		case 'R':
			if err := w.cc.RevokeConnectionCode(h.rec.Code, "verif"); err == nil && h.state == "active" {
				h.state = "revoked"
			}
		case 'A':
			if _, err := w.cc.ActivateConnectionCode(&services.ActivateConnectionCodeRequest{Code: h.rec.Code, ListenClientID: listen, ListenAddress: fmt.Sprintf("0.0.0.0:%d", 9000+si)}); err == nil && h.state == "active" {
				h.state = "activated"
			}
		case 'L':
			// the record lapses with its activation TTL (both copies and its claim); the index entry stays
			w.raw.Delete("tunnox:runtime:conncode:id:" + h.rec.ID)
			w.raw.Delete("tunnox:runtime:conncode:code:" + h.rec.Code)
			w.raw.Delete("tunnox:runtime:conncode:claim:" + h.rec.Code)
			h.present = false
		}
		if got := w.activeCodes(target); got != active() {
			vkit.Violation(t, "C17/harness/history-model-mismatch", fmt.Sprintf("backend=%s history %s step %d: model %d active, store %d", c.Backend, strings.Join(c.Hist, " "), si, active(), got), c)
			return false
		}
	}
	vkit.Case(fmt.Sprintf("code-quota-history/%s/limit=%d", c.Backend, c.Limit), nontrivial, fmt.Sprintf("%s|%d|%s", c.Backend, c.Limit, strings.Join(c.Hist, " ")))
	return true
}

// TestQuotaHistoriesExhaustive: every history up to a depth over a small alphabet, both backends.
func TestQuotaHistoriesExhaustive(t *testing.T) {
	type space struct {
		limit, depth int
		alpha        []string
	}
	spaces := []space{
		{1, 5, []string{"C", "R0", "R1", "A0", "L0", "L1"}},
		{2, 6, []string{"C", "R0", "A1", "L0", "L1"}},
	}
	for q := 1; q <= 3; q++ { // creates whose k-th quota-count read fails (k=0: the index list, k>=1: a code record)
		spaces = append(spaces, space{q, 5, []string{"C", "Cf0", "Cf1", "Cf2", "Cf3", "R0", "L0"}})
		// reads of the index on the cache tier below hybrid: the count's read and the read inside the list append
		spaces = append(spaces, space{q, 5, []string{"C", "Ca0", "Ca1", "R0", "L0"}})
	}
	if vkit.Thorough() {
		spaces = append(spaces, space{3, 7, []string{"C", "R0", "R1", "L0", "L1"}}, space{2, 7, []string{"C", "R0", "A0", "L0", "L1", "L2"}})
	}
	total := 0
	for _, sp := range spaces {
		for _, backend := range []string{"memory", "hybrid", "hybrid-shared"} {
			if backend == "hybrid-shared" && !strings.Contains(strings.Join(sp.alpha, ","), "Ca") {
				continue
			}
			w := newHWorld(backend, sp.limit)
			n := 1
			for i := 0; i < sp.depth; i++ {
				n *= len(sp.alpha)
			}
			for i := 0; i < n; i++ {
				if !vkit.Mine(i) {
					continue
				}
				hist := make([]string, sp.depth)
				for x, j := i, 0; j < sp.depth; j++ {
					hist[j] = sp.alpha[x%len(sp.alpha)]
					x /= len(sp.alpha)
				}
				if hist[0] != "C" || hist[sp.depth-1][0] != 'C' { // histories start and end with a create (others are prefixes/no-ops)
					continue
				}
				if w.used >= 40 { // keep the independent scan cheap
					w.close()
					w = newHWorld(backend, sp.limit)
				}
				if !runHistory(t, w, Case{Kind: "code-quota-history", Limit: sp.limit, Backend: backend, Hist: hist}) {
					w.close()
					return
				}
				total++
			}
			w.close()
			vkit.Exhaustive(fmt.Sprintf("histories:code-quota/%s/limit=%d/depth=%d/alphabet=%s", backend, sp.limit, sp.depth, strings.Join(sp.alpha, ",")), true)
		}
	}
	vkit.AddExtra("quota_histories_enumerated", int64(total))
}

func TestQuotaHistoriesRandom(t *testing.T) {
	vkit.Check(t, 2400, 40000, func(t *rapid.T) {
		c := Case{Kind: "code-quota-history", Limit: rapid.IntRange(1, 3).Draw(t, "quota"), Backend: rapid.SampledFrom([]string{"memory", "hybrid", "hybrid-shared"}).Draw(t, "backend")}
		step := rapid.Custom(func(t *rapid.T) string {
			k := rapid.SampledFrom([]string{"C", "C", "C", "C", "Cf", "R", "R", "A", "L", "L", "L"}).Draw(t, "op")
			if k == "C" {
				return k
			}
			if k == "Cf" {
				if rapid.Bool().Draw(t, "tierLevel") {
					return fmt.Sprintf("Ca%d", rapid.IntRange(0, 1).Draw(t, "failingTierRead"))
				}
				return fmt.Sprintf("Cf%d", rapid.IntRange(0, 4).Draw(t, "failingRead"))
			}
			return fmt.Sprintf("%s%d", k, rapid.IntRange(0, 4).Draw(t, "code"))
		})
		c.Hist = append([]string{"C"}, rapid.SliceOfN(step, 3, 14).Draw(t, "history")...)
		runHistory(t, nil, c)
	})
}
