package c17

import (
	"fmt"
	"testing"
	"time"

	"pgregory.net/rapid"

	"tunnox-core/internal/cloud/services"
	coreerrors "tunnox-core/internal/core/errors"
	"tunnox-core/verif/vkit"
)

// ---- (4c) the active-mapping quota when the client's mapping index is rewritten concurrently ----
//
// The quota count reads the client's mapping index. Programs that modify that index concurrently
// for ONE listen client (delete a mapping || activate a code, delete || delete, revoke a mapping ||
// activate) run under the gate scheduler with every operation on tunnox:client_mappings:<client> a
// scheduling point; afterwards the client activates fresh codes one after another until it is
// refused. The client's ACTIVE mappings, counted by an independent scan of the mapping records,
// must never exceed the quota (a mapping that fell out of the index is active but no longer counted).

var indexProgs = []string{"delete||activate", "delete||delete", "revoke||activate", "delete||activate||activate"}

func runIndexProg(c Case, choose func(int, []string) int) qres {
	var r qres
	p := c.Limit
	idxKey := fmt.Sprintf("tunnox:client_mappings:%d", quotaListen)
	w := newQWorldOn(c.Backend, 1, &services.ConnectionCodeServiceConfig{MaxActiveCodesPerClient: 10, MaxActiveMappingsPerClient: p}, true, func(k string) bool { return k == idxKey })
	defer w.close()
	n := w.nodes[0]
	r.class = fmt.Sprintf("mapping-index/%s/%s/quota=%d", c.Mode, c.Backend, p)
	target := int64(75000000)
	newCode := func() (string, error) {
		target++
		cc, err := n.cc.CreateConnectionCode(&services.CreateConnectionCodeRequest{TargetClientID: target, TargetAddress: "tcp://10.0.0.9:80", ActivationTTL: time.Hour, CreatedBy: "verif"})
		if err != nil {
			return "", err
		}
		return cc.Code, nil
	}
	port := 9000
	activate := func(code string) (string, error) {
		port++
		m, err := n.cc.ActivateConnectionCode(&services.ActivateConnectionCodeRequest{Code: code, ListenClientID: quotaListen, ListenAddress: fmt.Sprintf("0.0.0.0:%d", port)})
		if err != nil {
			return "", err
		}
		return m.ID, nil
	}
	setupFail := func(err error) qres { r.key, r.detail = "C17/harness/setup", err.Error(); return r }
	// ---- set-up (ungated) ------------------------------------------------------------
	pre := 1
	if c.Mode == "delete||delete" {
		pre = 2
	}
	var existing []string
	for i := 0; i < pre; i++ {
		code, err := newCode()
		if err != nil {
			return setupFail(err)
		}
		id, err := activate(code)
		if err != nil {
			return setupFail(err)
		}
		existing = append(existing, id)
	}
	var racing []string
	for i := 0; i < 2; i++ {
		code, err := newCode()
		if err != nil {
			return setupFail(err)
		}
		racing = append(racing, code)
	}
	// ---- concurrent phase -------------------------------------------------------------
	w.g.Activate()
	var errs [3]error
	switch c.Mode {
	case "delete||activate", "delete||activate||activate":
		w.g.Go("D1", func() { errs[0] = n.pms.DeletePortMapping(existing[0]) })
		w.g.Go("A1", func() { _, errs[1] = activate2(n, racing[0], 9501) })
		if c.Mode == "delete||activate||activate" {
			w.g.Go("A2", func() { _, errs[2] = activate2(n, racing[1], 9502) })
		}
	case "delete||delete":
		w.g.Go("D1", func() { errs[0] = n.pms.DeletePortMapping(existing[0]) })
		w.g.Go("D2", func() { errs[1] = n.pms.DeletePortMapping(existing[1]) })
	case "revoke||activate":
		w.g.Go("RV", func() { errs[0] = n.cc.RevokeMapping(existing[0], quotaListen, "verif") })
		w.g.Go("A1", func() { _, errs[1] = activate2(n, racing[0], 9501) })
	}
	r.log = w.g.Run(choose)
	w.g.Deactivate()
	if w.g.Aborted {
		r.key, r.detail = "C17/harness/schedule-aborted", vkit.StepsString(r.log)
		return r
	}
	// interleaved: an index operation of one task lies between two index operations of another
	first, last := map[string]int{}, map[string]int{}
	for i, s := range r.log {
		if _, ok := first[s.Task]; !ok {
			first[s.Task] = i
		}
		last[s.Task] = i
	}
	for a := range first {
		for b := range first {
			if a != b && first[b] > first[a] && first[b] < last[a] {
				r.overlap = true
			}
		}
	}
	afterRace := w.activeMappings(quotaListen)
	// ---- the client goes on activating codes until it is refused ----------------------------
	admitted := 0
	for i := 0; i < p+3; i++ {
		code, err := newCode()
		if err != nil {
			return setupFail(err)
		}
		if _, err := activate(code); err != nil {
			if coreerrors.IsCode(err, coreerrors.CodeQuotaExceeded) {
				r.refused++
			}
			break
		}
		admitted++
	}
	r.successes = admitted
	r.final = w.activeMappings(quotaListen)
	if r.final > p {
		r.key = fmt.Sprintf("C17/max-active-mappings-per-client/index-entry-lost/backend=%s/%s", c.Backend, c.Mode)
		r.detail = fmt.Sprintf("quota %d: after %s (outcomes %v) the client had %d active mapping(s); %d further activations one after another were admitted: %d active mappings stored; schedule: %s",
			p, c.Mode, errs[:], afterRace, admitted, r.final, normLog(r.log))
	}
	return r
}

func activate2(n *qnode, code string, port int) (string, error) {
	m, err := n.cc.ActivateConnectionCode(&services.ActivateConnectionCodeRequest{Code: code, ListenClientID: quotaListen, ListenAddress: fmt.Sprintf("0.0.0.0:%d", port)})
	if err != nil {
		return "", err
	}
	return m.ID, nil
}

func reportIndex(t vkit.TB, c Case, r qres) {
	sig := fmt.Sprintf("%s|%s|%s|%d|%s", c.Kind, c.Mode, c.Backend, c.Limit, normLog(r.log))
	if r.key != "" {
		vkit.Violation(t, r.key, r.detail, c)
		vkit.Case("known:"+r.class, r.overlap, sig)
		return
	}
	vkit.Case(r.class, r.overlap, sig)
}

// TestMappingIndexExhaustive: every schedule (index-operation granularity) of every program, quota 2..3, both backends.
func TestMappingIndexExhaustive(t *testing.T) {
	idx := 0
	for _, prog := range indexProgs {
		for _, backend := range []string{"memory", "hybrid"} {
			for p := 2; p <= 3; p++ {
				idx++
				if !vkit.Mine(idx) {
					continue
				}
				c := Case{Kind: "mapping-index", Mode: prog, Backend: backend, Limit: p}
				d := &qdfs{}
				n, capN := 0, vkit.Pick(400, 20000)
				for {
					r := runIndexProg(c, d.Choose)
					cc := c
					cc.Picks = append([]int(nil), d.trace...)
					reportIndex(t, cc, r)
					n++
					if !d.Next() || n >= capN {
						break
					}
				}
				vkit.Exhaustive(fmt.Sprintf("schedules:mapping-index/%s/%s/quota=%d", prog, backend, p), n < capN && d.Diverged == 0)
				vkit.AddExtra("dfs_schedules", int64(n))
			}
		}
	}
}

func TestMappingIndexRandom(t *testing.T) {
	vkit.Check(t, 800, 12000, func(t *rapid.T) {
		c := Case{Kind: "mapping-index",
			Mode:    rapid.SampledFrom(indexProgs).Draw(t, "program"),
			Backend: rapid.SampledFrom([]string{"memory", "hybrid"}).Draw(t, "backend"),
			Limit:   rapid.IntRange(2, 3).Draw(t, "quota"),
		}
		c.Picks = rapid.SliceOfN(rapid.IntRange(0, 2), 0, 30).Draw(t, "picks")
		p := &vkit.Picks{List: c.Picks}
		reportIndex(t, c, runIndexProg(c, p.Choose))
	})
}
