package c17

import (
	"fmt"
	"sync/atomic"
	"testing"
	"time"

	"pgregory.net/rapid"

	"tunnox-core/internal/client/tunnel"
	"tunnox-core/verif/vkit"
)

// ---- (3b) per-mapping limit with tunnels closed from outside right as they start -------
//
// Close notifications reach a mapping's tunnels through its TunnelManager (peer "tunnel closed"
// notification, fatal tunnel-error notification, CloseTunnel/CloseAll). Here a closer goroutine per
// dialed tunnel spins on the real manager until the tunnel is registered and delivers such a
// notification at once, so that closes land before, around and right after Tunnel.Start. Over the
// whole round the number of simultaneously open tunnels must never exceed the limit, and at
// quiescence the handler's slot accounting must equal the live tunnels: offering connections until
// the first refusal must end with exactly `limit` tunnels open.

// feedOne offers one connection and waits for its own outcome (admitted by the limit check and dialed
// through, or refused).
func (r *mappingRig) feedOne() (ok, admitted bool) {
	before := r.admitted
	if !r.feed(1) {
		return false, false
	}
	return true, r.admitted > before
}

func roundMappingCloser(t vkit.TB, c Case) {
	source := "mapping"
	if len(c.Ops) > 0 && c.Ops[0] == 1 {
		source = "user"
	}
	kind, delay, mask := 0, 0, 0xffff
	if len(c.Ops) > 3 {
		kind, delay, mask = c.Ops[1], c.Ops[2], c.Ops[3]
	}
	r, err := newMappingRig(c.Limit, source)
	if err != nil {
		vkit.Violation(t, "C17/harness/mapping-rig", err.Error(), c)
		return
	}
	defer r.close()
	k := c.Limit
	mgr := r.h.GetTunnelManager()
	// closers in flight: a counter instead of a WaitGroup (a handler that saw active==true may still register
	// its closer while the test goroutine has started waiting; WaitGroup forbids Add concurrent with Wait)
	var pending atomic.Int32
	var active atomic.Bool
	var delivered atomic.Int32
	active.Store(true)
	r.cl.onDial = func(i int, tunnelID, mappingID string) {
		if !active.Load() || mask&(1<<(i%16)) == 0 {
			return
		}
		started := make(chan struct{})
		pending.Add(1)
		go func() {
			defer pending.Add(-1)
			close(started)
			deadline := time.Now().Add(50 * time.Millisecond)
			for spins := 0; mgr.GetTunnel(tunnelID) == nil; spins++ {
				if spins%512 == 511 && time.Now().After(deadline) {
					return
				}
			}
			for i := 0; i < delay; i++ {
				_ = mgr.GetTunnel(tunnelID)
			}
			delivered.Add(1)
			switch kind {
			case 0: // peer's tunnel-closed notification
				mgr.OnTunnelClosed(tunnelID, mappingID, "peer_closed", 0, 0, 0)
			case 1: // fatal tunnel-error notification
				mgr.OnTunnelError(tunnelID, mappingID, "TARGET_UNREACHABLE", "dial failed", false)
			default:
				mgr.CloseTunnel(tunnelID, tunnel.CloseReasonPeerClosed)
			}
		}()
		<-started // the closer is running (spinning on the manager) before the handler goes on to register and start the tunnel
	}
	const pfx = "C17/mapping-max-connections/handleConnection/"
	kinds := []string{"peer-closed-notification", "fatal-error-notification", "CloseTunnel"}
	class := fmt.Sprintf("mapping-cap/limit=%d/%s/closer=%s", k, source, kinds[kind%3])
	for i := 0; i < c.Feed; i++ {
		if ok, _ := r.feedOne(); !ok {
			vkit.Skipped(1)
			return
		}
	}
	active.Store(false)
	// every offered connection has been dialed (feedOne waits for that), so every hook has run and registered
	// its closer; wait for the closers to finish
	for wait := time.Now().Add(5 * time.Second); pending.Load() > 0 && time.Now().Before(wait); {
		time.Sleep(200 * time.Microsecond)
	}
	// quiescence: every tunnel the manager knows is open and vice versa
	for i := 0; i < 400 && mgr.CountTunnels() != int(r.cl.open.cur.Load()); i++ {
		time.Sleep(500 * time.Microsecond)
	}
	// fill up: offer connections until the first refusal that is not transient
	extra := 0
	for tries := 0; extra < k+3 && tries < 400; {
		ok, admitted := r.feedOne()
		if !ok {
			vkit.Skipped(1)
			return
		}
		if admitted {
			extra++
			continue
		}
		if int(r.cl.open.cur.Load()) >= k {
			break
		}
		// refused below the limit: a closing tunnel may not have released its slot yet; wait and retry
		tries++
		time.Sleep(2 * time.Millisecond)
	}
	open, openMax := int(r.cl.open.cur.Load()), r.cl.open.Max()
	detail := fmt.Sprintf("MaxConnections=%d (from %s); %d connections offered one after another while %d of their tunnels were closed through the TunnelManager (%s) right as they were registered; then connections offered until refusal: %d more admitted; tunnels open now %d, at most %d open at the same time",
		k, source, c.Feed, delivered.Load(), kinds[kind%3], extra, open, openMax)
	sig := fmt.Sprintf("%s|%d|%s|%v|%d", c.Kind, k, source, c.Ops, c.Feed)
	switch {
	case openMax > k:
		vkit.Violation(t, pfx+"over-admission-after-close-racing-start", detail, c)
	case open < k:
		vkit.Violation(t, pfx+"slot-lost-after-close-racing-start", detail, c)
	default:
		vkit.Case(class, delivered.Load() > 0, sig)
	}
}

func TestMappingCloser(t *testing.T) {
	vkit.Check(t, 2400, 24000, func(t *rapid.T) {
		c := Case{Kind: "mapping-cap", Mode: "closer", Rounds: 200}
		c.Limit = rapid.SampledFrom([]int{1, 2, 2, 3}).Draw(t, "limit")
		c.Ops = []int{
			rapid.IntRange(0, 1).Draw(t, "limitFromUserQuota"),
			rapid.IntRange(0, 2).Draw(t, "closeKind"),
			rapid.SampledFrom([]int{0, 0, 0, 20, 200, 2000}).Draw(t, "delaySpins"),
			rapid.SampledFrom([]int{0xffff, 0xffff, 0x5555, 0x7777, 0x1111}).Draw(t, "closeMask"),
		}
		c.Feed = rapid.IntRange(3, 12).Draw(t, "arrivals")
		roundMappingCloser(t, c)
	})
}
