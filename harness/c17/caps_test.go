package c17

import (
	"context"
	"fmt"
	"io"
	"net"
	"sort"
	"strings"
	"sync"
	"sync/atomic"
	"testing"
	"time"

	"pgregory.net/rapid"

	"tunnox-core/internal/core/idgen"
	"tunnox-core/internal/core/storage/memory"
	"tunnox-core/internal/protocol/session"
	"tunnox-core/verif/vkit"
)

// ---- (1) server-wide connection cap: SessionManager.CreateConnection ------------------

type nopRW struct{}

func (nopRW) Read([]byte) (int, error)    { return 0, io.EOF }
func (nopRW) Write(p []byte) (int, error) { return len(p), nil }

// rvRW is a transport double with a connection-id hook. CreateConnection asks it for a custom id in
// the middle of the admission path (after any early limit check, before the stream is created and the
// connection is registered); the hook lets the racers of a round meet there (bounded wait) and then
// answers "no custom id".
type rvRW struct {
	nopRW
	want    int32
	arrived *atomic.Int32
}

func (r rvRW) GetConnectionID() string {
	r.arrived.Add(1)
	deadline := time.Now().Add(300 * time.Microsecond)
	for spins := 0; r.arrived.Load() < r.want; spins++ {
		if spins%256 == 255 && time.Now().After(deadline) {
			break
		}
	}
	return ""
}

func newSM(maxConn, maxControl int) (*session.SessionManager, func()) {
	ctx, cancel := context.WithCancel(context.Background())
	st := memory.New(ctx)
	sm := session.NewSessionManagerWithConfig(idgen.NewIDManager(st, ctx), ctx, &session.SessionConfig{
		HeartbeatTimeout: time.Hour, CleanupInterval: time.Hour, MaxConnections: maxConn, MaxControlConnections: maxControl})
	return sm, func() { sm.Close(); cancel(); st.Close() }
}

func smSnapshot(sm *session.SessionManager) string {
	var ids []string
	for _, c := range sm.ListConnections() {
		ids = append(ids, c.ID)
	}
	sort.Strings(ids)
	streams := sm.GetStreamManager().ListStreams()
	sort.Strings(streams)
	st := sm.GetConnectionStats()
	return fmt.Sprintf("conns=%v streams=%v stats=%+v", ids, streams, st)
}

func roundServerCap(t vkit.TB, c Case) {
	sm, closeSM := newSM(c.Limit, 0)
	defer closeSM()
	const pfx = "C17/max-connections/CreateConnection/"
	g := &gauge{}
	var idMu sync.Mutex
	admittedIDs := map[string]bool{} // every connection the server ever admitted in this round
	for i := 0; i < c.Occ; i++ {
		conn, err := sm.CreateConnection(nopRW{}, nopRW{})
		if err != nil {
			vkit.Violation(t, pfx+"refused-below-limit", fmt.Sprintf("limit %d, %d connections: %v", c.Limit, i, err), c)
			return
		}
		admittedIDs[conn.ID] = true
		g.Inc()
	}
	class := fmt.Sprintf("server-cap/limit=%d/%s", c.Limit, c.Mode)
	if c.Mode == "sequential" {
		// at the limit: one more request must be refused and change nothing
		before := smSnapshot(sm)
		conn, err := sm.CreateConnection(nopRW{}, nopRW{})
		after := smSnapshot(sm)
		switch {
		case c.Limit == 0 || c.Occ < c.Limit:
			if err != nil {
				vkit.Violation(t, pfx+"refused-below-limit", fmt.Sprintf("limit %d (0 = unlimited), %d connections: %v", c.Limit, c.Occ, err), c)
				return
			}
		case err == nil && conn != nil:
			vkit.Violation(t, pfx+"over-admission-sequential", fmt.Sprintf("limit %d, %d connections open, one more admitted without any concurrency: %s", c.Limit, c.Occ, after), c)
			return
		case before != after:
			vkit.Violation(t, pfx+"refusal-changed-state", fmt.Sprintf("before: %s after: %s", before, after), c)
			return
		}
		vkit.Case(class, true, fmt.Sprintf("%s|%d|%d", c.Kind, c.Limit, c.Occ))
		return
	}
	obs := observe(func() int { return sm.GetConnectionStats().TotalConnections })
	var refused, admitted atomic32
	var arrived atomic.Int32
	inflight := contend(c.Racers, func(i int) {
		have := ""
		for k := 0; k < c.Ops[i]; k++ {
			if have != "" {
				g.Dec()
				sm.CloseConnection(have)
				if (i+k)%2 == 0 {
					// the same id is closed a second time (routine: a sweep / kick / disconnect closes it, then
					// the transport's read-loop cleanup closes it again)
					sm.CloseConnection(have)
				}
				have = ""
			}
			var rd io.Reader = nopRW{}
			if c.Amp && k == 0 {
				rd = rvRW{want: int32(c.Racers), arrived: &arrived}
			}
			conn, err := sm.CreateConnection(rd, nopRW{})
			if err == nil && conn != nil {
				g.Inc()
				admitted.Add(1)
				have = conn.ID
				idMu.Lock()
				admittedIDs[conn.ID] = true
				idMu.Unlock()
			} else {
				refused.Add(1)
			}
		}
	})
	seen := obs.Stop()
	final := sm.GetConnectionStats().TotalConnections
	detail := fmt.Sprintf("MaxConnections=%d, %d connections open, %d racers (max %d calls in flight): gauge of simultaneously admitted connections reached %d, observer saw TotalConnections=%d, final TotalConnections=%d, admitted %d refused %d",
		c.Limit, c.Occ, c.Racers, inflight, g.Max(), seen, final, admitted.Load(), refused.Load())
	nt := inflight >= 2
	if c.Limit > 0 && (g.Max() > c.Limit || seen > c.Limit || final > c.Limit) {
		vkit.Violation(t, pfx+"over-admission-under-contention", detail, c)
		vkit.Case("known:"+class, nt, fmt.Sprintf("%s|%d|%d|%v", c.Kind, c.Limit, c.Racers, c.Ops))
		return
	}
	if c.Limit == 0 && refused.Load() > 0 {
		vkit.Violation(t, pfx+"refused-although-unlimited", detail, c)
		return
	}
	if final != int(g.cur.Load()) {
		vkit.Violation(t, pfx+"count-differs-from-admissions", detail, c)
		return
	}
	// a refused request changes no state: everything the admission path touches must belong to an admitted
	// connection. (CloseConnection leaves the stream of a closed connection registered, so the registered
	// streams are compared with the connections ever admitted, not with the open ones.)
	streamMgr := sm.GetStreamManager()
	var foreign []string
	for _, id := range streamMgr.ListStreams() {
		if !admittedIDs[id] {
			foreign = append(foreign, id)
		}
	}
	if len(foreign) > 0 || streamMgr.GetStreamCount() > len(admittedIDs) {
		vkit.Violation(t, pfx+"refusal-changed-state/stream-left-registered", fmt.Sprintf("%d stream(s) registered in the StreamManager belong to no admitted connection (%d registered, %d connections ever admitted, %d requests refused): %v; %s",
			len(foreign), streamMgr.GetStreamCount(), len(admittedIDs), refused.Load(), foreign, detail), c)
		return
	}
	for _, cn := range sm.ListConnections() {
		if _, ok := streamMgr.GetStream(cn.ID); !ok || !admittedIDs[cn.ID] {
			vkit.Violation(t, pfx+"admitted-connection-inconsistent", fmt.Sprintf("connection %s: stream registered=%v, admitted to a caller=%v; %s", cn.ID, ok, admittedIDs[cn.ID], detail), c)
			return
		}
	}
	if st := sm.GetConnectionStats(); st.ControlConnections != 0 || st.TunnelConnections != 0 {
		vkit.Violation(t, pfx+"refusal-changed-state/registries", fmt.Sprintf("%+v; %s", st, detail), c)
		return
	}
	if c.Amp {
		class += "/racers-meet-inside-admission"
	}
	vkit.Case(class, nt, fmt.Sprintf("%s|%d|%d|%v|%v", c.Kind, c.Limit, c.Racers, c.Ops, c.Amp))
}

type atomic32 struct {
	mu sync.Mutex
	v  int
}

func (a *atomic32) Add(n int) { a.mu.Lock(); a.v += n; a.mu.Unlock() }
func (a *atomic32) Load() int { a.mu.Lock(); defer a.mu.Unlock(); return a.v }

// roundServerCapHistory: sequential history at the cap in which connection ids are closed more than once
// (and ids that never existed are closed); afterwards connections are accepted until the first refusal.
// Ground truth = the connections the server admitted and the harness has not closed.
func roundServerCapHistory(t vkit.TB, c Case) {
	sm, closeSM := newSM(c.Limit, 0)
	defer closeSM()
	const pfx = "C17/max-connections/CreateConnection/"
	var live []string
	for i := 0; i < c.Limit; i++ {
		conn, err := sm.CreateConnection(nopRW{}, nopRW{})
		if err != nil {
			vkit.Violation(t, pfx+"refused-below-limit", err.Error(), c)
			return
		}
		live = append(live, conn.ID)
	}
	var closedIDs []string
	for _, op := range c.Ops { // op: 0 close a live one once, 1 close a live one twice, 2 close an already closed id again, 3 close an unknown id
		switch {
		case op <= 1 && len(live) > 0:
			id := live[len(live)-1]
			live = live[:len(live)-1]
			sm.CloseConnection(id)
			if op == 1 {
				sm.CloseConnection(id)
			}
			closedIDs = append(closedIDs, id)
		case op == 2 && len(closedIDs) > 0:
			sm.CloseConnection(closedIDs[0])
		case op == 3:
			sm.CloseConnection("conn_never-existed")
		}
	}
	admitted := 0
	for i := 0; i < c.Limit+3; i++ {
		conn, err := sm.CreateConnection(nopRW{}, nopRW{})
		if err != nil {
			break
		}
		live = append(live, conn.ID)
		admitted++
	}
	total := sm.GetConnectionStats().TotalConnections
	detail := fmt.Sprintf("MaxConnections=%d; filled to the cap, close history %v (0 once, 1 the same id twice, 2 an already closed id again, 3 an unknown id), then accepted until refusal: %d more admitted; the harness holds %d admitted, unclosed connections, TotalConnections=%d",
		c.Limit, c.Ops, admitted, len(live), total)
	switch {
	case len(live) > c.Limit || total > c.Limit:
		vkit.Violation(t, pfx+"over-admission-after-repeated-close", detail, c)
	case len(live) < c.Limit:
		vkit.Violation(t, pfx+"refused-below-limit-after-repeated-close", detail, c)
	default:
		vkit.Case(fmt.Sprintf("server-cap/limit=%d/close-history", c.Limit), true, fmt.Sprintf("caphist|%d|%v", c.Limit, c.Ops))
	}
}

func TestServerCapCloseHistories(t *testing.T) {
	// every close history of length <= 3 over the four close kinds, limits 1, 2, 5
	n := 0
	for _, lim := range []int{1, 2, 5} {
		for length := 1; length <= 3; length++ {
			total := 1
			for i := 0; i < length; i++ {
				total *= 4
			}
			for x := 0; x < total; x++ {
				n++
				if !vkit.Mine(n) {
					continue
				}
				ops := make([]int, length)
				for y, j := x, 0; j < length; j++ {
					ops[j] = y % 4
					y /= 4
				}
				roundServerCapHistory(t, Case{Kind: "server-cap", Mode: "close-history", Limit: lim, Ops: ops})
			}
		}
	}
	vkit.Exhaustive("server-cap close histories (length<=3, limits 1,2,5)", true)
}

func TestServerCap(t *testing.T) {
	// deterministic boundary (every limit value, at and below the limit)
	if vkit.Shard() == 0 {
		for _, lim := range []int{0, 1, 2, 5} {
			for occ := 0; occ <= lim+0; occ++ {
				roundServerCap(t, Case{Kind: "server-cap", Limit: lim, Occ: occ, Mode: "sequential"})
			}
			if lim == 0 {
				roundServerCap(t, Case{Kind: "server-cap", Limit: 0, Occ: 7, Mode: "sequential"})
			}
		}
	}
	vkit.Check(t, 9600, 96000, func(t *rapid.T) {
		lim := rapid.SampledFrom([]int{0, 1, 1, 2, 5}).Draw(t, "limit")
		c := Case{Kind: "server-cap", Limit: lim, Mode: "concurrent", Rounds: 300}
		c.Occ = lim - 1
		if lim == 0 {
			c.Occ = rapid.IntRange(0, 3).Draw(t, "occupancy")
		}
		c.Racers = rapid.SampledFrom(racerCounts()).Draw(t, "racers")
		c.Ops = rapid.SliceOfN(rapid.IntRange(1, 3), c.Racers, c.Racers).Draw(t, "ops")
		c.Amp = rapid.SampledFrom([]bool{false, false, true}).Draw(t, "racersMeetInsideAdmission")
		roundServerCap(t, c)
	})
}

// ---- (2) control-connection cap: ClientRegistry.Register through the SessionManager ----

type tcpAddr struct{}

func (tcpAddr) Network() string { return "tcp" }
func (tcpAddr) String() string  { return "10.1.2.3:4000" }

var _ net.Addr = tcpAddr{}

func roundControlCap(t vkit.TB, c Case) {
	sm, closeSM := newSM(0, c.Limit)
	defer closeSM()
	reg := sm.GetClientRegistry()
	const pfx = "C17/max-control-connections/Register/"
	mk := func(id string) *session.ControlConnection {
		return session.NewControlConnection(id, nil, tcpAddr{}, "tcp")
	}
	ids := func() string {
		var s []string
		for _, cc := range reg.List() {
			s = append(s, cc.ConnID)
		}
		sort.Strings(s)
		return strings.Join(s, ",")
	}
	for i := 0; i < c.Occ; i++ {
		sm.RegisterControlConnection(mk(fmt.Sprintf("occ-%d", i)))
		time.Sleep(time.Microsecond) // distinct CreatedAt ordering for "oldest"
	}
	if got := reg.Count(); got != c.Occ {
		vkit.Violation(t, pfx+"registration-lost-below-limit", fmt.Sprintf("limit %d: registered %d, Count()=%d", c.Limit, c.Occ, got), c)
		return
	}
	class := fmt.Sprintf("control-cap/limit=%d/%s", c.Limit, c.Mode)
	if c.Mode == "sequential" {
		sm.RegisterControlConnection(mk("extra"))
		got := reg.Count()
		if c.Limit > 0 && got > c.Limit {
			vkit.Violation(t, pfx+"over-admission-sequential", fmt.Sprintf("limit %d, %d registered, one more Register: Count()=%d [%s]", c.Limit, c.Occ, got, ids()), c)
			return
		}
		if (c.Limit == 0 || c.Occ < c.Limit) && (got != c.Occ+1 || reg.GetByConnID("extra") == nil) {
			vkit.Violation(t, pfx+"registration-lost-below-limit", fmt.Sprintf("limit %d, %d registered, one more Register: Count()=%d [%s]", c.Limit, c.Occ, got, ids()), c)
			return
		}
		vkit.Case(class, true, fmt.Sprintf("%s|%d|%d", c.Kind, c.Limit, c.Occ))
		return
	}
	obs := observe(reg.Count)
	inflight := contend(c.Racers, func(i int) {
		for k := 0; k < c.Ops[i]; k++ {
			sm.RegisterControlConnection(mk(fmt.Sprintf("r%d-%d", i, k)))
		}
	})
	seen := obs.Stop()
	final := reg.Count()
	total := c.Occ
	for _, n := range c.Ops {
		total += n
	}
	detail := fmt.Sprintf("MaxControlConnections=%d, %d registered, %d racers (max %d in flight) registering %d more: observer saw Count()=%d, final Count()=%d, listed %d",
		c.Limit, c.Occ, c.Racers, inflight, total-c.Occ, seen, final, len(reg.List()))
	nt := inflight >= 2
	if c.Limit > 0 && (seen > c.Limit || final > c.Limit || len(reg.List()) > c.Limit) {
		vkit.Violation(t, pfx+"over-admission-under-contention", detail, c)
		return
	}
	if c.Limit == 0 && final != total {
		vkit.Violation(t, pfx+"registration-lost-although-unlimited", detail, c)
		return
	}
	vkit.Case(class, nt, fmt.Sprintf("%s|%d|%d|%v", c.Kind, c.Limit, c.Racers, c.Ops))
}

func TestControlCap(t *testing.T) {
	if vkit.Shard() == 0 {
		for _, lim := range []int{0, 1, 2, 3} {
			for occ := 0; occ <= lim; occ++ {
				roundControlCap(t, Case{Kind: "control-cap", Limit: lim, Occ: occ, Mode: "sequential"})
			}
		}
	}
	vkit.Check(t, 4800, 48000, func(t *rapid.T) {
		lim := rapid.SampledFrom([]int{0, 1, 2, 3}).Draw(t, "limit")
		c := Case{Kind: "control-cap", Limit: lim, Mode: "concurrent", Rounds: 300}
		c.Occ = lim - 1
		if lim == 0 {
			c.Occ = rapid.IntRange(0, 3).Draw(t, "occupancy")
		}
		c.Racers = rapid.SampledFrom(racerCounts()).Draw(t, "racers")
		c.Ops = rapid.SliceOfN(rapid.IntRange(1, 3), c.Racers, c.Racers).Draw(t, "ops")
		roundControlCap(t, c)
	})
}

// ---- (2b) tunnel registry capacity --------------------------------------------------

func roundTunnelCap(t vkit.TB, c Case) {
	reg := session.NewTunnelRegistry(&session.TunnelRegistryConfig{MaxTunnels: c.Limit})
	const pfx = "C17/max-tunnels/TunnelRegistry.Register/"
	mk := func(id string) *session.TunnelConnection {
		tc := session.NewTunnelConnection(id, nil, tcpAddr{}, "tcp")
		tc.TunnelID = "tun-" + id
		return tc
	}
	snap := func() string {
		var s []string
		for _, tc := range reg.List() {
			s = append(s, tc.ConnID)
		}
		sort.Strings(s)
		return strings.Join(s, ",")
	}
	for i := 0; i < c.Occ; i++ {
		if err := reg.Register(mk(fmt.Sprintf("occ-%d", i))); err != nil {
			vkit.Violation(t, pfx+"refused-below-limit", err.Error(), c)
			return
		}
	}
	class := fmt.Sprintf("tunnel-cap/limit=%d/%s", c.Limit, c.Mode)
	if c.Mode == "sequential" {
		before := snap()
		err := reg.Register(mk("extra"))
		after := snap()
		full := c.Limit > 0 && c.Occ >= c.Limit
		switch {
		case full && err == nil:
			vkit.Violation(t, pfx+"over-admission-sequential", fmt.Sprintf("limit %d, %d registered, one more admitted: [%s]", c.Limit, c.Occ, after), c)
			return
		case full && (before != after || reg.GetByTunnelID("tun-extra") != nil):
			vkit.Violation(t, pfx+"refusal-changed-state", fmt.Sprintf("before [%s] after [%s]", before, after), c)
			return
		case !full && err != nil:
			vkit.Violation(t, pfx+"refused-below-limit", err.Error(), c)
			return
		}
		vkit.Case(class, true, fmt.Sprintf("%s|%d|%d", c.Kind, c.Limit, c.Occ))
		return
	}
	obs := observe(reg.Count)
	g := &gauge{}
	for i := 0; i < c.Occ; i++ {
		g.Inc()
	}
	inflight := contend(c.Racers, func(i int) {
		have := ""
		for k := 0; k < c.Ops[i]; k++ {
			if have != "" {
				g.Dec()
				reg.Remove(have)
				have = ""
			}
			id := fmt.Sprintf("r%d-%d", i, k)
			if reg.Register(mk(id)) == nil {
				g.Inc()
				have = id
			}
		}
	})
	seen := obs.Stop()
	final := reg.Count()
	detail := fmt.Sprintf("MaxTunnels=%d, %d registered, %d racers (max %d in flight): gauge %d, observer %d, final %d", c.Limit, c.Occ, c.Racers, inflight, g.Max(), seen, final)
	if c.Limit > 0 && (g.Max() > c.Limit || seen > c.Limit || final > c.Limit) {
		vkit.Violation(t, pfx+"over-admission-under-contention", detail, c)
		return
	}
	if final != int(g.cur.Load()) {
		vkit.Violation(t, pfx+"count-differs-from-admissions", detail, c)
		return
	}
	vkit.Case(class, inflight >= 2, fmt.Sprintf("%s|%d|%d|%v", c.Kind, c.Limit, c.Racers, c.Ops))
}

func TestTunnelCap(t *testing.T) {
	if vkit.Shard() == 0 {
		for _, lim := range []int{0, 1, 3} {
			for occ := 0; occ <= lim; occ++ {
				roundTunnelCap(t, Case{Kind: "tunnel-cap", Limit: lim, Occ: occ, Mode: "sequential"})
			}
		}
	}
	vkit.Check(t, 2400, 24000, func(t *rapid.T) {
		lim := rapid.SampledFrom([]int{0, 1, 3}).Draw(t, "limit")
		c := Case{Kind: "tunnel-cap", Limit: lim, Mode: "concurrent", Rounds: 300}
		c.Occ = lim - 1
		if lim == 0 {
			c.Occ = 0
		}
		c.Racers = rapid.SampledFrom(racerCounts()).Draw(t, "racers")
		c.Ops = rapid.SliceOfN(rapid.IntRange(1, 3), c.Racers, c.Racers).Draw(t, "ops")
		roundTunnelCap(t, c)
	})
}
