package c17

import (
	"context"
	"errors"
	"fmt"
	"io"
	"net"
	"runtime"
	"sync"
	"sync/atomic"
	"testing"
	"time"

	"pgregory.net/rapid"

	"tunnox-core/internal/client"
	"tunnox-core/internal/client/mapping"
	"tunnox-core/internal/cloud/models"
	"tunnox-core/internal/config"
	"tunnox-core/internal/packet"
	"tunnox-core/internal/stream"
	"tunnox-core/verif/vkit"
)

// ---- (3) per-mapping concurrent-connection limit: BaseMappingHandler ------------------

// feedAdapter hands connections chosen by the harness to the handler's accept loop.
type feedAdapter struct {
	ch     chan io.ReadWriteCloser
	closed chan struct{}
	once   sync.Once
}

func (a *feedAdapter) StartListener(config.MappingConfig) error { return nil }
func (a *feedAdapter) Accept() (io.ReadWriteCloser, error) {
	select {
	case c := <-a.ch:
		return c, nil
	case <-a.closed:
		return nil, errors.New("listener closed")
	}
}

// PrepareConnection is the first thing the handler does with a connection that passed the limit
// check: it marks that connection as admitted (exact per-connection outcome).
func (a *feedAdapter) PrepareConnection(c io.ReadWriteCloser) error {
	if lc, ok := c.(*localConn); ok {
		lc.decide(true)
	}
	return nil
}
func (a *feedAdapter) GetProtocol() string { return "tcp" }
func (a *feedAdapter) Close() error        { a.once.Do(func() { close(a.closed) }); return nil }

// localConn is the local connection handed to the handler. Its outcome is decided exactly once:
// admitted (the handler called PrepareConnection, i.e. it passed the limit check) or refused (the
// handler closed it without ever getting there). A close AFTER admission (tunnel ended) is not an outcome.
type localConn struct {
	net.Conn
	once     sync.Once
	admitted atomic.Bool
	done     chan struct{}
}

func (l *localConn) decide(admitted bool) {
	l.once.Do(func() { l.admitted.Store(admitted); close(l.done) })
}
func (l *localConn) Close() error { l.decide(false); return l.Conn.Close() }

// tunnelConn is the client's end of a dialed tunnel; the gauge counts it from the dial
// until its first Close.
type tunnelConn struct {
	net.Conn
	once sync.Once
	g    *gauge
}

func (c *tunnelConn) Close() error {
	c.once.Do(c.g.Dec)
	return c.Conn.Close()
}

type pipeStream struct{ c *tunnelConn }

func (s *pipeStream) GetReader() io.Reader { return s.c }
func (s *pipeStream) GetWriter() io.Writer { return s.c }
func (s *pipeStream) ReadPacket() (*packet.TransferPacket, int, error) {
	return nil, 0, errors.New("not a packet stream")
}
func (s *pipeStream) WritePacket(*packet.TransferPacket, bool, int64) (int, error) {
	return 0, errors.New("not a packet stream")
}
func (s *pipeStream) ReadExact(int) ([]byte, error) { return nil, errors.New("not supported") }
func (s *pipeStream) WriteExact([]byte) error       { return errors.New("not supported") }
func (s *pipeStream) Close()                        { s.c.Close() }

var _ stream.PackageStreamer = (*pipeStream)(nil)

// fakeClient is the ClientInterface double: every DialTunnel returns a live pipe that
// stays open until one side closes it.
type fakeClient struct {
	ctx     context.Context
	userMax int
	open    gauge
	dials   atomic.Int32
	mu      sync.Mutex
	far     []net.Conn
	event   chan struct{}
	// rendezvous > 0: GetUserQuota (called by the handler right before its limit check) holds the callers
	// until that many have arrived, then lets them go together (spin), so that simultaneous arrivals
	// really reach the check at the same time
	rendezvous, arrived atomic.Int32
	quotaErr            bool                                    // GetUserQuota fails: documented as "do not block the connection"
	onDial              func(i int, tunnelID, mappingID string) // set before the first connection is offered
	dialSeq             atomic.Int32
	quotaNow            atomic.Pointer[int] // set: the user quota currently in force (may change during a round)
	quotaCalls          atomic.Int32
	// real != nil: GetUserQuota / CheckMappingQuota are the REAL TunnoxClient's (quota cache + Management API
	// client); only the network-facing parts stay doubles
	real *client.TunnoxClient
}

func (f *fakeClient) DialTunnel(tunnelID, mappingID, secretKey string) (net.Conn, stream.PackageStreamer, error) {
	a, b := net.Pipe()
	tc := &tunnelConn{Conn: a, g: &f.open}
	f.open.Inc()
	f.mu.Lock()
	f.far = append(f.far, b)
	f.mu.Unlock()
	// the hook runs BEFORE the dial is counted: whoever has seen dials reach a value (the rig waits for
	// that) has also seen everything the hooks of those dials did (e.g. registering a closer goroutine)
	seq := f.dialSeq.Add(1)
	if hook := f.onDial; hook != nil {
		hook(int(seq)-1, tunnelID, mappingID)
	}
	f.dials.Add(1)
	f.signal()
	return tc, &pipeStream{c: tc}, nil
}
func (f *fakeClient) signal() {
	select {
	case f.event <- struct{}{}:
	default:
	}
}
func (f *fakeClient) DialTunnelPooled(string, string) (mapping.PooledTunnelConnInterface, error) {
	return nil, nil
}
func (f *fakeClient) ReturnTunnelToPool(mapping.PooledTunnelConnInterface)  {}
func (f *fakeClient) CloseTunnelFromPool(mapping.PooledTunnelConnInterface) {}
func (f *fakeClient) IsTunnelPoolEnabled() bool                             { return false }
func (f *fakeClient) GetContext() context.Context                           { return f.ctx }
func (f *fakeClient) CheckMappingQuota(id string) error {
	if f.real != nil {
		return f.real.CheckMappingQuota(id)
	}
	return nil
}
func (f *fakeClient) TrackTraffic(string, int64, int64) error { return nil }
func (f *fakeClient) GetUserQuota() (*models.UserQuota, error) {
	if f.real != nil {
		return f.real.GetUserQuota()
	}
	if sc := f.quotaNow.Load(); sc != nil {
		// the quota source answers what is in force NOW (-1: the lookup fails)
		f.quotaCalls.Add(1)
		if *sc < 0 {
			return nil, errors.New("quota service unavailable")
		}
		return &models.UserQuota{MaxConnections: *sc}, nil
	}
	if n := f.rendezvous.Load(); n > 0 {
		f.arrived.Add(1)
		deadline := time.Now().Add(50 * time.Millisecond)
		for spins := 0; f.arrived.Load() < n; spins++ {
			if spins%1024 == 1023 && time.Now().After(deadline) {
				break
			}
			if spins > 100000 && spins%1024 == 0 { // long wait: the other arrivals are not even scheduled yet
				runtime.Gosched()
			}
		}
	}
	if f.quotaErr {
		return nil, errors.New("quota service unavailable")
	}
	return &models.UserQuota{MaxConnections: f.userMax}, nil
}
func (f *fakeClient) GetServerProtocol() string                                 { return "tcp" }
func (f *fakeClient) SendTunnelCloseNotify(int64, string, string, string) error { return nil }

var _ mapping.ClientInterface = (*fakeClient)(nil)

type mappingRig struct {
	cl       *fakeClient
	ad       *feedAdapter
	h        *mapping.BaseMappingHandler
	cancel   context.CancelFunc
	refused  atomic.Int32
	peers    []net.Conn
	fed      int
	timedOut bool
	admitted int // connections that passed the limit check (per-connection outcome)
}

// limitSource: "mapping" puts the limit into MappingConfig.MaxConnections; "user" leaves
// that 0 and puts it into the user quota (documented fallback).
func newMappingRig(limit int, source string) (*mappingRig, error) {
	ctx, cancel := context.WithCancel(context.Background())
	r := &mappingRig{cancel: cancel}
	r.cl = &fakeClient{ctx: ctx, event: make(chan struct{}, 1)}
	cfg := config.MappingConfig{MappingID: "pmap_verif", Protocol: "tcp", LocalPort: 18080, TargetHost: "127.0.0.1", TargetPort: 80, TargetClientID: 70000001}
	if source == "user" {
		r.cl.userMax = limit
	} else if source == "user-quota-unavailable" {
		r.cl.userMax = limit
		r.cl.quotaErr = true
	} else {
		cfg.MaxConnections = limit
	}
	r.ad = &feedAdapter{ch: make(chan io.ReadWriteCloser, 64), closed: make(chan struct{})}
	r.h = mapping.NewBaseMappingHandler(r.cl, cfg, r.ad)
	if err := r.h.Start(); err != nil {
		cancel()
		return nil, err
	}
	return r, nil
}

// feed offers n connections at once and waits until each has its outcome (admitted by the limit check
// or refused), then until every admitted connection has reached DialTunnel. Returns false on a
// (generous) timeout.
func (r *mappingRig) feed(n int) bool {
	var batch []*localConn
	for i := 0; i < n; i++ {
		l1, l2 := net.Pipe()
		r.peers = append(r.peers, l2)
		lc := &localConn{Conn: l1, done: make(chan struct{})}
		batch = append(batch, lc)
		r.ad.ch <- lc
	}
	r.fed += n
	deadline := time.After(5 * time.Second)
	for _, lc := range batch {
		select {
		case <-lc.done:
		case <-deadline:
			r.timedOut = true
			return false
		}
		if lc.admitted.Load() {
			r.admitted++
		} else {
			r.refused.Add(1)
		}
	}
	return r.awaitDials()
}

// awaitDials waits until every admitted connection has been dialed through.
func (r *mappingRig) awaitDials() bool {
	for wait := time.Now().Add(5 * time.Second); int(r.cl.dials.Load()) < r.admitted; {
		if time.Now().After(wait) {
			r.timedOut = true
			return false
		}
		select {
		case <-r.cl.event:
		case <-time.After(500 * time.Microsecond):
		}
	}
	return true
}

func (r *mappingRig) close() {
	r.h.Close()
	r.cancel()
	for _, p := range r.peers {
		p.Close()
	}
	r.cl.mu.Lock()
	for _, f := range r.cl.far {
		f.Close()
	}
	r.cl.mu.Unlock()
}

func roundMappingCap(t vkit.TB, c Case) {
	source := "mapping" // Ops[0]==1: the limit comes from the user quota (MappingConfig.MaxConnections = 0)
	if len(c.Ops) > 0 && c.Ops[0] == 1 {
		source = "user"
	}
	if len(c.Ops) > 0 && c.Ops[0] == 2 {
		source = "user-quota-unavailable" // the quota lookup fails: no limit is known, nothing may be refused
	}
	r, err := newMappingRig(c.Limit, source)
	if err != nil {
		vkit.Violation(t, "C17/harness/mapping-rig", err.Error(), c)
		return
	}
	defer r.close()
	const pfx = "C17/mapping-max-connections/handleConnection/"
	class := fmt.Sprintf("mapping-cap/limit=%d/%s/%s", c.Limit, source, c.Mode)
	k := c.Limit
	if source == "user-quota-unavailable" {
		k = 0
	}
	admittedBefore := func() int { return r.admitted }
	if c.Mode == "sequential" {
		// a stream of long-lived connections, one at a time
		for i := 0; i < c.Feed; i++ {
			if !r.feed(1) {
				vkit.Skipped(1)
				return
			}
		}
	} else {
		// occupancy k-1 (sequentially), then Feed arrivals at once
		for i := 0; i < k-1; i++ {
			if !r.feed(1) {
				vkit.Skipped(1)
				return
			}
		}
		if source == "user" {
			r.cl.arrived.Store(0)
			r.cl.rendezvous.Store(int32(c.Feed))
		}
		ok := r.feed(c.Feed)
		r.cl.rendezvous.Store(0)
		if !ok {
			vkit.Skipped(1)
			return
		}
	}
	// feed() returned only after every offered connection had its own outcome and every admitted one was
	// dialed, so "admitted" below is exact (a connection closed after its tunnel was dialed is not a refusal)
	admitted := admittedBefore()
	openMax := r.cl.open.Max()
	detail := fmt.Sprintf("MaxConnections=%d (from %s), %d long-lived connections offered (%s): %d tunnels dialed, at most %d open at the same time, %d refused",
		k, source, r.fed, c.Mode, admitted, openMax, r.refused.Load())
	if k > 0 && openMax > k {
		// root cause: does the counter reflect live tunnels at all? offer one more while >= k tunnels are open
		// (handlers of the admitted connections may still be running right after their dial: retry a few times)
		probeAdmitted := false
		for try := 0; try < 6 && !probeAdmitted && int(r.cl.open.cur.Load()) >= k; try++ {
			before := admittedBefore()
			if !r.feed(1) {
				break
			}
			if admittedBefore() > before {
				probeAdmitted = true
			} else {
				time.Sleep(3 * time.Millisecond)
			}
		}
		key := pfx + "over-admission-under-contention"
		switch {
		case c.Mode == "sequential" && admitted == k+1 && !probeAdmitted:
			key = pfx + "off-by-one-sequential"
		case probeAdmitted:
			key = pfx + "live-tunnels-not-counted"
		case c.Mode == "sequential":
			key = pfx + "over-admission-sequential"
		}
		vkit.Violation(t, key, detail+fmt.Sprintf("; one more connection offered while %d tunnels were open: admitted=%v", r.cl.open.cur.Load(), probeAdmitted), c)
		vkit.Case("known:"+class, true, fmt.Sprintf("%s|%d|%s|%s|%d", c.Kind, k, source, c.Mode, c.Feed))
		return
	}
	// a refusal is a connection that was never dialed through (a connection closed AFTER its tunnel
	// was dialed - e.g. a tunnel ending early under load - is not a refusal)
	if k == 0 && admitted < r.fed {
		vkit.Violation(t, pfx+"refused-although-unlimited", detail, c)
		return
	}
	if k > 0 && admitted < k && r.fed >= k {
		vkit.Violation(t, pfx+"refused-below-limit", detail, c)
		return
	}
	vkit.Case(class, c.Mode == "concurrent" || r.fed > k, fmt.Sprintf("%s|%d|%s|%s|%d", c.Kind, k, source, c.Mode, c.Feed))
}

func TestMappingCap(t *testing.T) {
	idx := 0
	for _, lim := range []int{0, 1, 3} {
		for _, src := range []int{0, 1} {
			for _, feed := range []int{lim + 2, lim + 4} {
				idx++
				if !vkit.Mine(idx) {
					continue
				}
				roundMappingCap(t, Case{Kind: "mapping-cap", Limit: lim, Mode: "sequential", Feed: feed, Ops: []int{src}})
			}
		}
	}
	vkit.Check(t, 1920, 14400, func(t *rapid.T) {
		c := Case{Kind: "mapping-cap", Mode: rapid.SampledFrom([]string{"sequential", "concurrent", "concurrent"}).Draw(t, "mode"), Rounds: 50}
		c.Limit = rapid.SampledFrom([]int{0, 1, 1, 3}).Draw(t, "limit")
		c.Ops = []int{rapid.SampledFrom([]int{0, 0, 1, 1, 1, 1, 2}).Draw(t, "limitSource")}
		if c.Mode == "sequential" {
			c.Feed = c.Limit + rapid.IntRange(1, 4).Draw(t, "extra")
		} else {
			c.Feed = rapid.IntRange(2, 12).Draw(t, "arrivals")
		}
		roundMappingCap(t, c)
	})
}
