// C17 — configured limits and quotas hold under concurrency.
package c17

import (
	"runtime"
	"sync"
	"sync/atomic"
	"testing"

	"tunnox-core/verif/vkit"
)

func TestMain(m *testing.M) { vkit.Main(m, "C17") }

// Case is the replay record of every sub-check.
type Case struct {
	Kind    string   `json:"kind"` // server-cap | control-cap | tunnel-cap | mapping-cap | code-quota | mapping-quota
	Limit   int      `json:"limit"`
	Racers  int      `json:"racers,omitempty"`
	Occ     int      `json:"occupancy,omitempty"`
	Ops     []int    `json:"ops,omitempty"`     // per racer: number of attempts (server-cap: odd entries also release)
	Tasks   int      `json:"tasks,omitempty"`   // gate programs
	Nodes   int      `json:"nodes,omitempty"`   // gate programs: service stacks
	Picks   []int    `json:"picks,omitempty"`   // gate programs: schedule
	Rounds  int      `json:"rounds,omitempty"`  // E3: how often the recorded round parameters are re-run on replay
	Feed    int      `json:"feed,omitempty"`    // mapping-cap: connections offered
	Mode    string   `json:"mode,omitempty"`    // sequential | concurrent | closer
	Hist    []string `json:"history,omitempty"` // code-quota-history: C | R<i> | A<i> | L<i> (create, revoke, activate, lapse record of code i)
	Backend string   `json:"backend,omitempty"` // code-quota-history: memory | hybrid
	Amp     bool     `json:"amp,omitempty"`     // server-cap: racers meet inside the admission path (GetConnectionID of the transport double)
}

// contend runs fn(i) on n goroutines released together by a spin barrier and returns
// the maximum number of calls that were in flight at the same time.
func contend(n int, fn func(i int)) int {
	var ready, spinning, inflight, maxIn atomic.Int32
	var armed, start atomic.Bool
	var wg sync.WaitGroup
	for i := 0; i < n; i++ {
		i := i
		wg.Add(1)
		go func() {
			defer wg.Done()
			// phase 1: wait politely until every racer exists (the shards share the cores)
			ready.Add(1)
			for !armed.Load() {
				runtime.Gosched()
			}
			// phase 2: tight spin on the start flag, so that the racers that are on a CPU leave together
			spinning.Add(1)
			for spins := 0; !start.Load(); spins++ {
				if spins > 200000 { // bounded burn when the machine is oversubscribed
					runtime.Gosched()
				}
			}
			cur := inflight.Add(1)
			for {
				m := maxIn.Load()
				if cur <= m || maxIn.CompareAndSwap(m, cur) {
					break
				}
			}
			fn(i)
			inflight.Add(-1)
		}()
	}
	for int(ready.Load()) < n {
		runtime.Gosched()
	}
	armed.Store(true)
	for int(spinning.Load()) < n {
		runtime.Gosched()
	}
	start.Store(true)
	wg.Wait()
	return int(maxIn.Load())
}

// gauge tracks a harness-side count of simultaneously admitted items: Inc after an
// admission returned success, Dec before the release is requested, so the gauge never
// exceeds the true number of admitted items.
type gauge struct{ cur, max atomic.Int32 }

func (g *gauge) Inc() {
	c := g.cur.Add(1)
	for {
		m := g.max.Load()
		if c <= m || g.max.CompareAndSwap(m, c) {
			return
		}
	}
}
func (g *gauge) Dec()     { g.cur.Add(-1) }
func (g *gauge) Max() int { return int(g.max.Load()) }

// observer samples f in a hot loop until stopped; returns the maximum seen.
type observer struct {
	stop atomic.Bool
	max  atomic.Int64
	n    atomic.Int64
	done chan struct{}
}

func observe(f func() int) *observer {
	o := &observer{done: make(chan struct{})}
	go func() {
		defer close(o.done)
		for !o.stop.Load() {
			v := int64(f())
			if v > o.max.Load() {
				o.max.Store(v)
			}
			if o.n.Add(1)%64 == 0 {
				runtime.Gosched()
			}
		}
	}()
	return o
}

func (o *observer) Stop() int { o.stop.Store(true); <-o.done; return int(o.max.Load()) }

// racers draws the number of racing goroutines: 2..16, mostly small (the shards share the cores).
func racerCounts() []int { return []int{2, 2, 3, 3, 4, 4, 5, 6, 6, 8, 8, 12, 16} }

func TestReplay(t *testing.T) {
	path := vkit.Replaying()
	if path == "" {
		t.Skip("no VERIF_REPLAY")
	}
	var c Case
	if _, err := vkit.LoadReplay(path, &c); err != nil {
		t.Fatal(err)
	}
	// contention failures are schedule dependent: re-run the recorded round parameters many times
	rounds := c.Rounds
	if rounds <= 0 {
		rounds = 1
	}
	for i := 0; i < rounds; i++ {
		switch c.Kind {
		case "server-cap":
			if c.Mode == "close-history" {
				roundServerCapHistory(t, c)
			} else {
				roundServerCap(t, c)
			}
		case "control-cap":
			roundControlCap(t, c)
		case "tunnel-cap":
			roundTunnelCap(t, c)
		case "mapping-cap":
			if c.Mode == "closer" {
				roundMappingCloser(t, c)
			} else if c.Mode == "quota-script" {
				roundQuotaScript(t, c)
			} else if c.Mode == "api-quota" {
				roundAPIQuota(t, c)
			} else {
				roundMappingCap(t, c)
			}
		case "client-config-push":
			roundClientConfig(t, c)
		case "code-quota-claim-window":
			p := &vkit.Picks{List: c.Picks}
			reportClaimWindow(t, c, runClaimWindow(c, p.Choose))
		case "mapping-index":
			p := &vkit.Picks{List: c.Picks}
			reportIndex(t, c, runIndexProg(c, p.Choose))
		case "mapping-quota-history":
			runMapHistory(t, nil, c)
		case "code-quota-history":
			runHistory(t, nil, c)
		case "code-quota", "mapping-quota":
			p := &vkit.Picks{List: c.Picks}
			reportQuota(t, c, runQuota(c, p.Choose))
		default:
			t.Fatalf("unknown kind %q", c.Kind)
		}
		if t.Failed() {
			return
		}
	}
}
