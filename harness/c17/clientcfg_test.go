package c17

import (
	"bufio"
	"context"
	"encoding/json"
	"fmt"
	"io"
	"net"
	"strings"
	"sync"
	"sync/atomic"
	"testing"
	"time"

	"pgregory.net/rapid"

	"tunnox-core/internal/client"
	"tunnox-core/internal/packet"
	"tunnox-core/internal/stream"
	"tunnox-core/verif/vkit"
)

// ---- (3d) the per-mapping limit currently in force, on a RUNNING client ---------------------
//
// The real TunnoxClient (control connection, command handler, mapping manager, TCP adapter,
// BaseMappingHandler, quota cache, Management API client, tunnel dialer) talks to a server double
// over loopback TCP. The double answers handshakes, serves the user quota over HTTP on the same
// port, acknowledges TunnelOpen (a tunnel counts as open from then until its connection ends) and
// pushes ConfigSet commands. A history of pushes changes max_connections of one running mapping
// (explicit value, or 0 = "use the user's quota"); after each push (synchronised through a command
// the client answers) and with no connection left from before, a burst of local TCP connections
// arrives: the tunnels open at the same time must never exceed the limit currently in force.

type fakeServer struct {
	ln      net.Listener
	ctx     context.Context
	quota   int
	open    gauge
	opens   atomic.Int32
	mu      sync.Mutex
	control stream.PackageStreamer
	conns   []net.Conn
	synced  chan string
	wg      sync.WaitGroup
}

func newFakeServer(ctx context.Context, quota int) (*fakeServer, error) {
	ln, err := net.Listen("tcp4", "127.0.0.1:0")
	if err != nil {
		return nil, err
	}
	s := &fakeServer{ln: ln, ctx: ctx, quota: quota, synced: make(chan string, 16)}
	s.wg.Add(1)
	go func() {
		defer s.wg.Done()
		for {
			c, err := ln.Accept()
			if err != nil {
				return
			}
			s.mu.Lock()
			s.conns = append(s.conns, c)
			s.mu.Unlock()
			s.wg.Add(1)
			go func() { defer s.wg.Done(); s.serve(c) }()
		}
	}()
	return s, nil
}

func (s *fakeServer) close() {
	s.ln.Close()
	s.mu.Lock()
	for _, c := range s.conns {
		c.Close()
	}
	s.mu.Unlock()
	s.wg.Wait()
}

func (s *fakeServer) serve(c net.Conn) {
	defer c.Close()
	br := bufio.NewReader(c)
	head, err := br.Peek(4)
	if err != nil {
		return
	}
	if string(head) == "GET " {
		// Management API: the user's quota
		for {
			line, err := br.ReadString('\n')
			if err != nil || line == "\r\n" {
				break
			}
		}
		body := fmt.Sprintf(`{"success":true,"data":{"max_client_ids":10,"max_connections":%d}}`, s.quota)
		fmt.Fprintf(c, "HTTP/1.1 200 OK\r\nContent-Type: application/json\r\nContent-Length: %d\r\nConnection: close\r\n\r\n%s", len(body), body)
		return
	}
	sp := stream.NewStreamProcessor(br, c, s.ctx)
	defer sp.Close()
	for {
		pkt, _, err := sp.ReadPacket()
		if err != nil {
			return
		}
		switch pkt.PacketType & 0x3F {
		case packet.Handshake:
			var req packet.HandshakeRequest
			json.Unmarshal(pkt.Payload, &req)
			resp, _ := json.Marshal(&packet.HandshakeResponse{Success: true, Message: "ok"})
			if _, err := sp.WritePacket(&packet.TransferPacket{PacketType: packet.HandshakeResp, Payload: resp}, false, 0); err != nil {
				return
			}
			if req.ConnectionType == "control" {
				s.mu.Lock()
				s.control = sp
				s.mu.Unlock()
			}
		case packet.TunnelOpen:
			var req packet.TunnelOpenRequest
			json.Unmarshal(pkt.Payload, &req)
			s.open.Inc()
			s.opens.Add(1)
			ack, _ := json.Marshal(&packet.TunnelOpenAckResponse{TunnelID: req.TunnelID, Success: true})
			sp.WritePacket(&packet.TransferPacket{PacketType: packet.TunnelOpenAck, TunnelID: req.TunnelID, Payload: ack}, false, 0)
			// from here on the connection carries raw tunnel bytes: hold it until the client ends it
			io.Copy(io.Discard, br)
			s.open.Dec()
			return
		case packet.CommandResp:
			if pkt.CommandPacket != nil && strings.HasPrefix(pkt.CommandPacket.CommandId, "sync-") {
				select {
				case s.synced <- pkt.CommandPacket.CommandId:
				default:
				}
			}
		}
	}
}

// push sends a command on the control connection.
func (s *fakeServer) push(cmdType packet.CommandType, id, body string) error {
	s.mu.Lock()
	ctl := s.control
	s.mu.Unlock()
	if ctl == nil {
		return fmt.Errorf("no control connection")
	}
	_, err := ctl.WritePacket(&packet.TransferPacket{PacketType: packet.JsonCommand, CommandPacket: &packet.CommandPacket{CommandType: cmdType, CommandId: id, CommandBody: body}}, false, 0)
	return err
}

// pushConfig pushes a ConfigSet and returns once the client has finished applying it: commands are
// handled one after another by the client's read loop, and the malformed DNS request sent right
// behind it is answered without any network access.
func (s *fakeServer) pushConfig(seq int, body string) error {
	if err := s.push(packet.ConfigSet, fmt.Sprintf("cfg-%d", seq), body); err != nil {
		return err
	}
	id := fmt.Sprintf("sync-%d", seq)
	if err := s.push(packet.DNSResolve, id, "{not json"); err != nil {
		return err
	}
	deadline := time.After(10 * time.Second)
	for {
		select {
		case got := <-s.synced:
			if got == id {
				return nil
			}
		case <-deadline:
			return fmt.Errorf("client did not answer %s", id)
		}
	}
}

func freePort() (int, error) {
	l, err := net.Listen("tcp4", "127.0.0.1:0")
	if err != nil {
		return 0, err
	}
	defer l.Close()
	return l.Addr().(*net.TCPAddr).Port, nil
}

// roundClientConfig: Limit = user quota served by the API; Ops = history of max_connections values pushed.
func roundClientConfig(t vkit.TB, c Case) {
	ctx, cancel := context.WithCancel(context.Background())
	defer cancel()
	srv, err := newFakeServer(ctx, c.Limit)
	if err != nil {
		vkit.Skipped(1)
		return
	}
	defer srv.close()
	port, err := freePort()
	if err != nil {
		vkit.Skipped(1)
		return
	}
	cfg := &client.ClientConfig{ClientID: 12345678} // no stored secret: nothing is written to a config file
	cfg.Server.Address = srv.ln.Addr().String()
	cfg.Server.Protocol = "tcp"
	cl := client.NewClient(ctx, cfg)
	defer cl.Close()
	if err := cl.Connect(); err != nil {
		vkit.Skipped(1)
		return
	}
	const pfx = "C17/mapping-max-connections/running-client-config-push/"
	var locals []net.Conn
	closeLocals := func() {
		for _, l := range locals {
			l.Close()
		}
		locals = nil
	}
	defer closeLocals()
	hist := fmt.Sprint(c.Ops)
	for step, maxConn := range c.Ops {
		body := fmt.Sprintf(`{"mappings":[{"mapping_id":"pmap_verif","secret_key":"k","protocol":"tcp","local_port":%d,"target_host":"127.0.0.1","target_port":9,"target_client_id":10000002,"max_connections":%d}]}`, port, maxConn)
		if err := srv.pushConfig(step, body); err != nil {
			vkit.Skipped(1)
			return
		}
		// nothing left from before: end the earlier connections and wait until their tunnels are gone
		closeLocals()
		for wait := time.Now().Add(5 * time.Second); srv.open.cur.Load() > 0; {
			if time.Now().After(wait) {
				vkit.Skipped(1)
				return
			}
			time.Sleep(time.Millisecond)
		}
		srv.open.max.Store(0)
		limit := maxConn
		if limit <= 0 {
			limit = c.Limit // 0 = use the user's quota
		}
		n := limit + 2
		if limit >= 50 {
			n = 4 // an explicit large limit: a few connections, all must get through
		}
		opensBefore := srv.opens.Load()
		var ended atomic.Int32
		for i := 0; i < n; i++ {
			var lc net.Conn
			for try := 0; try < 200; try++ {
				if lc, err = net.DialTimeout("tcp4", fmt.Sprintf("127.0.0.1:%d", port), time.Second); err == nil {
					break
				}
				time.Sleep(2 * time.Millisecond)
			}
			if err != nil {
				vkit.Skipped(1)
				return
			}
			locals = append(locals, lc)
			go func(lc net.Conn) {
				var b [1]byte
				lc.Read(b[:])
				ended.Add(1)
			}(lc)
		}
		// every connection is either through (tunnel opened at the server) or ended by the handler
		for wait := time.Now().Add(10 * time.Second); int(srv.opens.Load()-opensBefore)+int(ended.Load()) < n; {
			if time.Now().After(wait) {
				vkit.Skipped(1)
				return
			}
			time.Sleep(time.Millisecond)
		}
		time.Sleep(5 * time.Millisecond)
		admitted := int(srv.opens.Load() - opensBefore)
		openMax := srv.open.Max()
		detail := fmt.Sprintf("user quota %d (Management API); max_connections pushed to the running mapping so far %v, now %d => limit in force %d; %d local connections arrive: %d tunnels opened, at most %d open at the same time, %d ended by the client",
			c.Limit, c.Ops[:step+1], maxConn, limit, n, admitted, openMax, ended.Load())
		switch {
		case openMax > limit:
			vkit.Violation(t, pfx+"over-admission-after-limit-change", detail, c)
			return
		case admitted < limit && admitted < n:
			// not asserted: right after the earlier connections ended the client may not have released their
			// slots yet (the server sees a tunnel end before the client's OnClosed runs), and the property only
			// forbids exceeding the limit
			vkit.Class("client-config-push:fewer-admitted-than-limit")
		}
	}
	vkit.Case(fmt.Sprintf("client-config-push/quota=%d", c.Limit), len(c.Ops) > 1, fmt.Sprintf("cfgpush|%d|%s", c.Limit, hist))
}

func TestClientConfigPush(t *testing.T) {
	idx := 0
	for _, q := range []int{1, 2} {
		for _, h := range [][]int{{100, 0}, {0, 100}, {5, 0}, {0, 3}, {100, 100, 0}, {0, 0}, {3, 100, 0}, {0, 100, 0}} {
			idx++
			if vkit.Mine(idx) {
				roundClientConfig(t, Case{Kind: "client-config-push", Limit: q, Ops: h, Rounds: 2})
			}
		}
	}
	vkit.Check(t, 48, 800, func(t *rapid.T) {
		c := Case{Kind: "client-config-push", Rounds: 2, Limit: rapid.IntRange(1, 3).Draw(t, "userQuota")}
		c.Ops = rapid.SliceOfN(rapid.SampledFrom([]int{0, 0, 1, 2, 5, 100, 100, -1}), 1, 4).Draw(t, "maxConnectionsHistory")
		roundClientConfig(t, c)
	})
}
