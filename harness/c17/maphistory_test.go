package c17

import (
	"encoding/json"
	"fmt"
	"strings"
	"testing"
	"time"

	"pgregory.net/rapid"

	"tunnox-core/internal/cloud/models"
	"tunnox-core/internal/cloud/services"
	coreerrors "tunnox-core/internal/core/errors"
	"tunnox-core/verif/vkit"
)

// ---- (4d) the active-mapping quota over mixed-role histories (no concurrency) ---------------
//
// A client's mappings are those it listens for AND those that target it (both are in its mapping
// index, and the quota count of the pinned tree covers both). Histories over three clients:
// "M<t><l>" client t generates a code and client l activates it, "D<i>" delete mapping i,
// "V<i>" revoke mapping i (by its listener). Before every activation the activating client's active
// mappings are counted from the stored records (either role): at or above the quota the activation
// must be refused (and leave every record unchanged), below it must be admitted.

type hmap struct {
	id             string
	listen, target int64
}

func (w *hworld) activeMappingsOf(client int64) int {
	rawm, _ := w.raw.QueryByPrefix("tunnox:port_mapping:", 0)
	n := 0
	for _, v := range rawm {
		var m models.PortMapping
		if json.Unmarshal([]byte(v), &m) == nil && (m.ListenClientID == client || m.TargetClientID == client) &&
			m.Status == models.MappingStatusActive && !m.IsRevoked && !m.IsExpired() {
			n++
		}
	}
	return n
}

func runMapHistory(t vkit.TB, w *hworld, c Case) bool {
	if w == nil {
		w = newHWorldQ(c.Backend, 50, c.Limit)
		defer w.close()
	}
	w.used++
	base0 := w.next + 10
	w.next += 10
	client := func(ch byte) int64 { return base0 + int64(ch-'a') }
	const base = "C17/max-active-mappings-per-client/ActivateConnectionCode/"
	var maps []hmap
	nontrivial := false
	for si, a := range c.Hist {
		switch a[0] {
		case 'M':
			tgt, lst := client(a[1]), client(a[2])
			code, err := w.cc.CreateConnectionCode(&services.CreateConnectionCodeRequest{TargetClientID: tgt, TargetAddress: "tcp://10.0.0.9:80", ActivationTTL: time.Hour, CreatedBy: "verif"})
			if err != nil {
				vkit.Violation(t, "C17/harness/map-history-setup", err.Error(), c)
				return false
			}
			before := w.activeMappingsOf(lst)
			asTarget := 0
			for _, m := range maps {
				if m.target == lst {
					asTarget++
				}
			}
			var snap map[string]string
			if before >= c.Limit { // a refusal is expected: compare the records around it
				snap = w.records()
			}
			m, err := w.cc.ActivateConnectionCode(&services.ActivateConnectionCodeRequest{Code: code.Code, ListenClientID: lst, ListenAddress: fmt.Sprintf("0.0.0.0:%d", 9000+si)})
			where := fmt.Sprintf("backend=%s, quota %d, history %s (step %d): client %c had %d active mapping(s) (listener or target) before activating; result err=%v; now %d",
				c.Backend, c.Limit, strings.Join(c.Hist, " "), si, a[2], before, err, w.activeMappingsOf(lst))
			switch {
			case before >= c.Limit && err == nil:
				vkit.Violation(t, base+"over-admission-mixed-roles/backend="+c.Backend, where, c)
				return false
			case before < c.Limit && err != nil:
				vkit.Violation(t, base+"refused-below-limit-mixed-roles/backend="+c.Backend, where, c)
				return false
			case err != nil && !coreerrors.IsCode(err, coreerrors.CodeQuotaExceeded):
				vkit.Violation(t, base+"refused-with-unexpected-error/backend="+c.Backend, where, c)
				return false
			case err != nil && snap != nil:
				if d := diffSnap(snap, w.records()); d != "" {
					vkit.Violation(t, base+"refusal-changed-state-mixed-roles/backend="+c.Backend, where+"; records changed: "+d, c)
					return false
				}
			}
			if err == nil {
				maps = append(maps, hmap{id: m.ID, listen: lst, target: tgt})
			}
			if asTarget > 0 && before >= c.Limit {
				nontrivial = true // at the quota partly or wholly through mappings that TARGET the client
			}
		case 'D', 'V':
			idx := 0
			fmt.Sscanf(a[1:], "%d", &idx)
			if idx >= len(maps) {
				continue
			}
			if a[0] == 'D' {
				w.pms.DeletePortMapping(maps[idx].id)
			} else {
				w.cc.RevokeMapping(maps[idx].id, maps[idx].listen, "verif")
			}
		}
	}
	vkit.Case(fmt.Sprintf("mapping-quota-history/%s/limit=%d", c.Backend, c.Limit), nontrivial, fmt.Sprintf("%s|%d|%s", c.Backend, c.Limit, strings.Join(c.Hist, " ")))
	return true
}

func TestMappingQuotaHistoriesExhaustive(t *testing.T) {
	type space struct {
		limit, depth int
		alpha        []string
	}
	spaces := []space{
		{1, 4, []string{"Mab", "Mba", "Mac", "Mca", "Mbc", "D0", "V0"}},
		{2, 5, []string{"Mab", "Mba", "Mca", "Mac", "D0", "V1"}},
	}
	if vkit.Thorough() {
		spaces = append(spaces, space{3, 6, []string{"Mab", "Mba", "Mca", "Mac", "D0", "V1"}})
	}
	total := 0
	for _, sp := range spaces {
		for _, backend := range []string{"memory", "hybrid"} {
			w := newHWorldQ(backend, 50, sp.limit)
			n := 1
			for i := 0; i < sp.depth; i++ {
				n *= len(sp.alpha)
			}
			for i := 0; i < n; i++ {
				if !vkit.Mine(i) {
					continue
				}
				hist := make([]string, sp.depth)
				for x, j := i, 0; j < sp.depth; j++ {
					hist[j] = sp.alpha[x%len(sp.alpha)]
					x /= len(sp.alpha)
				}
				if hist[0][0] != 'M' || hist[sp.depth-1][0] != 'M' {
					continue
				}
				if w.used >= 12 {
					w.close()
					w = newHWorldQ(backend, 50, sp.limit)
				}
				if !runMapHistory(t, w, Case{Kind: "mapping-quota-history", Limit: sp.limit, Backend: backend, Hist: hist}) {
					w.close()
					return
				}
				total++
			}
			w.close()
			vkit.Exhaustive(fmt.Sprintf("histories:mapping-quota/%s/limit=%d/depth=%d/alphabet=%s", backend, sp.limit, sp.depth, strings.Join(sp.alpha, ",")), true)
		}
	}
	vkit.AddExtra("mapping_quota_histories_enumerated", int64(total))
}

func TestMappingQuotaHistoriesRandom(t *testing.T) {
	vkit.Check(t, 1600, 24000, func(t *rapid.T) {
		c := Case{Kind: "mapping-quota-history", Limit: rapid.IntRange(1, 3).Draw(t, "quota"), Backend: rapid.SampledFrom([]string{"memory", "hybrid", "hybrid-shared"}).Draw(t, "backend")}
		step := rapid.Custom(func(t *rapid.T) string {
			switch rapid.SampledFrom([]string{"M", "M", "M", "M", "D", "V"}).Draw(t, "op") {
			case "D":
				return fmt.Sprintf("D%d", rapid.IntRange(0, 4).Draw(t, "mapping"))
			case "V":
				return fmt.Sprintf("V%d", rapid.IntRange(0, 4).Draw(t, "mapping"))
			}
			tg := rapid.IntRange(0, 2).Draw(t, "target")
			ls := (tg + 1 + rapid.IntRange(0, 1).Draw(t, "listener")) % 3
			return fmt.Sprintf("M%c%c", 'a'+byte(tg), 'a'+byte(ls))
		})
		c.Hist = rapid.SliceOfN(step, 2, 12).Draw(t, "history")
		runMapHistory(t, nil, c)
	})
}
