package c17

import (
	"fmt"
	"testing"
	"time"

	"pgregory.net/rapid"

	"tunnox-core/verif/vkit"
)

// ---- (3e) the user quota changes (or its lookup fails) while the handler is running -----------
//
// Mapping with MaxConnections 0: the limit is whatever the quota source answers NOW. A round is a
// sequence of phases (quota value, or -1 = the lookup fails => no limit is known); in every phase,
// with no connection left from before, quota+3 long-lived connections arrive: the tunnels open at
// the same time never exceed the quota of the CURRENT phase (a failing lookup refuses nothing).

func roundQuotaScript(t vkit.TB, c Case) {
	r, err := newMappingRig(0, "mapping")
	if err != nil {
		vkit.Violation(t, "C17/harness/mapping-rig", err.Error(), c)
		return
	}
	defer r.close()
	const pfx = "C17/mapping-max-connections/handleConnection/"
	for phase, q := range c.Ops {
		q := q
		r.cl.quotaNow.Store(&q)
		// nothing left from the previous phase
		for _, p := range r.peers {
			p.Close()
		}
		r.peers = nil
		r.cl.mu.Lock()
		for _, f := range r.cl.far { // the far ends of the tunnels too, so that both copy directions end
			f.Close()
		}
		r.cl.far = nil
		r.cl.mu.Unlock()
		for wait := time.Now().Add(5 * time.Second); r.cl.open.cur.Load() > 0; {
			if time.Now().After(wait) {
				vkit.Skipped(1)
				return
			}
			time.Sleep(200 * time.Microsecond)
		}
		time.Sleep(time.Millisecond) // the handlers' OnClosed (slot release) follows the connection close
		r.cl.open.max.Store(0)
		n := 4
		if q > 0 {
			n = q + 3
		}
		burst := phase%2 == 1
		if burst {
			if !r.feed(n) {
				vkit.Skipped(1)
				return
			}
		} else {
			for i := 0; i < n; i++ {
				if !r.feed(1) {
					vkit.Skipped(1)
					return
				}
			}
		}
		openMax := r.cl.open.Max()
		detail := fmt.Sprintf("mapping MaxConnections=0; user quota per phase %v (-1 = lookup fails), phase %d: quota now %d, %d connections offered (burst=%v): at most %d tunnels open at the same time",
			c.Ops, phase, q, n, burst, openMax)
		if q > 0 && openMax > q {
			vkit.Violation(t, pfx+"over-admission-after-quota-change", detail, c)
			return
		}
	}
	vkit.Case("mapping-cap/quota-script", len(c.Ops) > 1, fmt.Sprintf("qscript|%v", c.Ops))
}

func TestMappingQuotaScript(t *testing.T) {
	idx := 0
	for _, h := range [][]int{{-1, 1}, {-1, 2}, {5, 1}, {3, 1, 2}, {1, -1, 1}, {2, 2}, {-1, -1, 3}, {1, 5, 1}} {
		idx++
		if vkit.Mine(idx) {
			roundQuotaScript(t, Case{Kind: "mapping-cap", Mode: "quota-script", Ops: h, Rounds: 3})
		}
	}
	vkit.Check(t, 240, 4000, func(t *rapid.T) {
		c := Case{Kind: "mapping-cap", Mode: "quota-script", Rounds: 3}
		c.Ops = rapid.SliceOfN(rapid.SampledFrom([]int{-1, 1, 1, 2, 3, 5}), 2, 4).Draw(t, "quotaPerPhase")
		roundQuotaScript(t, c)
	})
}
