package c18

// part 4: the same models driven through the real handshake path (SessionManager.HandlePacket ->
// ServerAuthHandler.HandleHandshake) of the mini-server.

import (
	"context"
	"fmt"
	"strings"
	"testing"
	"time"

	"pgregory.net/rapid"

	"tunnox-core/internal/core/storage"
	"tunnox-core/internal/packet"
	"tunnox-core/internal/security"
	"tunnox-core/verif/vkit"
	"tunnox-core/verif/vkit/miniserver"
)

type SrvCfg struct {
	TLCfg
	Rate  int `json:"rate"`
	Burst int `json:"burst"`
}

type SrvStep struct {
	Op    string `json:"op"` // anon | login | unknown | wrong | nochallenge | bl-add | bl-rm | wl-add | wl-rm | park | resume-good | resume-bad | restart | rehs-same | rehs-other | rehs-wrong | anon-id
	Addr  int    `json:"addr"`
	Key   int    `json:"key,omitempty"` // list operations: index into srvKeys
	AtMs  int    `json:"at_ms"`
	N     int    `json:"n,omitempty"`
	DurMs int    `json:"dur_ms,omitempty"`
}

type SrvCase struct {
	Cfg   SrvCfg    `json:"cfg"`
	Steps []SrvStep `json:"steps"`
}

var srvAddrs = []string{"10.5.0.5", "10.5.0.9"}
var srvKeys = []string{"10.5.0.5", "10.5.0.9", "10.5.0.0/24"}

func genSrv(t *rapid.T) SrvCase {
	var c SrvCase
	c.Cfg.M = rapid.IntRange(1, 4).Draw(t, "m")
	c.Cfg.P = rapid.IntRange(c.Cfg.M, 8).Draw(t, "p")
	if rapid.Bool().Draw(t, "highP") {
		c.Cfg.P = rapid.IntRange(6, 8).Draw(t, "p2")
	}
	c.Cfg.WMs, c.Cfg.BanMs = 200, 150
	c.Cfg.CleanupMs = rapid.SampledFrom([]int{50, 3600000}).Draw(t, "cleanup")
	c.Cfg.Rate = rapid.SampledFrom([]int{2, 10, 40, 100}).Draw(t, "rate")
	c.Cfg.Burst = rapid.SampledFrom([]int{1, 3, 6}).Draw(t, "burst")
	n := rapid.IntRange(5, 13).Draw(t, "nsteps")
	ops := []string{"unknown", "unknown", "unknown", "wrong", "wrong", "nochallenge", "nochallenge", "login", "login", "login", "anon", "anon", "anon", "bl-add", "bl-add", "bl-rm", "wl-add", "wl-rm",
		// park: phase one on a connection that is then kept with its pending challenge; resume-*: phase two on the oldest
		// parked connection of the address (right / wrong response); restart: second server over the same storage
		"park", "resume-good", "resume-good", "resume-bad", "restart",
		// rehs-*: another handshake on a connection of the address that is already authenticated and still open
		// (same client id / unknown id / challenge response out of the blue)
		"rehs-same", "rehs-same", "rehs-other", "rehs-wrong",
		// anon-id: registration token ("new-client" / "anonymous:*") with a non-zero client id, repeated faster than the bucket allows
		"anon-id", "anon-id"}
	var bounds []int
	T := 0
	restarted := false
	if rapid.Bool().Draw(t, "authFirst") {
		// directed: an authenticated connection of the address exists before anything else happens to it
		c.Steps = append(c.Steps, SrvStep{Op: "login", Addr: 0, AtMs: 0, N: rapid.IntRange(1, 2).Draw(t, "nauthed")})
	}
	if rapid.Bool().Draw(t, "parkFirst") {
		// directed: connections parked before anything else happens to the address
		c.Steps = append(c.Steps, SrvStep{Op: "park", Addr: 0, AtMs: 0, N: rapid.IntRange(1, 3).Draw(t, "nparked")})
	}
	if refillMs := 1000*c.Cfg.Burst/c.Cfg.Rate + 10; c.Cfg.Burst >= 2 && refillMs <= 320 && rapid.IntRange(0, 2).Draw(t, "idleThenBurst") == 0 {
		// directed rate history on the second address: one registration creates the bucket and leaves tokens in it,
		// the address stays idle for a full refill, then asks for far more than the burst in a row
		c.Steps = append(c.Steps, SrvStep{Op: "anon", Addr: 1, AtMs: 0, N: 1}, SrvStep{Op: "anon", Addr: 1, AtMs: refillMs, N: 2*c.Cfg.Burst + 2})
		T = refillMs
	}
	for i := 0; i < n && T < 1100; i++ {
		s := SrvStep{Op: rapid.SampledFrom(ops).Draw(t, "op")}
		if rapid.IntRange(0, 9).Draw(t, "addrSel") >= 8 {
			s.Addr = 1
		}
		if s.Op == "restart" {
			if restarted {
				s.Op = "login"
			}
			restarted = true
		}
		T = avoid(T+rapid.SampledFrom(gapGrid).Draw(t, "gap"), bounds)
		s.AtMs = T
		switch s.Op {
		case "unknown", "wrong", "nochallenge":
			s.N = rapid.SampledFrom([]int{1, 1, 2, c.Cfg.M, c.Cfg.M}).Draw(t, "n")
			bounds = append(bounds, T+c.Cfg.WMs, T+c.Cfg.BanMs)
		case "resume-bad", "rehs-other", "rehs-wrong":
			bounds = append(bounds, T+c.Cfg.WMs, T+c.Cfg.BanMs)
		case "park":
			s.N = rapid.IntRange(1, 2).Draw(t, "n")
		case "anon":
			s.N = rapid.IntRange(1, c.Cfg.Burst+3).Draw(t, "n")
		case "anon-id":
			s.N = rapid.IntRange(c.Cfg.Burst+2, c.Cfg.Burst+4).Draw(t, "n")
			s.Key = rapid.IntRange(0, 1).Draw(t, "idKind")
			if s.Key == 0 {
				bounds = append(bounds, T+c.Cfg.WMs, T+c.Cfg.BanMs) // unknown ids are failed authentications
			}
		case "bl-add":
			s.Key = rapid.SampledFrom([]int{0, 0, 1, 2}).Draw(t, "key")
			s.DurMs = rapid.SampledFrom([]int{0, 100, 100}).Draw(t, "dur")
			if s.DurMs > 0 {
				bounds = append(bounds, T+s.DurMs)
			}
		case "bl-rm", "wl-add", "wl-rm":
			s.Key = rapid.SampledFrom([]int{0, 0, 1, 2}).Draw(t, "key")
		}
		c.Steps = append(c.Steps, s)
	}
	// closing attempts with good credentials
	T = avoid(T+rapid.SampledFrom([]int{0, 45, 185}).Draw(t, "tailGap"), bounds)
	c.Steps = append(c.Steps, SrvStep{Op: rapid.SampledFrom([]string{"login", "anon", "resume-good", "resume-good", "rehs-same", "rehs-same"}).Draw(t, "tailOp"), Addr: 0, AtMs: T, N: 1})
	return c
}

func srvSig(c SrvCase) string {
	var sb strings.Builder
	fmt.Fprintf(&sb, "%d/%d/%d/%d/%d|", c.Cfg.M, c.Cfg.P, c.Cfg.CleanupMs, c.Cfg.Rate, c.Cfg.Burst)
	for _, s := range c.Steps {
		fmt.Fprintf(&sb, "%s%d.%d@%d*%d/%d;", s.Op, s.Addr, s.Key, s.AtMs, s.N, s.DurMs)
	}
	return sb.String()
}

// outcome classifies how the server answered one handshake packet.
func outcome(resp *packet.HandshakeResponse, herr error) string {
	if resp != nil && resp.Success {
		return "success"
	}
	if resp != nil && resp.NeedResponse {
		return "challenge"
	}
	msg := ""
	if herr != nil {
		msg = herr.Error()
	}
	if resp != nil {
		msg += " | " + resp.Error
	}
	switch {
	case strings.Contains(msg, "IP blacklisted"):
		return "blacklisted"
	case strings.Contains(msg, "IP banned"):
		return "banned"
	case strings.Contains(msg, "rate limit exceeded"):
		return "ratelimited"
	case strings.Contains(msg, "no pending challenge"):
		return "nochallenge"
	case strings.Contains(msg, "verification failed"):
		return "invalid"
	case strings.Contains(msg, "not found"):
		return "notfound"
	}
	return "other:" + msg
}

type srvWorld struct {
	t      vkit.TB
	c      *SrvCase
	srv    *miniserver.Server
	start  time.Time
	port   int
	id     int64
	secret string
	bf     []*ipModel
	lists  *ipmModel
	undet  []string
	anon   [][]rateObs
	trace  []string
	feats  map[string]int
	failed bool
	parked [][]parkedConn         // per address: connections holding a pending challenge
	authed [][]*miniserver.Client // per address: connections authenticated as client w.id and still open
	suffix string                 // appended to violation keys of the current call (root-cause region)
}

type parkedConn struct {
	cl        *miniserver.Client
	challenge string
}

func (w *srvWorld) now() time.Duration { return time.Since(w.start) }

// call performs one handshake packet from addr on conn (nil: fresh connection) and applies the gate oracle.
// It returns the outcome and whether the credential stage was reached according to the outcome.
func (w *srvWorld) call(si int, addr int, cl *miniserver.Client, req *packet.HandshakeRequest, goodCreds bool, what string) (kind string, client *miniserver.Client) {
	kind, _, client = w.callR(si, addr, cl, req, goodCreds, what)
	return
}

func (w *srvWorld) callR(si int, addr int, cl *miniserver.Client, req *packet.HandshakeRequest, goodCreds bool, what string) (kind string, resp *packet.HandshakeResponse, client *miniserver.Client) {
	ip := srvAddrs[addr]
	if cl == nil {
		w.port++
		var err error
		cl, err = w.srv.Connect(fmt.Sprintf("%s:%d", ip, 20000+w.port))
		if err != nil {
			w.t.Fatalf("connect: %v", err)
		}
	}
	b := w.now()
	var herr, rerr error
	resp, herr, rerr = cl.Handshake(req)
	a := w.now()
	iv := ival{b, a}
	if rerr != nil {
		// no response packet at all: not an answer this property can judge
		w.undet[addr] = "no handshake response: " + rerr.Error()
		w.feats["no-response"]++
		return "none", nil, cl
	}
	kind = outcome(resp, herr)
	// every answer that hands out fresh credentials is an anonymous registration of this address, whatever the
	// request looked like; together with the limiter's refusals these are the observations of the rate oracle
	if (kind == "success" && resp.SecretKey != "") || kind == "ratelimited" {
		w.anon[addr] = append(w.anon[addr], rateObs{iv, kind == "success"})
		if kind == "success" && req.ClientID != 0 {
			w.feats["registration-granted-to-request-quoting-a-client-id"]++
		}
	}
	wantAllowed, blKey, blWhy := w.lists.allowed(ip, iv, covers)
	wantBan := w.bf[addr].query(iv)
	w.trace = append(w.trace, fmt.Sprintf("%d:%s %s [%v,%v] -> %s (model: listed-allowed=%v banned=%v)", si, what, ip, b.Round(time.Microsecond), a.Round(time.Microsecond), kind, wantAllowed, wantBan))
	refused := kind != "success" && kind != "challenge"
	fail := func(key, why string) {
		detail := fmt.Sprintf("step %d %s from %s answered %q: %s | cfg m=%d p=%d window=%dms ban=%dms cleanup=%dms rate=%d burst=%d | trace: %s",
			si, what, ip, kind, why, w.c.Cfg.M, w.c.Cfg.P, w.c.Cfg.WMs, w.c.Cfg.BanMs, w.c.Cfg.CleanupMs, w.c.Cfg.Rate, w.c.Cfg.Burst, strings.Join(w.trace, " ; "))
		key += w.suffix
		vkit.Violation(w.t, key, detail, Replay{Kind: "server", Srv: w.c})
		vkit.Case("known:"+key, false, "")
		w.failed = true
	}
	if w.undet[addr] != "" {
		vkit.Skipped(1)
		return kind, resp, cl
	}
	// gate 1: black / white list
	switch {
	case wantAllowed == Unknown:
		vkit.Skipped(1)
	case kind == "blacklisted" && wantAllowed == Yes:
		fail(blKey+"/via-handshake", blWhy)
		return kind, resp, cl
	case wantAllowed == No && !refused:
		fail(blKey+"/via-handshake", "blacklisted address was not refused: "+blWhy)
		return kind, resp, cl
	case wantAllowed == No && kind != "blacklisted":
		w.undet[addr] = "blacklisted address refused by a later stage (" + kind + ")"
		w.feats["blacklisted-refused-by-other-stage"]++
		return kind, resp, cl
	}
	if kind == "blacklisted" {
		w.feats["refused:blacklisted"]++
		if goodCreds {
			w.feats["refused:blacklisted-with-good-credentials"]++
		}
		return kind, resp, cl
	}
	// gate 2: brute-force ban
	switch {
	case wantBan == Unknown:
		vkit.Skipped(1)
	case kind == "banned" && wantBan == No:
		key, why := w.bf[addr].classify(No, iv)
		fail(key+"/via-handshake", "address below the threshold refused as banned: "+why)
		return kind, resp, cl
	case wantBan == Yes && !refused:
		key, why := w.bf[addr].classify(Yes, iv)
		fail(key+"/via-handshake", "banned address was not refused: "+why)
		return kind, resp, cl
	case wantBan == Yes && kind != "banned":
		w.undet[addr] = "banned address refused by a later stage (" + kind + ")"
		if b := w.bf[addr].ban; b != nil && b.perm && !b.permCertain {
			// bad credentials: the refusal itself says nothing; the credential stage was reached because the
			// lifetime total had been forgotten (listed finding) - only good credentials make that a let-in
			w.feats["uncertain-permanent-ban:bad-credentials-refused-by-credential-stage"]++
		} else {
			w.feats["banned-refused-by-other-stage:"+kind]++
		}
		return kind, resp, cl
	}
	if kind == "banned" {
		w.feats["refused:banned"]++
		if goodCreds {
			w.feats["refused:banned-with-good-credentials"]++
		}
		return kind, resp, cl
	}
	// credential stage reached: apply the documented effects
	switch kind {
	case "notfound", "invalid", "nochallenge":
		w.bf[addr].failure(iv)
		w.feats["failure-recorded:"+kind]++
	case "success":
		w.bf[addr].success()
		w.feats["success"]++
	}
	return kind, resp, cl
}

func runSrv(t vkit.TB, c SrvCase) {
	// the storage outlives a server: "restart" builds a second server (node-2) over it
	sctx, scancel := context.WithCancel(context.Background())
	defer scancel()
	hc := &storage.HybridStorageConfig{CacheType: "memory", EnablePersistent: false, HybridConfig: storage.DefaultHybridConfig()}
	hc.HybridConfig.EnablePersistent = false
	st, err := storage.NewStorageFactory(sctx).CreateStorage(hc)
	if err != nil {
		t.Fatalf("storage: %v", err)
	}
	newServer := func(node string) *miniserver.Server {
		srv, err := miniserver.New(miniserver.Options{
			Storage:    st,
			NodeID:     node,
			BruteForce: c.Cfg.real(),
			IPRate:     &security.RateLimitConfig{Rate: c.Cfg.Rate, Burst: c.Cfg.Burst, TTL: 5 * time.Minute},
		})
		if err != nil {
			t.Fatalf("miniserver: %v", err)
		}
		return srv
	}
	srv := newServer("node-1")
	var servers []*miniserver.Server
	servers = append(servers, srv)
	defer func() {
		for _, s := range servers {
			s.Close()
		}
	}()
	// credentials of an existing client, registered from an unrelated address
	setup, err := srv.Connect("10.99.0.1:4000")
	if err != nil {
		t.Fatalf("connect: %v", err)
	}
	if r, err := setup.HandshakeNew("control"); err != nil || r == nil || !r.Success {
		t.Fatalf("setup registration failed: %+v %v", r, err)
	}
	setup.CloseByPeer()
	w := &srvWorld{t: t, c: &c, srv: srv, id: setup.ClientID, secret: setup.Secret, lists: newIPMModel(), feats: map[string]int{},
		undet: make([]string, len(srvAddrs)), anon: make([][]rateObs, len(srvAddrs)), parked: make([][]parkedConn, len(srvAddrs)), authed: make([][]*miniserver.Client, len(srvAddrs))}
	notes := map[string]int{}
	for range srvAddrs {
		w.bf = append(w.bf, newIPModel(c.Cfg.model(), notes))
	}
	var open []*miniserver.Client
	defer func() {
		for _, cl := range open {
			cl.CloseByPeer()
		}
	}()
	base := func(id int64) *packet.HandshakeRequest {
		return &packet.HandshakeRequest{ClientID: id, Version: "2.0", Protocol: "tcp", ConnectionType: "control"}
	}
	w.start = time.Now()
	for si, s := range c.Steps {
		sleepUntil(w.start, s.AtMs)
		n := s.N
		if n < 1 {
			n = 1
		}
		switch s.Op {
		case "bl-add":
			b := w.now()
			if err := w.srv.IPM.AddToBlacklist(srvKeys[s.Key], ms(s.DurMs), "verif", "c18"); err != nil {
				t.Fatalf("AddToBlacklist: %v", err)
			}
			w.lists.addBlack(srvKeys[s.Key], ival{b, w.now()}, ms(s.DurMs))
			w.trace = append(w.trace, fmt.Sprintf("%d:bl-add %s %dms @%v", si, srvKeys[s.Key], s.DurMs, b.Round(time.Microsecond)))
		case "bl-rm":
			w.srv.IPM.RemoveFromBlacklist(srvKeys[s.Key])
			w.lists.removeBlack(srvKeys[s.Key])
			w.trace = append(w.trace, fmt.Sprintf("%d:bl-rm %s @%v", si, srvKeys[s.Key], w.now().Round(time.Microsecond)))
		case "wl-add":
			if err := w.srv.IPM.AddToWhitelist(srvKeys[s.Key], "verif", "c18"); err != nil {
				t.Fatalf("AddToWhitelist: %v", err)
			}
			w.lists.addWhite(srvKeys[s.Key])
			w.trace = append(w.trace, fmt.Sprintf("%d:wl-add %s @%v", si, srvKeys[s.Key], w.now().Round(time.Microsecond)))
		case "wl-rm":
			w.srv.IPM.RemoveFromWhitelist(srvKeys[s.Key])
			w.lists.removeWhite(srvKeys[s.Key])
			w.trace = append(w.trace, fmt.Sprintf("%d:wl-rm %s @%v", si, srvKeys[s.Key], w.now().Round(time.Microsecond)))
		case "anon":
			for k := 0; k < n && !w.failed; k++ {
				kind, cl := w.call(si, s.Addr, nil, &packet.HandshakeRequest{ClientID: 0, Token: "new-client", Version: "2.0", Protocol: "tcp", ConnectionType: "control"}, true, "anonymous registration")
				open = append(open, cl)
				if kind == "ratelimited" {
					w.feats["refused:ratelimited"]++
				}
			}
		case "anon-id":
			// a registration token together with a NON-ZERO client id (unknown id / the id of an existing client):
			// not a first connection; if it is served as a registration anyway it counts against rate and burst
			for k := 0; k < n && !w.failed; k++ {
				req := base(int64(555000 + si*100 + k))
				what := "registration token quoting an unknown client id"
				if s.Key == 1 {
					req.ClientID = w.id
					what = "registration token quoting an existing client id"
				}
				req.Token = []string{"new-client", "anonymous:device-7"}[k%2]
				_, cl := w.call(si, s.Addr, nil, req, false, what)
				open = append(open, cl)
			}
		case "unknown":
			for k := 0; k < n && !w.failed; k++ {
				_, cl := w.call(si, s.Addr, nil, base(987654321), false, "login with unknown client id")
				open = append(open, cl)
			}
		case "nochallenge":
			for k := 0; k < n && !w.failed; k++ {
				req := base(w.id)
				req.ChallengeResponse = miniserver.ComputeResponse(w.secret, "never-issued-challenge")
				_, cl := w.call(si, s.Addr, nil, req, false, "challenge response without a pending challenge")
				open = append(open, cl)
			}
		case "restart":
			// second node / restart over the same storage: lists and client credentials are persisted, bans,
			// failure counters and token buckets are process state and start empty
			for ai, obs := range w.anon {
				if bad, detail := rateBound(obs, c.Cfg.Rate, c.Cfg.Burst); bad {
					vkit.Violation(t, "C18/rate/anonymous-registrations-exceed-rate-and-burst/via-handshake", "address "+srvAddrs[ai]+": "+detail+" | trace: "+strings.Join(w.trace, " ; "), Replay{Kind: "server", Srv: &c})
					vkit.Case("known:C18/rate/anonymous-registrations-exceed-rate-and-burst/via-handshake", false, "")
					return
				}
				w.anon[ai] = nil
			}
			time.Sleep(3 * time.Millisecond) // asynchronous removals of the old process finish
			w.srv = newServer("node-2")
			servers = append(servers, w.srv)
			w.lists.reload()
			for ai := range w.bf {
				w.bf[ai] = newIPModel(c.Cfg.model(), notes)
				w.parked[ai] = nil
				w.authed[ai] = nil
			}
			w.feats["restart"]++
			w.trace = append(w.trace, fmt.Sprintf("%d:restart (second server over the same storage) @%v", si, w.now().Round(time.Microsecond)))
		case "park":
			for k := 0; k < n && !w.failed; k++ {
				kind, r1, cl := w.callR(si, s.Addr, nil, base(w.id), true, "phase 1 on a connection that stays parked")
				open = append(open, cl)
				if kind == "challenge" && r1 != nil {
					w.parked[s.Addr] = append(w.parked[s.Addr], parkedConn{cl, r1.Challenge})
					w.feats["parked-connection"]++
				}
			}
		case "resume-good", "resume-bad":
			if len(w.parked[s.Addr]) == 0 {
				w.feats["resume-without-parked-connection"]++
				break
			}
			pc := w.parked[s.Addr][0]
			w.parked[s.Addr] = w.parked[s.Addr][1:]
			good := s.Op == "resume-good"
			secret, what := w.secret, "phase 2 (valid response) on a parked connection"
			if !good {
				secret, what = "not-the-secret", "phase 2 (wrong response) on a parked connection"
			}
			req := base(w.id)
			req.ChallengeResponse = miniserver.ComputeResponse(secret, pc.challenge)
			w.suffix = "/parked-challenge-continuation"
			kind2, _ := w.call(si, s.Addr, pc.cl, req, good, what)
			w.suffix = ""
			if w.failed {
				break
			}
			switch kind2 {
			case "banned", "blacklisted":
				w.feats["refused:parked-phase-two-while-banned-or-blacklisted"]++
			case "none":
			default:
				want2 := "success"
				if !good {
					want2 = "invalid"
				}
				if kind2 != want2 {
					w.feats["unexpected-outcome:"+kind2]++
					w.undet[s.Addr] = "parked phase 2 answered " + kind2
				}
			}
		case "wrong", "login":
			for k := 0; k < n && !w.failed; k++ {
				good := s.Op == "login"
				what := "login with wrong response"
				if good {
					what = "login with valid credentials"
				}
				kind, r1, cl := w.callR(si, s.Addr, nil, base(w.id), good, what+" (phase 1)")
				open = append(open, cl)
				if kind != "challenge" || w.failed {
					if kind != "banned" && kind != "blacklisted" && kind != "none" && !w.failed {
						w.feats["unexpected-outcome:"+kind]++
						w.undet[s.Addr] = "phase 1 answered " + kind
					}
					continue
				}
				req := base(w.id)
				challenge := r1.Challenge
				secret := w.secret
				if !good {
					secret = "not-the-secret"
				}
				req.ChallengeResponse = miniserver.ComputeResponse(secret, challenge)
				kind2, _ := w.call(si, s.Addr, cl, req, good, what+" (phase 2)")
				if w.failed {
					break
				}
				want2 := "success"
				if !good {
					want2 = "invalid"
				}
				if kind2 != want2 && kind2 != "banned" && kind2 != "blacklisted" && kind2 != "none" {
					w.feats["unexpected-outcome:"+kind2]++
					w.undet[s.Addr] = "phase 2 answered " + kind2
				}
				if good && kind2 == "success" {
					w.authed[s.Addr] = append(w.authed[s.Addr], cl)
					w.feats["authenticated-open-connection"]++
				}
			}
		case "rehs-same", "rehs-other", "rehs-wrong":
			if len(w.authed[s.Addr]) == 0 {
				w.feats["rehandshake-without-authenticated-connection"]++
				break
			}
			// the most recent authenticated connection stays in the pool: it can be asked again
			cl := w.authed[s.Addr][len(w.authed[s.Addr])-1]
			w.suffix = "/rehandshake-on-authenticated-connection"
			switch s.Op {
			case "rehs-same":
				kind, r1, _ := w.callR(si, s.Addr, cl, base(w.id), true, "handshake again (same client id, phase 1) on an authenticated connection")
				if kind == "challenge" && r1 != nil && !w.failed {
					req := base(w.id)
					req.ChallengeResponse = miniserver.ComputeResponse(w.secret, r1.Challenge)
					kind, _ = w.call(si, s.Addr, cl, req, true, "handshake again (same client id, phase 2) on an authenticated connection")
					if kind != "success" && kind != "banned" && kind != "blacklisted" && kind != "none" && !w.failed {
						w.feats["unexpected-outcome:"+kind]++
						w.undet[s.Addr] = "re-handshake phase 2 answered " + kind
					}
				} else if kind != "banned" && kind != "blacklisted" && kind != "none" && !w.failed {
					w.feats["unexpected-outcome:"+kind]++
					w.undet[s.Addr] = "re-handshake phase 1 answered " + kind
				}
				if kind == "banned" || kind == "blacklisted" {
					w.feats["refused:rehandshake-on-authenticated-connection-while-banned-or-blacklisted"]++
				}
			case "rehs-other":
				kind, _ := w.call(si, s.Addr, cl, base(987654321), false, "handshake again (unknown client id) on an authenticated connection")
				if kind == "banned" || kind == "blacklisted" {
					w.feats["refused:rehandshake-on-authenticated-connection-while-banned-or-blacklisted"]++
				}
			case "rehs-wrong":
				req := base(w.id)
				req.ChallengeResponse = miniserver.ComputeResponse("not-the-secret", "never-issued-challenge")
				kind, _ := w.call(si, s.Addr, cl, req, false, "handshake again (response without challenge) on an authenticated connection")
				if kind == "banned" || kind == "blacklisted" {
					w.feats["refused:rehandshake-on-authenticated-connection-while-banned-or-blacklisted"]++
				}
			}
			w.suffix = ""
		}
		if w.failed {
			return
		}
	}
	// anonymous registrations per address never exceed rate + burst
	for ai, obs := range w.anon {
		if bad, detail := rateBound(obs, c.Cfg.Rate, c.Cfg.Burst); bad {
			vkit.Violation(t, "C18/rate/anonymous-registrations-exceed-rate-and-burst/via-handshake", "address "+srvAddrs[ai]+": "+detail+" | trace: "+strings.Join(w.trace, " ; "), Replay{Kind: "server", Srv: &c})
			vkit.Case("known:C18/handshake/rate/anonymous-registrations-exceed-rate-and-burst", false, "")
			return
		}
	}
	goodRefused := w.feats["refused:banned-with-good-credentials"] + w.feats["refused:blacklisted-with-good-credentials"]
	class := "srv:no-refusal"
	switch {
	case goodRefused > 0:
		class = "srv:good-credentials-refused-while-banned-or-blacklisted"
	case w.feats["refused:banned"]+w.feats["refused:blacklisted"] > 0:
		class = "srv:refusal"
	}
	if w.feats["refused:parked-phase-two-while-banned-or-blacklisted"] > 0 {
		class = "srv:parked-phase-two-refused-while-banned-or-blacklisted"
	}
	if w.feats["refused:rehandshake-on-authenticated-connection-while-banned-or-blacklisted"] > 0 {
		class = "srv:rehandshake-on-authenticated-connection-refused-while-banned-or-blacklisted"
	}
	vkit.Case(class, goodRefused > 0 || w.feats["refused:parked-phase-two-while-banned-or-blacklisted"] > 0 ||
		w.feats["refused:rehandshake-on-authenticated-connection-while-banned-or-blacklisted"] > 0, srvSig(c))
	for k, v := range w.feats {
		for i := 0; i < v; i++ {
			vkit.Class("srv:" + k)
		}
	}
	for k, v := range notes {
		for i := 0; i < v; i++ {
			vkit.Class("srv:model:" + k)
		}
	}
	for _, u := range w.undet {
		if u != "" {
			vkit.Class("srv:address-undetermined")
		}
	}
	vkit.Sample(class, c)
}

func TestHandshake(t *testing.T) {
	vkit.Check(t, 112, 2240, func(t *rapid.T) {
		runSrv(t, genSrv(t))
	})
}
