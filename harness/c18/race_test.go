package c18

// part 5: contention rounds for the asynchronous removal paths (and for the order in which concurrent
// failures write their bans). Every round uses a fresh address; the verdict is taken after quiescence
// (goroutine count back to the level before the round) and needs no timing assumption: a ban / blacklist
// entry written for one hour must be there whatever happened before.

import (
	"context"
	"fmt"
	"runtime"
	"sync"
	"sync/atomic"
	"testing"
	"time"

	"tunnox-core/internal/security"
	"tunnox-core/verif/vkit"
	"tunnox-core/verif/vkit/miniserver"
)

type RaceCase struct {
	Mode      string `json:"mode"`
	Rounds    int    `json:"rounds"`
	CleanupMs int    `json:"cleanup_ms"`
}

var raceModes = []string{"ban/seq-requery", "ban/par-requery", "ban/par-manual-ban", "ban/perm-order", "list/seq-readd", "list/par-readd", "list/par-expired-cidr-then-exact-add"}

// waitQuiet waits until no goroutine spawned during the round is left.
func waitQuiet(baseline int) bool {
	deadline := time.Now().Add(2 * time.Second)
	for i := 0; ; i++ {
		if runtime.NumGoroutine() <= baseline {
			return true
		}
		if time.Now().After(deadline) {
			return false
		}
		if i < 50 {
			runtime.Gosched()
		} else {
			time.Sleep(50 * time.Microsecond)
		}
	}
}

func settle() int {
	// let goroutines of earlier cases finish so that the baseline is stable
	prev, stable := runtime.NumGoroutine(), 0
	for i := 0; i < 400 && stable < 20; i++ {
		time.Sleep(time.Millisecond)
		if n := runtime.NumGoroutine(); n == prev {
			stable++
		} else {
			prev, stable = n, 0
		}
	}
	return prev
}

func spinFor(d time.Duration) {
	for t0 := time.Now(); time.Since(t0) < d; {
	}
}

// both runs f and g on two goroutines released together by a spin barrier.
func both(f, g func()) {
	var ready, goFlag int32
	var wg sync.WaitGroup
	wg.Add(2)
	run := func(fn func()) {
		defer wg.Done()
		atomic.AddInt32(&ready, 1)
		for i := 0; atomic.LoadInt32(&goFlag) == 0; i++ {
			if i > 20000 {
				runtime.Gosched() // oversubscribed machine: do not burn the time slice of the goroutine we wait for
			}
		}
		fn()
	}
	go run(f)
	go run(g)
	for atomic.LoadInt32(&ready) < 2 {
		runtime.Gosched()
	}
	atomic.StoreInt32(&goFlag, 1)
	wg.Wait()
}

func runRace(t vkit.TB, c RaceCase) {
	if len(c.Mode) > 5 && c.Mode[:5] == "rate/" {
		runRateRace(t, c)
		return
	}
	cleanup := time.Duration(c.CleanupMs) * time.Millisecond
	if cleanup <= 0 {
		cleanup = time.Hour
	}
	const batch = 100
	for done := 0; done < c.Rounds; done += batch {
		n := c.Rounds - done
		if n > batch {
			n = batch
		}
		if !raceBatch(t, c, cleanup, done, n) {
			return
		}
	}
}

func raceBatch(t vkit.TB, c RaceCase, cleanup time.Duration, off, n int) bool {
	ctx, cancel := context.WithCancel(context.Background())
	defer cancel()
	var p *security.BruteForceProtector
	var ipm *security.IPManager
	switch {
	case c.Mode == "ban/perm-order":
		p = security.NewBruteForceProtector(&security.BruteForceConfig{MaxFailures: 1, TimeWindow: time.Hour, BanDuration: 2 * time.Millisecond, PermanentBanAt: 2, CleanupInterval: cleanup}, ctx)
	case c.Mode[:4] == "ban/":
		p = security.NewBruteForceProtector(&security.BruteForceConfig{MaxFailures: 2, TimeWindow: time.Hour, BanDuration: time.Hour, PermanentBanAt: 1000, CleanupInterval: cleanup}, ctx)
	default:
		srv, err := miniserver.New(miniserver.Options{NoCommands: true})
		if err != nil {
			t.Fatalf("miniserver: %v", err)
		}
		defer srv.Close()
		ipm = srv.IPM
	}
	baseline := settle()
	for r := 0; r < n; r++ {
		idx := off + r
		ip := fmt.Sprintf("10.%d.%d.%d", 100+idx/65536%100, idx/256%256, idx%256)
		var key, detail, class string
		nontrivial := false
		switch c.Mode {
		case "ban/seq-requery", "ban/par-requery", "ban/par-manual-ban":
			p.BanIP(ip, time.Microsecond, "expired")
			spinFor(20 * time.Microsecond)
			var sawBanned bool
			var qb time.Time
			query := func() { qb = time.Now(); sawBanned, _ = p.IsBanned(ip) }
			stagger := time.Duration(idx%8) * 250 * time.Nanosecond // vary which side reaches the lock first
			reban := func() { spinFor(stagger); p.RecordFailure(ip); p.RecordFailure(ip) }
			if c.Mode == "ban/par-manual-ban" {
				reban = func() { spinFor(stagger); p.BanIP(ip, time.Hour, "manual") }
			}
			if c.Mode == "ban/seq-requery" {
				query()
				reban()
			} else {
				both(query, reban)
			}
			if !waitQuiet(baseline) {
				vkit.Skipped(1)
				baseline = settle()
				continue
			}
			var bannedAt time.Time
			for _, rec := range p.GetBannedIPs() {
				if rec.IP == ip {
					bannedAt = rec.BannedAt
				}
			}
			// non-trivial: the query saw the expired record (so an async unban was spawned) and the fresh ban was written after the query began
			nontrivial = !sawBanned
			class = "race:" + c.Mode + ":query-saw-fresh-ban"
			if !sawBanned {
				class = "race:" + c.Mode + ":async-unban-spawned"
			}
			if banned, _ := p.IsBanned(ip); !banned {
				key = "C18/async-unban-erases-fresh-ban/contention/" + c.Mode[4:]
				detail = fmt.Sprintf("round %d: expired ban present, IsBanned(%s) [returned %v, began %v] raced with a fresh 1h ban [record BannedAt %v]; after quiescence the address is not banned",
					idx, ip, sawBanned, qb.Format("15:04:05.000000"), bannedAt.Format("15:04:05.000000"))
			}
		case "ban/perm-order":
			both(func() { p.RecordFailure(ip) }, func() { p.RecordFailure(ip) })
			time.Sleep(5 * time.Millisecond) // > BanDuration: a temporary record written over the permanent one has expired by now
			nontrivial = true
			class = "race:" + c.Mode
			if banned, _ := p.IsBanned(ip); !banned {
				key = "C18/permanent-ban-replaced-by-temporary/contention/concurrent-failures-cross-permanent-threshold"
				detail = fmt.Sprintf("round %d: MaxFailures=1 PermanentBanAt=2 BanDuration=2ms, two concurrent RecordFailure(%s): the total reached 2 but 5ms later the address is not banned (the temporary ban of the first failure was written after the permanent one)", idx, ip)
			}
		case "list/seq-readd", "list/par-readd", "list/par-expired-cidr-then-exact-add":
			expKey := ip
			if c.Mode == "list/par-expired-cidr-then-exact-add" {
				expKey = ip + "/32"
			}
			if err := ipm.AddToBlacklist(expKey, time.Microsecond, "expired", "c18"); err != nil {
				t.Fatalf("AddToBlacklist: %v", err)
			}
			spinFor(20 * time.Microsecond)
			var sawAllowed bool
			query := func() { sawAllowed, _ = ipm.IsAllowed(ip) }
			stagger := time.Duration(idx%8) * 250 * time.Nanosecond
			readd := func() { spinFor(stagger); ipm.AddToBlacklist(ip, time.Hour, "fresh", "c18") }
			if c.Mode == "list/seq-readd" {
				query()
				readd()
			} else {
				both(query, readd)
			}
			if !waitQuiet(baseline) {
				vkit.Skipped(1)
				baseline = settle()
				continue
			}
			nontrivial = sawAllowed
			class = "race:" + c.Mode + ":query-saw-fresh-entry"
			if sawAllowed {
				class = "race:" + c.Mode + ":async-removal-spawned"
			}
			if allowed, _ := ipm.IsAllowed(ip); allowed {
				key = "C18/blacklist/async-remove-erases-readded-entry/contention/" + c.Mode[5:]
				detail = fmt.Sprintf("round %d: expired entry %s present, IsAllowed(%s) [returned %v] raced with AddToBlacklist(%s, 1h); after quiescence the address is allowed", idx, expKey, ip, sawAllowed, ip)
			}
		default:
			t.Fatalf("unknown race mode %q", c.Mode)
		}
		if key != "" {
			vkit.Violation(t, key, detail, Replay{Kind: "race", Race: &RaceCase{Mode: c.Mode, Rounds: 2000, CleanupMs: c.CleanupMs}})
			vkit.Case("known:"+key, false, "")
			return false
		}
		vkit.Case(class, nontrivial, fmt.Sprintf("%s/%d/%d/%d", c.Mode, c.CleanupMs, vkit.Shard(), idx))
	}
	return true
}

func TestRaces(t *testing.T) {
	// quick: ~40 000 rounds in total over all shards and modes
	perMode := vkit.PerShard(vkit.Pick(6000, 60000))
	for i, mode := range raceModes {
		rounds := perMode
		if mode == "ban/perm-order" {
			rounds = perMode / 3 // every round sleeps 5 ms
		}
		cleanupMs := 3600000
		if (i+vkit.Shard())%2 == 1 {
			cleanupMs = 1 // the periodic cleanup contends as well
		}
		runRace(t, RaceCase{Mode: mode, Rounds: rounds, CleanupMs: cleanupMs})
		if t.Failed() {
			return
		}
	}
}

// TestRateRaces: concurrent first contact of a fresh key (see raterace_test.go).
func TestRateRaces(t *testing.T) {
	perMode := vkit.PerShard(vkit.Pick(32000, 320000))
	for _, mode := range rateRaceModes {
		rounds := perMode
		if mode == "rate/first-connect-handshakes" {
			rounds = perMode / 5 // a mini-server and G connections per round
		}
		runRace(t, RaceCase{Mode: mode, Rounds: rounds})
		if t.Failed() {
			return
		}
	}
}
