package c18

// part 2: IPManager black/white list timelines; part 3: token-bucket bound of RateLimiter.AllowIP.

import (
	"context"
	"fmt"
	"net"
	"strings"
	"testing"
	"time"

	"pgregory.net/rapid"

	"tunnox-core/internal/security"
	"tunnox-core/verif/vkit"
	"tunnox-core/verif/vkit/miniserver"
)

// ---------------------------------------------------------------------------
// part 2

// list keys: two exact addresses inside 10.7.0.0/24, the /24, a /30 that covers only the first, one outside address
var ipmKeys = []string{"10.7.0.5", "10.7.0.9", "10.7.0.0/24", "10.7.0.4/30", "10.8.0.1"}
var ipmQueryable = []int{0, 1, 4}

func covers(key, ip string) bool {
	if strings.Contains(key, "/") {
		_, n, err := net.ParseCIDR(key)
		if err != nil {
			return false
		}
		p := net.ParseIP(ip)
		return p != nil && n.Contains(p)
	}
	return key == ip
}

type IPMStep struct {
	Op     string `json:"op"` // bl-add | bl-rm | wl-add | wl-rm | query | restart (new IPManager over the same storage)
	Target int    `json:"target"`
	AtMs   int    `json:"at_ms"`
	DurMs  int    `json:"dur_ms,omitempty"` // bl-add: 0 = permanent
}

type IPMCase struct {
	Steps []IPMStep `json:"steps"`
}

func genIPM(t *rapid.T) IPMCase {
	var c IPMCase
	n := rapid.IntRange(4, 12).Draw(t, "nsteps")
	var bounds []int
	T := 0
	ops := []string{"bl-add", "bl-add", "bl-add", "bl-add", "bl-add", "query", "query", "query", "query", "query", "requery", "requery", "bl-rm", "wl-add", "wl-rm", "restart", "restart"}
	grid := []int{0, 0, 0, 3, 10, 30, 50, 70, 135, 135, 135, 200}
	for i := 0; i < n && T < 900; i++ {
		s := IPMStep{Op: rapid.SampledFrom(ops).Draw(t, "op")}
		T = avoid(T+rapid.SampledFrom(grid).Draw(t, "gap"), bounds)
		s.AtMs = T
		switch s.Op {
		case "query", "requery":
			s.Target = rapid.SampledFrom([]int{0, 0, 0, 1, 4}).Draw(t, "addr")
		default:
			s.Target = rapid.SampledFrom([]int{0, 0, 0, 1, 2, 2, 3, 4}).Draw(t, "key")
		}
		if s.Op == "requery" {
			// a query immediately followed by a (re-)add of exactly that address
			s.Op = "query"
			c.Steps = append(c.Steps, s)
			s = IPMStep{Op: "bl-add", Target: s.Target, AtMs: T}
		}
		if s.Op == "bl-add" {
			s.DurMs = rapid.SampledFrom([]int{0, 100, 100, 100}).Draw(t, "dur")
			if s.DurMs > 0 {
				bounds = append(bounds, T+s.DurMs)
			}
		}
		c.Steps = append(c.Steps, s)
	}
	T = avoid(T+rapid.SampledFrom([]int{0, 50, 135}).Draw(t, "tailGap"), bounds)
	c.Steps = append(c.Steps, IPMStep{Op: "query", Target: 0, AtMs: T})
	return c
}

func ipmSig(c IPMCase) string {
	var sb strings.Builder
	for _, s := range c.Steps {
		fmt.Fprintf(&sb, "%s%d@%d/%d;", s.Op, s.Target, s.AtMs, s.DurMs)
	}
	return sb.String()
}

func runIPM(t vkit.TB, c IPMCase) {
	srv, err := miniserver.New(miniserver.Options{NoCommands: true})
	if err != nil {
		t.Fatalf("miniserver: %v", err)
	}
	defer srv.Close()
	ipm := srv.IPM
	m := newIPMModel()
	start := time.Now()
	now := func() time.Duration { return time.Since(start) }
	var trace []string
	refused, afterExpiry, checked, restarts, refusedAfterRestart := 0, 0, 0, 0, 0
	feats := map[string]int{}
	for si, s := range c.Steps {
		sleepUntil(start, s.AtMs)
		key := ipmKeys[s.Target]
		switch s.Op {
		case "bl-add":
			b := now()
			if err := ipm.AddToBlacklist(key, ms(s.DurMs), "verif", "c18"); err != nil {
				t.Fatalf("AddToBlacklist(%s): %v", key, err)
			}
			a := now()
			if m.expiredSeen[key] {
				feats["re-add-after-query-saw-expired-entry"]++
			}
			m.addBlack(key, ival{b, a}, ms(s.DurMs))
			trace = append(trace, fmt.Sprintf("%d:bl-add %s %dms [%v,%v]", si, key, s.DurMs, b.Round(time.Microsecond), a.Round(time.Microsecond)))
		case "restart":
			// restart / second node: the lists are persisted, so a new manager over the same storage must answer alike.
			// Let the old manager's asynchronous removals finish first (they belong to the old process).
			time.Sleep(3 * time.Millisecond)
			ipm = security.NewIPManager(srv.Storage, srv.Ctx)
			m.reload()
			restarts++
			feats["restart"]++
			trace = append(trace, fmt.Sprintf("%d:restart (new IPManager over the same storage) @%v", si, now().Round(time.Microsecond)))
		case "bl-rm":
			ipm.RemoveFromBlacklist(key)
			m.removeBlack(key)
			trace = append(trace, fmt.Sprintf("%d:bl-rm %s @%v", si, key, now().Round(time.Microsecond)))
		case "wl-add":
			if err := ipm.AddToWhitelist(key, "verif", "c18"); err != nil {
				t.Fatalf("AddToWhitelist(%s): %v", key, err)
			}
			m.addWhite(key)
			trace = append(trace, fmt.Sprintf("%d:wl-add %s @%v", si, key, now().Round(time.Microsecond)))
		case "wl-rm":
			ipm.RemoveFromWhitelist(key)
			m.removeWhite(key)
			trace = append(trace, fmt.Sprintf("%d:wl-rm %s @%v", si, key, now().Round(time.Microsecond)))
		case "query":
			b := now()
			got, _ := ipm.IsAllowed(key)
			a := now()
			iv := ival{b, a}
			nExpired, nLive := 0, 0
			for k, e := range m.black {
				if covers(k, key) {
					switch e.live(iv) {
					case No:
						nExpired++
					case Yes:
						nLive++
					}
				}
			}
			want, vkey, why := m.allowed(key, iv, covers)
			trace = append(trace, fmt.Sprintf("%d:IsAllowed %s [%v,%v] got=%v want-allowed=%v", si, key, b.Round(time.Microsecond), a.Round(time.Microsecond), got, want))
			if want == Unknown {
				vkit.Skipped(1)
				continue
			}
			checked++
			if got != (want == Yes) {
				detail := fmt.Sprintf("step %d IsAllowed(%s)=%v, model requires allowed=%v: %s | trace: %s", si, key, got, want, why, strings.Join(trace, " ; "))
				vkit.Violation(t, vkey, detail, Replay{Kind: "ipmanager", IPM: &c})
				vkit.Case("known:"+vkey, false, "")
				return
			}
			if want == No {
				refused++
				for k, e := range m.black {
					if covers(k, key) && e.live(iv) == Yes && e.gen < m.gen {
						refusedAfterRestart++
						if e.dur == 0 {
							feats["permanent-entry-refuses-after-restart"]++
						} else {
							feats["running-temporary-entry-refuses-after-restart"]++
						}
						break
					}
				}
				if nExpired > 0 {
					feats["live-entry-next-to-expired-entry"]++
				}
			}
			if nExpired > 0 {
				afterExpiry++
				if restarts > 0 && want == Yes {
					feats["expired-entry-stays-expired-after-restart"]++
				}
			}
			if nLive > 1 {
				feats["overlapping-live-entries"]++
			}
			if len(m.white) > 0 {
				feats["query-with-whitelist"]++
			}
		}
	}
	class := "ipm:plain"
	switch {
	case refused > 0 && afterExpiry > 0:
		class = "ipm:refusal+query-after-expiry"
	case refused > 0:
		class = "ipm:refusal"
	}
	if refusedAfterRestart > 0 {
		class = "ipm:refusal-by-entry-written-before-restart"
	}
	vkit.Case(class, (refused > 0 && afterExpiry > 0) || refusedAfterRestart > 0, ipmSig(c))
	for k, v := range feats {
		for i := 0; i < v; i++ {
			vkit.Class("ipm:" + k)
		}
	}
	vkit.AddExtra("ipm_queries_checked", int64(checked))
	vkit.Sample(class, c)
}

func TestIPManager(t *testing.T) {
	vkit.Check(t, 120, 2400, func(t *rapid.T) {
		runIPM(t, genIPM(t))
	})
}

// ---------------------------------------------------------------------------
// part 3

type RateBurst struct {
	N     int `json:"n"`
	GapMs int `json:"gap_ms"` // sleep before the burst
}

type RateCase struct {
	Rate   int         `json:"rate"`
	Burst  int         `json:"burst"`
	Bursts []RateBurst `json:"bursts"`
}

func genRate(t *rapid.T) RateCase {
	c := RateCase{Burst: rapid.IntRange(1, 20).Draw(t, "burst")}
	// rates up to 400/s keep "idle for burst/rate seconds" (a full refill) within tens of milliseconds
	if rapid.Bool().Draw(t, "highRate") {
		c.Rate = rapid.SampledFrom([]int{60, 100, 200, 400}).Draw(t, "rateHigh")
	} else {
		c.Rate = rapid.IntRange(1, 50).Draw(t, "rate")
	}
	refillMs := (1000*c.Burst + c.Rate - 1) / c.Rate // idle time that refills an empty bucket completely
	idle := func(label string) int {
		// gaps relative to the refill time: partial, exact, generous
		g := refillMs * rapid.SampledFrom([]int{1, 2, 4, 6}).Draw(t, label) / 4
		if g > 150 {
			g = 150
		}
		return g + 2
	}
	n := rapid.IntRange(1, 6).Draw(t, "nbursts")
	total := 0
	if rapid.Bool().Draw(t, "idleThenBurst") {
		// directed history: the bucket exists with tokens left, the address stays idle, then asks for far more than burst
		first := RateBurst{N: rapid.IntRange(1, c.Burst).Draw(t, "first")}
		second := RateBurst{N: 2*c.Burst + 2, GapMs: idle("idle0")}
		total += second.GapMs
		c.Bursts = append(c.Bursts, first, second)
	}
	for i := 0; i < n && total < 260; i++ {
		b := RateBurst{N: rapid.IntRange(1, 2*c.Burst+2).Draw(t, "n")}
		if rapid.IntRange(0, 2).Draw(t, "gapKind") == 0 {
			b.GapMs = idle("idle")
		} else {
			b.GapMs = rapid.SampledFrom([]int{0, 0, 1, 3, 10, 25, 60}).Draw(t, "gap")
		}
		total += b.GapMs
		c.Bursts = append(c.Bursts, b)
	}
	return c
}

type rateObs struct {
	iv      ival
	allowed bool
}

// rateSlack: a token bucket holds at most `burst` tokens before call i and gains at most rate*(t_after(j)-t_before(i))
// until call j, so count(i..j) <= burst + rate*elapsed exactly; the count is an integer and the measured interval
// contains the implementation's own clock readings, so half a token absorbs float rounding and clock granularity.
const rateSlack = 0.5

// rateBound checks: for every pair i<=j of ALLOWED calls, count(i..j) <= burst + rate*(t_after(j)-t_before(i)) + rateSlack.
func rateBound(obs []rateObs, rate, burst int) (bad bool, detail string) {
	var al []ival
	for _, o := range obs {
		if o.allowed {
			al = append(al, o.iv)
		}
	}
	for i := range al {
		for j := i; j < len(al); j++ {
			cnt := float64(j - i + 1)
			lim := float64(burst) + float64(rate)*(al[j].A-al[i].B).Seconds() + rateSlack
			if cnt > lim {
				return true, fmt.Sprintf("%d allowed calls between %v and %v, bound burst %d + rate %d/s * %v + 0.5 = %.2f",
					j-i+1, al[i].B, al[j].A, burst, rate, al[j].A-al[i].B, lim)
			}
		}
	}
	return false, ""
}

func runRate(t vkit.TB, c RateCase) {
	ctx, cancel := context.WithCancel(context.Background())
	defer cancel()
	rl := security.NewRateLimiter(&security.RateLimitConfig{Rate: c.Rate, Burst: c.Burst, TTL: 5 * time.Minute}, nil, ctx)
	start := time.Now()
	var obs []rateObs
	refusedSeen, allowedAfterRefusal := false, false
	for _, b := range c.Bursts {
		if b.GapMs > 0 {
			time.Sleep(ms(b.GapMs))
		}
		for k := 0; k < b.N; k++ {
			tb := time.Since(start)
			ok := rl.AllowIP("10.6.0.1")
			ta := time.Since(start)
			obs = append(obs, rateObs{ival{tb, ta}, ok})
			if !ok {
				refusedSeen = true
			} else if refusedSeen {
				allowedAfterRefusal = true
			}
		}
	}
	if bad, detail := rateBound(obs, c.Rate, c.Burst); bad {
		vkit.Violation(t, "C18/rate/AllowIP-exceeds-rate-and-burst", detail, Replay{Kind: "rate", Rate: &c})
		vkit.Case("known:C18/rate/AllowIP-exceeds-rate-and-burst", false, "")
		return
	}
	refillMs := (1000*c.Burst + c.Rate - 1) / c.Rate
	for i, b := range c.Bursts {
		if i > 0 && b.GapMs >= refillMs && b.N > c.Burst {
			vkit.Class("rate:feat:idle>=full-refill-then-more-than-burst")
			break
		}
	}
	class := "rate:never-refused"
	switch {
	case allowedAfterRefusal:
		class = "rate:refused-then-refilled"
	case refusedSeen:
		class = "rate:bucket-exhausted"
	}
	vkit.Case(class, refusedSeen, fmt.Sprintf("r%d b%d %v", c.Rate, c.Burst, c.Bursts))
	vkit.Sample(class, c)
}

func TestRateLimiter(t *testing.T) {
	vkit.Check(t, 240, 6000, func(t *rapid.T) {
		runRate(t, genRate(t))
	})
}
