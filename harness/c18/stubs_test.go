package c18

import "tunnox-core/verif/vkit"

type IPMCase struct{}
type RateCase struct{}
type SrvCase struct{}
type RaceCase struct{}

func runIPM(t vkit.TB, c IPMCase)   {}
func runRate(t vkit.TB, c RateCase) {}
func runSrv(t vkit.TB, c SrvCase)   {}
func runRace(t vkit.TB, c RaceCase) {}
