package c18

// part 6: the gates over the HTTP-service WebSocket transport (/_tunnox). The real WebSocketModule is served by
// httptest and wired to the mini-server's SessionManager / ServerAuthHandler. Every connection comes from the
// same socket address (127.0.0.1); upgrade requests carry arbitrary client-controlled forwarding headers.
// Oracle: black/white list, ban, failure accounting and the anonymous-registration bucket are keyed by the
// peer's SOCKET address for every header combination - a locked-out peer stays locked out whatever it claims,
// and entries for a claimed address never apply to the peer. All durations are one hour, so no step is near a
// time boundary.

import (
	"encoding/json"
	"fmt"
	"net"
	"net/http"
	"net/http/httptest"
	"strings"
	"sync"
	"testing"
	"time"

	"github.com/gorilla/mux"
	gws "github.com/gorilla/websocket"
	"pgregory.net/rapid"

	"tunnox-core/internal/httpservice"
	wsmodule "tunnox-core/internal/httpservice/modules/websocket"
	"tunnox-core/internal/packet"
	"tunnox-core/internal/security"
	"tunnox-core/internal/stream"
	"tunnox-core/verif/vkit"
	"tunnox-core/verif/vkit/miniserver"
)

const wsPeer = "127.0.0.1"

var wsClaimed = []string{"203.0.113.77", "198.51.100.4"}

// header combinations of the upgrade request
var wsHeaders = []http.Header{
	nil,
	{"X-Forwarded-For": {"203.0.113.77"}},
	{"X-Forwarded-For": {"198.51.100.4, 10.0.0.1"}},
	{"X-Real-Ip": {"203.0.113.77"}},
	{"Forwarded": {"for=198.51.100.4;proto=https"}},
	{"X-Forwarded-For": {"203.0.113.77"}, "X-Real-Ip": {"198.51.100.4"}},
	{"X-Forwarded-For": {" 198.51.100.4 "}},
	{"X-Forwarded-For": {"not-an-address"}, "X-Real-Ip": {"203.0.113.77"}},
	{"X-Forwarded-For": {"127.0.0.1"}},
}

type WSStep struct {
	Op  string `json:"op"` // unknown | login | wrong | anon | bl-add | bl-rm | wl-add | wl-rm | unban | ban-claimed
	Hdr int    `json:"hdr"`
	N   int    `json:"n,omitempty"`
	Key int    `json:"key,omitempty"` // 0 = the peer's socket address, 1.. = claimed addresses
}

type WSCase struct {
	Transport string   `json:"transport,omitempty"` // "" = websocket upgrade headers, "addr" = socket address forms (zones)
	M         int      `json:"max_failures"`
	Rate      int      `json:"rate"`
	Burst     int      `json:"burst"`
	Steps     []WSStep `json:"steps"`
}

func genWS(t *rapid.T) WSCase { return genGate(t, "", len(wsHeaders)) }

func genGate(t *rapid.T, transport string, nforms int) WSCase {
	c := WSCase{Transport: transport, M: rapid.IntRange(1, 3).Draw(t, "m"), Rate: 1, Burst: rapid.IntRange(1, 4).Draw(t, "burst")}
	n := rapid.IntRange(4, 12).Draw(t, "nsteps")
	ops := []string{"unknown", "unknown", "unknown", "wrong", "login", "login", "login", "anon", "anon", "anon", "bl-add", "bl-add", "bl-rm", "wl-add", "wl-rm", "unban", "ban-claimed"}
	for i := 0; i < n; i++ {
		s := WSStep{Op: rapid.SampledFrom(ops).Draw(t, "op")}
		if rapid.IntRange(0, 9).Draw(t, "plain") >= 4 {
			s.Hdr = rapid.IntRange(1, nforms-1).Draw(t, "hdr")
		}
		switch s.Op {
		case "unknown", "wrong":
			s.N = rapid.SampledFrom([]int{1, 1, c.M}).Draw(t, "n")
		case "anon":
			s.N = rapid.IntRange(1, c.Burst+2).Draw(t, "n")
		case "bl-add", "bl-rm", "wl-add", "wl-rm", "ban-claimed":
			s.Key = rapid.SampledFrom([]int{0, 0, 1, 1, 2}).Draw(t, "key")
		}
		c.Steps = append(c.Steps, s)
	}
	c.Steps = append(c.Steps, WSStep{Op: rapid.SampledFrom([]string{"login", "anon"}).Draw(t, "tailOp"), Hdr: rapid.IntRange(0, nforms-1).Draw(t, "tailHdr"), N: 1})
	return c
}

// wsStream adapts a gorilla connection to io.Reader / io.Writer (one binary message per Write), as the client transport does.
type wsStream struct {
	conn *gws.Conn
	buf  []byte
	wmu  sync.Mutex
}

func (s *wsStream) Read(p []byte) (int, error) {
	for len(s.buf) == 0 {
		_, data, err := s.conn.ReadMessage()
		if err != nil {
			return 0, err
		}
		s.buf = data
	}
	n := copy(p, s.buf)
	s.buf = s.buf[n:]
	return n, nil
}

func (s *wsStream) Write(p []byte) (int, error) {
	s.wmu.Lock()
	defer s.wmu.Unlock()
	if err := s.conn.WriteMessage(gws.BinaryMessage, p); err != nil {
		return 0, err
	}
	return len(p), nil
}

type wsClient struct {
	conn *gws.Conn
	sp   *stream.StreamProcessor
	mini *miniserver.Client // "addr" transport: in-memory connection whose RemoteAddr is a real *net.TCPAddr / *net.UDPAddr
}

func (c *wsClient) close() {
	if c.mini != nil {
		c.mini.CloseByPeer()
		return
	}
	c.sp.Close()
	c.conn.Close()
}

func (c *wsClient) handshake(req *packet.HandshakeRequest) (*packet.HandshakeResponse, error) {
	if c.mini != nil {
		resp, _, rerr := c.mini.Handshake(req)
		return resp, rerr
	}
	b, _ := json.Marshal(req)
	c.conn.SetReadDeadline(time.Now().Add(20 * time.Second))
	if _, err := c.sp.WritePacket(&packet.TransferPacket{PacketType: packet.Handshake, Payload: b}, false, 0); err != nil {
		return nil, err
	}
	for {
		p, _, err := c.sp.ReadPacket()
		if err != nil {
			return nil, err
		}
		if p.PacketType&0x3F != packet.HandshakeResp {
			continue
		}
		r := &packet.HandshakeResponse{}
		if err := json.Unmarshal(p.Payload, r); err != nil {
			return nil, err
		}
		return r, nil
	}
}

func runWS(t vkit.TB, c WSCase) {
	hour := time.Hour
	srv, err := miniserver.New(miniserver.Options{
		BruteForce: &security.BruteForceConfig{MaxFailures: c.M, TimeWindow: hour, BanDuration: hour, PermanentBanAt: 1000, CleanupInterval: hour},
		IPRate:     &security.RateLimitConfig{Rate: c.Rate, Burst: c.Burst, TTL: hour},
	})
	if err != nil {
		t.Fatalf("miniserver: %v", err)
	}
	defer srv.Close()
	setup, err := srv.Connect("10.99.0.1:4000")
	if err != nil {
		t.Fatalf("connect: %v", err)
	}
	if r, err := setup.HandshakeNew("control"); err != nil || r == nil || !r.Success {
		t.Fatalf("setup registration failed: %+v %v", r, err)
	}
	setup.CloseByPeer()
	id, secret := setup.ClientID, setup.Secret

	// transport-specific parts
	wsPeer, wsClaimed, pfx := wsPeer, wsClaimed, "ws"
	listKeys := append([]string{wsPeer}, wsClaimed...)
	formDesc := func(i int) string { return fmt.Sprintf("upgrade headers %v", wsHeaders[i]) }
	plainSuffix, formSuffix := "/via-websocket", "/via-websocket-upgrade-with-forwarding-headers"
	url := ""
	if c.Transport == "addr" {
		wsPeer, wsClaimed, pfx = addrPeer, addrBanClaimed, "addr"
		listKeys = addrListKeys
		formDesc = func(i int) string { return fmt.Sprintf("RemoteAddr %T %q", addrForms[i](1), addrForms[i](1).String()) }
		plainSuffix, formSuffix = "/via-handshake/plain-tcp-socket-address", "/via-handshake/socket-address-with-zone-or-udp"
	} else {
		module := wsmodule.NewWebSocketModule(srv.Ctx, &httpservice.WebSocketModuleConfig{Enabled: true})
		module.SetSession(srv.SM)
		router := mux.NewRouter()
		module.RegisterRoutes(router)
		hs := httptest.NewServer(router)
		defer hs.Close()
		url = "ws" + strings.TrimPrefix(hs.URL, "http") + "/_tunnox"
	}
	port := 0

	bf := newIPModel(bfCfg{M: c.M, P: 1000, W: hour, Ban: hour}, nil)
	lists := newIPMModel()
	keys := listKeys
	start := time.Now()
	now := func() time.Duration { return time.Since(start) }
	var trace []string
	var anon []rateObs
	feats := map[string]int{}
	undetermined := ""
	inconclusive := func(why string) {
		vkit.Skipped(1)
		vkit.Class(pfx + ":inconclusive:" + why)
	}
	dial := func(form int) *wsClient {
		if c.Transport == "addr" {
			port++
			a := addrForms[form](40000 + port)
			cl, err := srv.ConnectFrom(a.String(), a)
			if err != nil {
				return nil
			}
			return &wsClient{mini: cl}
		}
		h := wsHeaders[form]
		d := gws.Dialer{HandshakeTimeout: 20 * time.Second}
		conn, _, err := d.Dial(url, h)
		if err != nil {
			return nil
		}
		ws := &wsStream{conn: conn}
		return &wsClient{conn: conn, sp: stream.NewStreamProcessor(ws, ws, srv.Ctx)}
	}
	failed := false
	// call sends one handshake packet and judges the gates on the peer's socket address
	call := func(si int, s WSStep, cl *wsClient, req *packet.HandshakeRequest, good bool, what string) (string, *packet.HandshakeResponse) {
		b := now()
		resp, err := cl.handshake(req)
		a := now()
		if err != nil {
			undetermined = "no handshake response: " + err.Error()
			return "none", nil
		}
		iv := ival{b, a}
		kind := outcome(resp, nil)
		wantAllowed, blKey, blWhy := lists.allowed(wsPeer, iv, covers)
		wantBan := bf.query(iv)
		trace = append(trace, fmt.Sprintf("%d:%s %s -> %s (model for %s: listed-allowed=%v banned=%v)", si, what, formDesc(s.Hdr), kind, wsPeer, wantAllowed, wantBan))
		if undetermined != "" {
			vkit.Skipped(1)
			return kind, resp
		}
		suffix := plainSuffix
		if s.Hdr != 0 {
			suffix = formSuffix
		}
		refused := kind != "success" && kind != "challenge"
		fail := func(key, why string) {
			detail := fmt.Sprintf("step %d %s from socket address %s with %s answered %q: %s | MaxFailures=%d burst=%d | trace: %s",
				si, what, wsPeer, formDesc(s.Hdr), kind, why, c.M, c.Burst, strings.Join(trace, " ; "))
			vkit.Violation(t, key+suffix, detail, Replay{Kind: "websocket", WS: &c})
			vkit.Case("known:"+key+suffix, false, "")
			failed = true
		}
		switch {
		case kind == "blacklisted" && wantAllowed == Yes:
			fail(blKey, "the peer's socket address is not blacklisted: "+blWhy)
			return kind, resp
		case wantAllowed == No && !refused:
			fail(blKey, "blacklisted socket address was not refused: "+blWhy)
			return kind, resp
		case wantAllowed == No && kind != "blacklisted":
			undetermined = "blacklisted peer refused by a later stage (" + kind + ")"
			feats["blacklisted-refused-by-other-stage:"+kind]++
			return kind, resp
		}
		if kind == "blacklisted" {
			feats["refused:blacklisted"]++
			if s.Hdr != 0 {
				feats["refused:blacklisted-despite-forwarding-headers"]++
			}
			return kind, resp
		}
		switch {
		case kind == "banned" && wantBan == No:
			key, why := bf.classify(No, iv)
			fail(key, "peer below the threshold refused as banned: "+why)
			return kind, resp
		case wantBan == Yes && !refused:
			key, why := bf.classify(Yes, iv)
			fail(key, "banned socket address was not refused: "+why)
			return kind, resp
		case wantBan == Yes && kind != "banned":
			undetermined = "banned peer refused by a later stage (" + kind + ")"
			feats["banned-refused-by-other-stage:"+kind]++
			return kind, resp
		}
		if kind == "banned" {
			feats["refused:banned"]++
			if s.Hdr != 0 {
				feats["refused:banned-despite-forwarding-headers"]++
			}
			return kind, resp
		}
		switch kind {
		case "notfound", "invalid", "nochallenge":
			bf.failure(iv)
			feats["failure-recorded:"+kind]++
		case "success":
			bf.success()
			feats["success"]++
			if good && s.Hdr != 0 && (len(lists.black) > 0 || bf.ban != nil) {
				feats["admitted-with-headers-while-other-addresses-are-listed-or-banned"]++
			}
		}
		return kind, resp
	}
	base := func(cid int64) *packet.HandshakeRequest {
		return &packet.HandshakeRequest{ClientID: cid, Version: "2.0", Protocol: "websocket", ConnectionType: "control"}
	}
	for si, s := range c.Steps {
		n := s.N
		if n < 1 {
			n = 1
		}
		key := keys[s.Key%len(keys)]
		switch s.Op {
		case "bl-add":
			b := now()
			if err := srv.IPM.AddToBlacklist(key, 0, "verif", "c18"); err != nil {
				t.Fatalf("AddToBlacklist: %v", err)
			}
			lists.addBlack(key, ival{b, now()}, 0)
			trace = append(trace, fmt.Sprintf("%d:bl-add %s", si, key))
		case "bl-rm":
			srv.IPM.RemoveFromBlacklist(key)
			lists.removeBlack(key)
			trace = append(trace, fmt.Sprintf("%d:bl-rm %s", si, key))
		case "wl-add":
			if err := srv.IPM.AddToWhitelist(key, "verif", "c18"); err != nil {
				t.Fatalf("AddToWhitelist: %v", err)
			}
			lists.addWhite(key)
			trace = append(trace, fmt.Sprintf("%d:wl-add %s", si, key))
		case "wl-rm":
			srv.IPM.RemoveFromWhitelist(key)
			lists.removeWhite(key)
			trace = append(trace, fmt.Sprintf("%d:wl-rm %s", si, key))
		case "unban":
			srv.Brute.UnbanIP(wsPeer)
			bf.manualUnban()
			trace = append(trace, fmt.Sprintf("%d:unban %s", si, wsPeer))
		case "ban-claimed":
			// a ban of an address the peer merely claims says nothing about the peer
			claimed := wsClaimed[s.Key%len(wsClaimed)]
			srv.Brute.BanIP(claimed, hour, "manual")
			trace = append(trace, fmt.Sprintf("%d:ban %s (claimed address only)", si, claimed))
		default:
			for k := 0; k < n && !failed; k++ {
				cl := dial(s.Hdr)
				if cl == nil {
					inconclusive("dial-failed")
					return
				}
				switch s.Op {
				case "anon":
					b := now()
					kind, _ := call(si, s, cl, &packet.HandshakeRequest{ClientID: 0, Token: "new-client", Version: "2.0", Protocol: "websocket", ConnectionType: "control"}, true, "anonymous registration")
					if kind == "success" || kind == "ratelimited" {
						anon = append(anon, rateObs{ival{b, now()}, kind == "success"})
					}
					if kind == "ratelimited" {
						feats["refused:ratelimited"]++
					}
				case "unknown":
					call(si, s, cl, base(987654321), false, "login with unknown client id")
				case "login", "wrong":
					good := s.Op == "login"
					what := "login with wrong response"
					if good {
						what = "login with valid credentials"
					}
					kind, r1 := call(si, s, cl, base(id), good, what+" (phase 1)")
					if kind == "challenge" && !failed {
						sec := secret
						if !good {
							sec = "not-the-secret"
						}
						req := base(id)
						req.ChallengeResponse = miniserver.ComputeResponse(sec, r1.Challenge)
						call(si, s, cl, req, good, what+" (phase 2)")
					}
				}
				cl.close()
			}
		}
		if failed {
			return
		}
	}
	{
		if bad, detail := rateBound(anon, c.Rate, c.Burst); bad {
			key := "C18/rate/anonymous-registrations-exceed-rate-and-burst" + formSuffix
			vkit.Violation(t, key, "socket address "+wsPeer+" (all header combinations / address forms pooled): "+detail+" | trace: "+strings.Join(trace, " ; "), Replay{Kind: "websocket", WS: &c})
			vkit.Case("known:"+key, false, "")
			return
		}
	}
	hdrRefused := feats["refused:banned-despite-forwarding-headers"] + feats["refused:blacklisted-despite-forwarding-headers"]
	class := pfx + ":no-refusal"
	switch {
	case hdrRefused > 0:
		class = pfx + ":locked-out-peer-refused-despite-forwarding-headers-or-address-form"
	case feats["refused:banned"]+feats["refused:blacklisted"] > 0:
		class = pfx + ":refusal"
	}
	var sb strings.Builder
	fmt.Fprintf(&sb, "%s/%d/%d|", c.Transport, c.M, c.Burst)
	for _, s := range c.Steps {
		fmt.Fprintf(&sb, "%s.%d.%d*%d;", s.Op, s.Hdr, s.Key, s.N)
	}
	vkit.Case(class, hdrRefused > 0 || feats["admitted-with-headers-while-other-addresses-are-listed-or-banned"] > 0, sb.String())
	for k, v := range feats {
		for i := 0; i < v; i++ {
			vkit.Class(pfx + ":" + k)
		}
	}
	if undetermined != "" {
		vkit.Class(pfx + ":undetermined")
	}
	vkit.Sample(class, c)
}

// ---------------------------------------------------------------------------
// part 7: socket address forms. The same oracle over in-memory connections whose RemoteAddr() is a real
// *net.TCPAddr / *net.UDPAddr of ONE link-local IPv6 host, with and without a zone: the zone names the local
// interface, not the peer, so every gate and every counter is keyed by the IP ("fe80::1234") - failures seen
// through eth0 and eth1 add up, an exact or CIDR blacklist entry and a manual ban of the IP apply to every form,
// and a ban of the zone-qualified string applies to nobody.

const addrPeer = "fe80::1234"

var addrListKeys = []string{addrPeer, "fe80::/64", "fe81::1"}
var addrBanClaimed = []string{"fe80::1234%eth0", "fe81::1"}

var addrForms = []func(port int) net.Addr{
	func(p int) net.Addr { return &net.TCPAddr{IP: net.ParseIP(addrPeer), Port: p} },
	func(p int) net.Addr { return &net.TCPAddr{IP: net.ParseIP(addrPeer), Port: p, Zone: "eth0"} },
	func(p int) net.Addr { return &net.TCPAddr{IP: net.ParseIP(addrPeer), Port: p, Zone: "eth1"} },
	func(p int) net.Addr { return &net.UDPAddr{IP: net.ParseIP(addrPeer), Port: p, Zone: "eth0"} },
	func(p int) net.Addr { return &net.UDPAddr{IP: net.ParseIP(addrPeer), Port: p, Zone: "2"} },
	func(p int) net.Addr { return &net.UDPAddr{IP: net.ParseIP(addrPeer), Port: p} },
}

func TestAddressForms(t *testing.T) {
	vkit.Check(t, 160, 3200, func(t *rapid.T) {
		runWS(t, genGate(t, "addr", len(addrForms)))
	})
}

func TestWebSocketGate(t *testing.T) {
	vkit.Check(t, 160, 3200, func(t *rapid.T) {
		runWS(t, genWS(t))
	})
}
