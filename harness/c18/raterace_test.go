package c18

// part 5b: contention rounds for the token bucket of a NOT-YET-SEEN key. G goroutines released from a
// spin barrier make the first contact of a fresh address (AllowIP), of a fresh tunnel id (AllowTunnel, same
// code path), of an address whose bucket was just dropped by SetIPRateLimit, and G concurrent anonymous
// first-connect handshakes through the mini-server. One bucket exists per key, so whatever the interleaving
// the admitted count of a round is bounded by  burst + rate*elapsed  (elapsed measured from the earliest
// t_before to the latest t_after). The count is an integer and rate*elapsed is ~1e-3 here, so a slack of 0.5
// (instead of the +1 of the sequential all-pairs oracle) can never flag a single bucket, while one extra
// admission (burst+1 with G=2) is already visible.

import (
	"context"
	"fmt"
	"runtime"
	"sync"
	"sync/atomic"
	"time"

	"tunnox-core/internal/packet"
	"tunnox-core/internal/security"
	"tunnox-core/verif/vkit"
	"tunnox-core/verif/vkit/miniserver"
)

var rateRaceModes = []string{"rate/first-contact-ip", "rate/first-contact-tunnel", "rate/first-contact-after-SetIPRateLimit", "rate/first-connect-handshakes"}

// allAtOnce runs fn(0..n-1) on n goroutines released together by a spin barrier and returns the measured intervals.
func allAtOnce(n int, fn func(i int)) []ival {
	var ready, goFlag int32
	var wg sync.WaitGroup
	ivs := make([]ival, n)
	t0 := time.Now()
	wg.Add(n)
	for i := 0; i < n; i++ {
		go func(i int) {
			defer wg.Done()
			atomic.AddInt32(&ready, 1)
			for k := 0; atomic.LoadInt32(&goFlag) == 0; k++ {
				if k > 20000 {
					runtime.Gosched()
				}
			}
			b := time.Since(t0)
			fn(i)
			ivs[i] = ival{b, time.Since(t0)}
		}(i)
	}
	for atomic.LoadInt32(&ready) < int32(n) {
		runtime.Gosched()
	}
	atomic.StoreInt32(&goFlag, 1)
	wg.Wait()
	return ivs
}

// roundParams derives (G, burst, rate) from the round index so that a replay re-runs the same rounds.
func roundParams(idx int) (g, burst, rate int) {
	return 2 + idx%7, []int{1, 2, 3, 5}[idx/7%4], 1 + idx/28%2
}

func span(ivs []ival) time.Duration {
	lo, hi := ivs[0].B, ivs[0].A
	for _, v := range ivs {
		if v.B < lo {
			lo = v.B
		}
		if v.A > hi {
			hi = v.A
		}
	}
	return hi - lo
}

func runRateRace(t vkit.TB, c RaceCase) {
	const batch = 50
	for off := 0; off < c.Rounds; off += batch {
		n := c.Rounds - off
		if n > batch {
			n = batch
		}
		if !rateRaceBatch(t, c, off, n) {
			return
		}
	}
}

func rateRaceBatch(t vkit.TB, c RaceCase, off, n int) bool {
	ctx, cancel := context.WithCancel(context.Background())
	defer cancel()
	for r := 0; r < n; r++ {
		idx := off + r
		g, burst, rate := roundParams(idx)
		key := fmt.Sprintf("10.%d.%d.%d", 200+idx/65536%50, idx/256%256, idx%256)
		allowed := make([]int32, g)
		var ivs []ival
		var skipped bool
		switch c.Mode {
		case "rate/first-contact-ip":
			rl := security.NewRateLimiter(&security.RateLimitConfig{Rate: rate, Burst: burst, TTL: time.Hour}, nil, ctx)
			ivs = allAtOnce(g, func(i int) {
				if rl.AllowIP(key) {
					allowed[i] = 1
				}
			})
		case "rate/first-contact-tunnel":
			rl := security.NewRateLimiter(nil, &security.RateLimitConfig{Rate: rate, Burst: burst, TTL: time.Hour}, ctx)
			ivs = allAtOnce(g, func(i int) {
				if rl.AllowTunnel("tunnel-"+key, 1) {
					allowed[i] = 1
				}
			})
		case "rate/first-contact-after-SetIPRateLimit":
			rl := security.NewRateLimiter(&security.RateLimitConfig{Rate: 50, Burst: 20, TTL: time.Hour}, nil, ctx)
			rl.AllowIP(key)                // a bucket exists ...
			rl.SetIPRateLimit(rate, burst) // ... and is dropped: the next contact re-creates it with the new limits
			ivs = allAtOnce(g, func(i int) {
				if rl.AllowIP(key) {
					allowed[i] = 1
				}
			})
		case "rate/first-connect-handshakes":
			srv, err := miniserver.New(miniserver.Options{IPRate: &security.RateLimitConfig{Rate: rate, Burst: burst, TTL: time.Hour}, NoCommands: true})
			if err != nil {
				t.Fatalf("miniserver: %v", err)
			}
			cls := make([]*miniserver.Client, g)
			for i := range cls {
				if cls[i], err = srv.Connect(fmt.Sprintf("%s:%d", key, 30000+i)); err != nil {
					t.Fatalf("connect: %v", err)
				}
			}
			var noAnswer int32
			ivs = allAtOnce(g, func(i int) {
				resp, _, rerr := cls[i].Handshake(&packet.HandshakeRequest{ClientID: 0, Token: "new-client", Version: "2.0", Protocol: "tcp", ConnectionType: "control"})
				switch {
				case rerr != nil:
					atomic.AddInt32(&noAnswer, 1)
				case resp.Success:
					allowed[i] = 1
				}
			})
			for _, cl := range cls {
				cl.CloseByPeer()
			}
			srv.Close()
			skipped = noAnswer > 0
		default:
			t.Fatalf("unknown rate race mode %q", c.Mode)
		}
		if skipped {
			vkit.Skipped(1)
			continue
		}
		cnt := 0
		for _, a := range allowed {
			cnt += int(a)
		}
		el := span(ivs)
		bound := float64(burst) + float64(rate)*el.Seconds() + 0.5
		if float64(cnt) > bound {
			vkey := "C18/rate/concurrent-first-contact-exceeds-burst/" + c.Mode[5:]
			detail := fmt.Sprintf("round %d: %d goroutines made the first contact of fresh key %s at once (burst %d, rate %d/s, whole round %v): %d admitted, bound burst + rate*elapsed = %.3f — more than one bucket served the same key",
				idx, g, key, burst, rate, el, cnt, bound-0.5)
			vkit.Violation(t, vkey, detail, Replay{Kind: "race", Race: &RaceCase{Mode: c.Mode, Rounds: 2000}})
			vkit.Case("known:"+vkey, false, "")
			return false
		}
		class := "race:" + c.Mode + ":G<=burst"
		if g > burst {
			class = "race:" + c.Mode + ":G>burst(contended)"
		}
		vkit.Case(class, g > burst && cnt == burst, fmt.Sprintf("%s/%d/%d", c.Mode, vkit.Shard(), idx))
	}
	return true
}
