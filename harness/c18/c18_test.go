// C18 — repeated authentication failures lock an address out for the ban period.
//
// Parts: (1) timelines on BruteForceProtector against an interval model, (2) IPManager black/white list
// timelines, (3) token-bucket bound for AllowIP, (4) the same through the real handshake path of the
// mini-server, (5) contention rounds for the asynchronous unban / blacklist-removal paths.
package c18

import (
	"context"
	"fmt"
	"strings"
	"testing"
	"time"

	"pgregory.net/rapid"

	"tunnox-core/internal/security"
	"tunnox-core/verif/vkit"
)

func TestMain(m *testing.M) { vkit.Main(m, "C18") }

// Replay is the JSON replay unit: exactly one member is set.
type Replay struct {
	Kind  string     `json:"kind"`
	TL    *TLCase    `json:"timeline,omitempty"`
	IPM   *IPMCase   `json:"ipmanager,omitempty"`
	Rate  *RateCase  `json:"rate,omitempty"`
	Srv   *SrvCase   `json:"server,omitempty"`
	Race  *RaceCase  `json:"race,omitempty"`
	WS    *WSCase    `json:"websocket,omitempty"`
	Crowd *CrowdCase `json:"crowd,omitempty"`
}

// TestReplay re-executes a saved JSON case (VERIF_REPLAY=path).
func TestReplay(t *testing.T) {
	path := vkit.Replaying()
	if path == "" {
		t.Skip("no VERIF_REPLAY")
	}
	var r Replay
	if _, err := vkit.LoadReplay(path, &r); err != nil {
		t.Fatalf("bad replay file: %v", err)
	}
	// timing cases are re-run a few times: the measured intervals differ slightly from run to run
	n := 5
	for i := 0; i < n; i++ {
		switch {
		case r.TL != nil:
			runTimeline(t, *r.TL)
		case r.IPM != nil:
			runIPM(t, *r.IPM)
		case r.Rate != nil:
			runRate(t, *r.Rate)
		case r.Srv != nil:
			runSrv(t, *r.Srv)
		case r.Crowd != nil:
			runCrowd(t, *r.Crowd)
		case r.WS != nil:
			runWS(t, *r.WS)
		case r.Race != nil:
			runRace(t, *r.Race)
			return
		default:
			t.Fatalf("empty replay case")
		}
	}
}

// ---------------------------------------------------------------------------
// shared helpers

const margin = 35 // ms: planned distance of every step from every window / ban / expiry boundary

// avoid moves the planned instant T (ms) forward until it is at least `margin` away from every boundary.
func avoid(T int, bounds []int) int {
	for changed := true; changed; {
		changed = false
		for _, b := range bounds {
			if d := T - b; d > -margin && d < margin {
				T = b + margin
				changed = true
			}
		}
	}
	return T
}

var gapGrid = []int{0, 0, 0, 3, 10, 25, 45, 70, 100, 140, 185, 185, 185, 235, 300}

func sleepUntil(start time.Time, atMs int) {
	if d := time.Until(start.Add(time.Duration(atMs) * time.Millisecond)); d > 0 {
		time.Sleep(d)
	}
}

func ms(n int) time.Duration { return time.Duration(n) * time.Millisecond }

// ---------------------------------------------------------------------------
// part 1: timelines on BruteForceProtector

type TLCfg struct {
	M         int `json:"max_failures"`
	P         int `json:"permanent_ban_at"`
	WMs       int `json:"window_ms"`
	BanMs     int `json:"ban_ms"`
	CleanupMs int `json:"cleanup_ms"`
}

type TLStep struct {
	Op    string `json:"op"` // fail | success | query | ban | unban
	IP    int    `json:"ip"`
	AtMs  int    `json:"at_ms"`
	N     int    `json:"n,omitempty"`      // fail: back-to-back repetitions
	DurMs int    `json:"dur_ms,omitempty"` // ban: 0 = permanent
}

type TLCase struct {
	Cfg   TLCfg    `json:"cfg"`
	Steps []TLStep `json:"steps"`
}

func (c TLCfg) model() bfCfg {
	return bfCfg{M: c.M, P: c.P, W: ms(c.WMs), Ban: ms(c.BanMs), CleanupShort: c.CleanupMs < 10000}
}

func (c TLCfg) real() *security.BruteForceConfig {
	return &security.BruteForceConfig{MaxFailures: c.M, TimeWindow: ms(c.WMs), BanDuration: ms(c.BanMs), PermanentBanAt: c.P, CleanupInterval: ms(c.CleanupMs)}
}

var tlIPs = []string{"10.9.0.1", "10.9.0.2", "10.9.0.3"}

func genTimeline(t *rapid.T) TLCase {
	var c TLCase
	c.Cfg.M = rapid.IntRange(1, 4).Draw(t, "m")
	c.Cfg.P = rapid.IntRange(c.Cfg.M, 8).Draw(t, "p")
	if rapid.Bool().Draw(t, "highP") {
		c.Cfg.P = rapid.IntRange(6, 8).Draw(t, "p2")
	}
	c.Cfg.WMs, c.Cfg.BanMs = 200, 150
	c.Cfg.CleanupMs = rapid.SampledFrom([]int{50, 3600000}).Draw(t, "cleanup")
	n := rapid.IntRange(5, 14).Draw(t, "nsteps")
	bounds := map[int][]int{}
	T := 0
	// "requery": a query immediately followed by a burst of failures (the shape that re-bans an address whose
	// expired record has just been seen by IsBanned)
	ops := []string{"fail", "fail", "fail", "fail", "fail", "fail", "query", "query", "query", "query", "requery", "requery", "success", "ban", "unban",
		// "banned-success": a burst that reaches the threshold, then a success recorded while the ban runs (a handshake
		// that had passed the gate before the ban landed), then a query inside the ban period: success clears the
		// failure history but never lifts a running ban
		"banned-success", "banned-success"}
	if c.Cfg.M >= 2 && rapid.IntRange(0, 2).Draw(t, "straddle") == 0 {
		// directed: failures that straddle the age of the FIRST failure. One early failure, more at 0.65 W, more at
		// 1.18 W: the first has left the window, the middle ones have not, so the last burst reaches the threshold only
		// together with them (reference = sliding window over every failure, not a window restarted with the first).
		t2, t3 := 130, 235
		if c.Cfg.M >= 3 && rapid.Bool().Draw(t, "noEarlierBan") {
			// below the threshold until the last burst
			c.Steps = append(c.Steps, TLStep{Op: "fail", AtMs: 0, N: 1}, TLStep{Op: "fail", AtMs: t2, N: c.Cfg.M - 2},
				TLStep{Op: "fail", AtMs: t3, N: 2}, TLStep{Op: "query", AtMs: t3 + 10})
			T = t3 + 10
		} else {
			// the middle burst bans (until t2+150); the late failure must extend the ban (until t3+150)
			c.Steps = append(c.Steps, TLStep{Op: "fail", AtMs: 0, N: 1}, TLStep{Op: "fail", AtMs: t2, N: c.Cfg.M - 1},
				TLStep{Op: "fail", AtMs: t3, N: 1}, TLStep{Op: "query", AtMs: 332})
			T = 332
		}
		for _, f := range []int{0, t2, t3} {
			bounds[0] = append(bounds[0], f+c.Cfg.WMs, f+c.Cfg.BanMs)
		}
	}
	for i := 0; i < n && T < 1100; i++ {
		s := TLStep{Op: rapid.SampledFrom(ops).Draw(t, "op")}
		if rapid.IntRange(0, 9).Draw(t, "ipSel") < 8 {
			s.IP = 0
		} else {
			s.IP = rapid.IntRange(1, 2).Draw(t, "ip")
		}
		T += rapid.SampledFrom(gapGrid).Draw(t, "gap")
		if s.Op == "requery" && rapid.Bool().Draw(t, "afterExpiry") {
			// directed: place the pair just after the latest possible ban expiry of this address
			for _, b := range bounds[s.IP] {
				if T < b {
					T = b
				}
			}
		}
		T = avoid(T, bounds[s.IP])
		s.AtMs = T
		if s.Op == "requery" {
			s.Op = "query"
			c.Steps = append(c.Steps, s)
			s = TLStep{Op: "fail", IP: s.IP, AtMs: T}
		}
		if s.Op == "banned-success" {
			c.Steps = append(c.Steps, TLStep{Op: "fail", IP: s.IP, AtMs: T, N: c.Cfg.M}, TLStep{Op: "success", IP: s.IP, AtMs: T})
			bounds[s.IP] = append(bounds[s.IP], T+c.Cfg.WMs, T+c.Cfg.BanMs)
			T += rapid.SampledFrom([]int{0, 10, 45, 100}).Draw(t, "insideBan")
			s = TLStep{Op: "query", IP: s.IP, AtMs: T}
		}
		switch s.Op {
		case "fail":
			s.N = rapid.SampledFrom([]int{1, 1, 2, c.Cfg.M, c.Cfg.M}).Draw(t, "n")
			bounds[s.IP] = append(bounds[s.IP], T+c.Cfg.WMs, T+c.Cfg.BanMs)
		case "ban":
			s.DurMs = rapid.SampledFrom([]int{0, 100, 100}).Draw(t, "dur")
			if s.DurMs > 0 {
				bounds[s.IP] = append(bounds[s.IP], T+s.DurMs)
			}
		}
		c.Steps = append(c.Steps, s)
	}
	// a closing query for the busiest address, safely after/before every boundary
	T = avoid(T+rapid.SampledFrom([]int{0, 45, 185}).Draw(t, "tailGap"), bounds[0])
	c.Steps = append(c.Steps, TLStep{Op: "query", IP: 0, AtMs: T})
	return c
}

func tlSig(c TLCase) string {
	var sb strings.Builder
	fmt.Fprintf(&sb, "%d/%d/%d|", c.Cfg.M, c.Cfg.P, c.Cfg.CleanupMs)
	for _, s := range c.Steps {
		fmt.Fprintf(&sb, "%s%d@%d*%d/%d;", s.Op, s.IP, s.AtMs, s.N, s.DurMs)
	}
	return sb.String()
}

// runTimeline executes one timeline against a fresh protector and applies the oracle.
func runTimeline(t vkit.TB, c TLCase) {
	ctx, cancel := context.WithCancel(context.Background())
	defer cancel()
	p := security.NewBruteForceProtector(c.Cfg.real(), ctx)
	notes := map[string]int{}
	models := make([]*ipModel, len(tlIPs))
	for i := range models {
		models[i] = newIPModel(c.Cfg.model(), notes)
	}
	checked, skipped := 0, 0
	successWhileBanned := map[int]bool{}
	start := time.Now()
	now := func() time.Duration { return time.Since(start) }
	var trace []string
	for si, s := range c.Steps {
		sleepUntil(start, s.AtMs)
		ip, m := tlIPs[s.IP], models[s.IP]
		if s.Op == "fail" || s.Op == "ban" || s.Op == "unban" {
			delete(successWhileBanned, s.IP) // the ban record is rewritten / removed: later queries judge something else
		}
		switch s.Op {
		case "fail":
			n := s.N
			if n < 1 {
				n = 1
			}
			for k := 0; k < n; k++ {
				b := now()
				p.RecordFailure(ip)
				a := now()
				m.failure(ival{b, a})
				trace = append(trace, fmt.Sprintf("%d:fail ip%d [%v,%v]", si, s.IP, b.Round(time.Microsecond), a.Round(time.Microsecond)))
			}
		case "success":
			at := now()
			if m.undetermined == "" && m.banLive(ival{at, at}) == Yes {
				notes["success-recorded-while-banned"]++
				successWhileBanned[s.IP] = true
			}
			p.RecordSuccess(ip)
			m.success()
			trace = append(trace, fmt.Sprintf("%d:success ip%d @%v", si, s.IP, now().Round(time.Microsecond)))
		case "ban":
			b := now()
			p.BanIP(ip, ms(s.DurMs), "manual")
			a := now()
			m.manualBan(ival{b, a}, ms(s.DurMs))
			notes["manual-ban"]++
			trace = append(trace, fmt.Sprintf("%d:ban ip%d %dms [%v,%v]", si, s.IP, s.DurMs, b.Round(time.Microsecond), a.Round(time.Microsecond)))
		case "unban":
			p.UnbanIP(ip)
			m.manualUnban()
			notes["manual-unban"]++
			trace = append(trace, fmt.Sprintf("%d:unban ip%d @%v", si, s.IP, now().Round(time.Microsecond)))
		case "query":
			b := now()
			got, _ := p.IsBanned(ip)
			a := now()
			iv := ival{b, a}
			want := m.query(iv)
			trace = append(trace, fmt.Sprintf("%d:query ip%d [%v,%v] got=%v want=%v", si, s.IP, b.Round(time.Microsecond), a.Round(time.Microsecond), got, want))
			if want == Unknown {
				skipped++
				vkit.Skipped(1)
				continue
			}
			checked++
			if got != (want == Yes) {
				key, why := m.classify(want, iv)
				detail := fmt.Sprintf("step %d IsBanned(ip%d)=%v, model requires %v: %s | cfg m=%d p=%d window=%dms ban=%dms cleanup=%dms | trace: %s",
					si, s.IP, got, want, why, c.Cfg.M, c.Cfg.P, c.Cfg.WMs, c.Cfg.BanMs, c.Cfg.CleanupMs, strings.Join(trace, " ; "))
				vkit.Violation(t, key, detail, Replay{Kind: "timeline", TL: &c})
				vkit.Case("known:"+key, false, "")
				return
			}
			if want == Yes {
				if successWhileBanned[s.IP] {
					notes["query-banned-after-success-recorded-while-banned"]++
				}
				notes["query-banned"]++
			} else {
				notes["query-not-banned"]++
			}
		}
	}
	crossed, afterExpiry := false, false
	for _, m := range models {
		crossed = crossed || m.crossed
		afterExpiry = afterExpiry || m.queriedExpired
	}
	class := "timeline:no-threshold-crossed"
	switch {
	case crossed && afterExpiry:
		class = "timeline:crossed+query-after-expiry"
	case crossed:
		class = "timeline:crossed"
	}
	vkit.Case(class, crossed && afterExpiry && checked > 0, tlSig(c))
	for k, v := range notes {
		for i := 0; i < v; i++ {
			vkit.Class("tl:" + k)
		}
	}
	vkit.AddExtra("timeline_queries_checked", int64(checked))
	vkit.Sample(class, c)
}

func TestTimelines(t *testing.T) {
	vkit.Check(t, 160, 3000, func(t *rapid.T) {
		runTimeline(t, genTimeline(t))
	})
}
