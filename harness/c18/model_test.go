package c18

// Reference model of the brute-force protector, evaluated on MEASURED call intervals.
//
// Every call of the code under test is bracketed by two clock readings; the implementation's own
// time.Now() lies inside [B, A]. Each decision of the model ("failure j is inside the window of
// failure k", "the ban is still running at this query") is taken only when it is the same for every
// instant inside the measured intervals (plus eps); otherwise the answer is Unknown and the step (or
// the rest of the address's history) is skipped, never failed.

import (
	"fmt"
	"sort"
	"time"
)

func sortedKeys[V any](m map[string]V) []string {
	ks := make([]string, 0, len(m))
	for k := range m {
		ks = append(ks, k)
	}
	sort.Strings(ks)
	return ks
}

const eps = 2 * time.Millisecond

// ival is a measured call interval (offsets from the start of the case, monotonic clock).
type ival struct{ B, A time.Duration }

type tri int

const (
	No tri = iota
	Yes
	Unknown
)

func (t tri) String() string { return [...]string{"no", "yes", "unknown"}[t] }

type bfCfg struct {
	M            int // MaxFailures
	P            int // PermanentBanAt
	W            time.Duration
	Ban          time.Duration
	CleanupShort bool // the periodic cleanup runs inside the case (it may forget the lifetime total)
}

// banRec is the model's view of bannedIPs[ip].
type banRec struct {
	perm bool
	set  ival
	dur  time.Duration

	auto          bool // written by RecordFailure
	permCertain   bool // a permanent decision was taken with a total that no cleanup can have forgotten
	laterAutoTemp bool // after the permanent ban a RecordFailure may have written a temporary one over it
	dontCareAfter bool // after the temporary period the state is deliberately unspecified (manual overwrite of a longer ban)
	asyncRisk     bool // written after an IsBanned query had observed an expired record of this address
}

type ipModel struct {
	cfg          bfCfg
	fails        []ival // failures since the last success
	totalMax     int    // failures since the last success (documented "累计失败次数（包括已清理的）")
	totalMin     int    // same, but forgotten whenever the window may have been empty at a cleanup tick
	ban          *banRec
	undetermined string // non-empty: a boundary-zone decision made the rest of this address's history unknowable

	expiredQueried bool // an IsBanned query observed (model: certainly) an expired record that nothing has replaced since
	// an automatic temporary ban was written over a MANUAL permanent one: whether the permanent one survives is
	// deliberately unspecified, so "not banned" is never required until the next manual operation
	manualPermUnder bool
	hadSuccess      bool
	preSuccess      []ival // failures cleared by RecordSuccess (only for root-cause classification)
	crossed         bool   // a ban was written by the threshold rule at least once
	queriedExpired  bool   // a query certainly after an expiry was evaluated
	notes           map[string]int
}

func newIPModel(c bfCfg, notes map[string]int) *ipModel { return &ipModel{cfg: c, notes: notes} }

func (m *ipModel) note(s string) {
	if m.notes != nil {
		m.notes[s]++
	}
}

// windowCount returns the certain and possible number of failures inside the window that ends at iv,
// the new failure included.
func (m *ipModel) windowCount(iv ival, list []ival) (cmin, cmax int) {
	for _, f := range list {
		switch {
		case iv.A-f.B < m.cfg.W-eps:
			cmin++
			cmax++
		case iv.B-f.A >= m.cfg.W+eps:
		default:
			cmax++
		}
	}
	return
}

// banLive says whether the current model ban still holds at iv.
func (m *ipModel) banLive(iv ival) tri {
	return m.liveAt(m.ban, iv)
}

func (m *ipModel) liveAt(b *banRec, iv ival) tri {
	if b == nil {
		return No
	}
	if b.perm {
		return Yes
	}
	switch {
	case iv.A <= b.set.B+b.dur-eps:
		return Yes
	case iv.B > b.set.A+b.dur+eps:
		if b.dontCareAfter || m.manualPermUnder {
			return Unknown
		}
		return No
	default:
		return Unknown
	}
}

// failure applies RecordFailure measured at iv.
func (m *ipModel) failure(iv ival) {
	if m.undetermined != "" {
		return
	}
	cmin, cmax := m.windowCount(iv, m.fails)
	cmin++
	cmax++
	if m.cfg.CleanupShort && len(m.fails) > 0 {
		last := m.fails[len(m.fails)-1]
		if iv.A-last.B >= m.cfg.W-eps {
			m.totalMin = 0 // a cleanup tick may have found an empty window and deleted the whole record
		}
	}
	m.fails = append(m.fails, iv)
	m.totalMax++
	m.totalMin++
	old := m.ban
	// the async unban spawned by an earlier query may still be pending, however many records were written since
	risk := m.expiredQueried || (old != nil && old.asyncRisk)
	switch {
	case m.totalMax >= m.cfg.P:
		nb := &banRec{perm: true, set: iv, auto: true, permCertain: m.totalMin >= m.cfg.P, asyncRisk: risk}
		if old != nil && old.perm && old.auto {
			nb.laterAutoTemp = old.laterAutoTemp || (old.permCertain && !nb.permCertain)
			nb.permCertain = nb.permCertain || old.permCertain
			nb.asyncRisk = old.asyncRisk || risk
		}
		m.ban = nb
		m.crossed = true
		m.expiredQueried = false
		m.note("permanent-threshold-reached")
		if !nb.permCertain {
			m.note("permanent-threshold-reached-after-window-emptied(cleanup-short)")
		}
		if cmin < m.cfg.P {
			m.note("permanent-by-total-with-fewer-in-window")
		}
	case cmin >= m.cfg.M:
		m.crossed = true
		m.expiredQueried = false
		m.note("temporary-threshold-reached")
		if risk {
			m.note("re-ban-after-query-saw-expired-record")
		}
		if old != nil && !old.perm && m.liveAt(old, iv) == Yes {
			m.note("failure-while-banned-extends-ban")
		}
		if len(m.fails) > cmin {
			m.note("threshold-with-older-failures-outside-window")
			if first := m.fails[0]; iv.B-first.A >= m.cfg.W+eps && cmin >= 2 {
				m.note("threshold-reached-by-in-window-failures-after-the-first-failure-left-the-window")
			}
		}
		if old != nil && old.perm {
			if old.auto {
				// property: permanent is forever; the implementation overwrites it with a temporary record
				old.laterAutoTemp = true
				return
			}
			// a manual permanent ban followed by an automatic temporary one: unspecified afterwards
			m.manualPermUnder = true
		}
		m.ban = &banRec{set: iv, dur: m.cfg.Ban, auto: true, asyncRisk: risk}
	case cmax >= m.cfg.M:
		m.undetermined = "failure next to a window boundary decides the threshold"
		m.note("undetermined-by-boundary")
	default:
		if len(m.fails) >= m.cfg.M {
			m.note("below-threshold-only-thanks-to-window")
		}
		if c, _ := m.windowCount(iv, m.preSuccess); m.hadSuccess && c+cmin >= m.cfg.M {
			m.note("below-threshold-only-thanks-to-success")
		}
	}
}

func (m *ipModel) success() {
	if m.undetermined != "" {
		return
	}
	m.preSuccess = append(m.preSuccess, m.fails...)
	m.fails = nil
	m.totalMax, m.totalMin = 0, 0
	m.hadSuccess = true
}

// manualBan applies BanIP(ip, dur) (dur 0 = permanent).
func (m *ipModel) manualBan(iv ival, dur time.Duration) {
	if m.undetermined != "" {
		return
	}
	old := m.ban
	nb := &banRec{perm: dur == 0, set: iv, dur: dur, asyncRisk: m.expiredQueried || (old != nil && old.asyncRisk)}
	if old != nil && !nb.perm {
		if old.perm {
			nb.dontCareAfter = true
		} else if iv.A+dur < old.set.A+old.dur+eps || old.dontCareAfter {
			nb.dontCareAfter = true // a shorter manual ban over a longer running one
		}
	}
	m.ban = nb
	m.expiredQueried = false
	m.manualPermUnder = false
}

func (m *ipModel) manualUnban() {
	if m.undetermined != "" {
		return
	}
	m.ban = nil
	m.expiredQueried = false
	m.manualPermUnder = false
}

// query returns what IsBanned (or the handshake gate) must answer at iv, and notes an observed expiry.
func (m *ipModel) query(iv ival) tri {
	if m.undetermined != "" {
		return Unknown
	}
	r := m.banLive(iv)
	if m.ban != nil && !m.ban.perm && iv.B > m.ban.set.A+m.ban.dur+eps {
		m.expiredQueried = true // the implementation has seen an expired record (if it still existed) and spawned the async unban
		m.queriedExpired = true
	}
	return r
}

// classify names the root cause of a wrong answer (got != want) from the history shape.
func (m *ipModel) classify(want tri, iv ival) (key, why string) {
	b := m.ban
	if want == Yes {
		switch {
		case b == nil:
			return "C18/unclassified/model-inconsistent", "expected banned without a ban record"
		case b.perm && b.auto && !b.permCertain:
			// first: with an uncertain permanent decision no other cause can be told apart from the forgotten total
			return "C18/permanent-total-forgotten-by-cleanup/window-emptied-between-failures",
				fmt.Sprintf("failures since last success=%d >= PermanentBanAt=%d, but the cleanup task deleted the record (and its lifetime total) while the window was empty", m.totalMax, m.cfg.P)
		case b.asyncRisk && !(b.perm && b.laterAutoTemp):
			return "C18/async-unban-erases-fresh-ban/IsBanned-on-expired-record-then-new-ban",
				"an earlier query saw the expired record and spawned `go UnbanIP`; the ban written afterwards is gone"
		case b.perm && b.auto && b.laterAutoTemp:
			return "C18/permanent-ban-replaced-by-temporary/RecordFailure-after-permanent",
				"a later RecordFailure below the permanent total wrote a temporary record over the permanent one; it then expired"
		case b.perm:
			return "C18/permanent-ban-not-held", "permanent ban present in the model, address let in"
		default:
			return "C18/banned-address-let-in/within-ban-period",
				fmt.Sprintf("ban written at [%v,%v] for %v, query at [%v,%v]", b.set.B, b.set.A, b.dur, iv.B, iv.A)
		}
	}
	// want == No
	if b != nil && !b.perm {
		return "C18/ban-outlives-period", fmt.Sprintf("ban written at [%v,%v] for %v still reported at [%v,%v]", b.set.B, b.set.A, b.dur, iv.B, iv.A)
	}
	if b != nil {
		return "C18/unclassified/model-inconsistent", "expected not banned with a permanent record"
	}
	// no ban in the model: which failures would explain the implementation's ban?
	cminAll, _ := m.windowCount(iv, append(append([]ival(nil), m.preSuccess...), m.fails...))
	switch {
	case m.hadSuccess && cminAll >= m.cfg.M:
		return "C18/below-threshold-address-banned/failures-before-success-counted",
			fmt.Sprintf("only %d failure(s) since the last success (threshold %d)", len(m.fails), m.cfg.M)
	case len(m.fails) >= m.cfg.M || len(m.fails)+len(m.preSuccess) >= m.cfg.P:
		return "C18/below-threshold-address-banned/failures-outside-window-counted",
			fmt.Sprintf("%d failures since last success but never %d inside one %v window (permanent at %d)", len(m.fails), m.cfg.M, m.cfg.W, m.cfg.P)
	default:
		return "C18/below-threshold-address-banned/plain",
			fmt.Sprintf("%d failure(s) since last success, threshold %d, permanent at %d", len(m.fails), m.cfg.M, m.cfg.P)
	}
}

// ---------------------------------------------------------------------------
// blacklist / whitelist model

type listEntry struct {
	set            ival
	dur            time.Duration // 0 = permanent
	expiredQueried bool          // written after an IsAllowed query on exactly this key had seen an expired record
	gen            int           // number of reloads (new IPManager over the same storage) before the entry was written
}

type ipmModel struct {
	black map[string]*listEntry
	white map[string]bool
	// keys (queried address strings) for which an IsAllowed query has observed an expired blacklist record
	// since the key was last written
	expiredSeen map[string]bool
	gen         int // reloads so far: every entry lives in the storage, so a reload must not change any answer
	whiteGen    map[string]int
}

func newIPMModel() *ipmModel {
	return &ipmModel{black: map[string]*listEntry{}, white: map[string]bool{}, expiredSeen: map[string]bool{}, whiteGen: map[string]int{}}
}

func (e *listEntry) live(iv ival) tri {
	if e.dur == 0 {
		return Yes
	}
	switch {
	case iv.A <= e.set.B+e.dur-eps:
		return Yes
	case iv.B > e.set.A+e.dur+eps:
		return No
	default:
		return Unknown
	}
}

func (m *ipmModel) addBlack(key string, iv ival, dur time.Duration) {
	old := m.black[key]
	m.black[key] = &listEntry{set: iv, dur: dur, expiredQueried: m.expiredSeen[key] || (old != nil && old.expiredQueried), gen: m.gen}
	delete(m.expiredSeen, key)
}
func (m *ipmModel) removeBlack(key string) { delete(m.black, key); delete(m.expiredSeen, key) }
func (m *ipmModel) addWhite(key string)    { m.white[key] = true; m.whiteGen[key] = m.gen }

// reload models a restart / second node: a new IPManager built over the same storage. Nothing changes in the
// model; the asynchronous removals spawned by the old manager are gone with it.
func (m *ipmModel) reload() {
	m.gen++
	m.expiredSeen = map[string]bool{}
	for _, e := range m.black {
		e.expiredQueried = false
	}
}
func (m *ipmModel) removeWhite(key string) { delete(m.white, key) }

// allowed returns the required answer of IsAllowed(ip) at iv, plus the root cause to name when the
// implementation allows an address the model requires to be refused.
func (m *ipmModel) allowed(ip string, iv ival, covers func(key, ip string) bool) (want tri, key string, why string) {
	for _, k := range sortedKeys(m.white) {
		if covers(k, ip) {
			if m.whiteGen[k] < m.gen {
				return Yes, "C18/blacklist/entry-not-reloaded-from-storage/whitelist-entry", "whitelist entry " + k + " was written before the reload"
			}
			return Yes, "C18/blacklist/whitelisted-address-refused", "whitelist entry " + k
		}
	}
	var liveKey string
	var liveEntry *listEntry
	unknown := false
	expiredOther := ""
	for _, k := range sortedKeys(m.black) {
		e := m.black[k]
		if !covers(k, ip) {
			continue
		}
		switch e.live(iv) {
		case Yes:
			if liveEntry == nil || k == ip {
				liveKey, liveEntry = k, e
			}
		case Unknown:
			unknown = true
		case No:
			expiredOther = k
		}
	}
	if expiredOther != "" || unknown {
		// the implementation sees an expired record for this address (exact or first CIDR hit): async removal of key `ip`
		defer func() { m.expiredSeen[ip] = true }()
	}
	if liveEntry != nil {
		switch {
		case liveEntry.gen < m.gen && liveEntry.dur == 0:
			return No, "C18/blacklist/entry-not-reloaded-from-storage/permanent-entry",
				"permanent entry " + liveKey + " was written before the reload (new IPManager over the same storage) and no longer refuses the address"
		case liveEntry.gen < m.gen:
			return No, "C18/blacklist/entry-not-reloaded-from-storage/temporary-entry-still-running",
				"unexpired entry " + liveKey + " was written before the reload (new IPManager over the same storage) and no longer refuses the address"
		case liveEntry.expiredQueried && liveKey == ip:
			return No, "C18/blacklist/async-remove-erases-readded-entry/IsAllowed-on-expired-record-then-AddToBlacklist",
				"an earlier IsAllowed saw an expired record and spawned `go RemoveFromBlacklist(ip)`; the entry added afterwards is gone"
		case expiredOther != "" || unknown:
			return No, "C18/blacklist/expired-entry-shadows-live-entry",
				fmt.Sprintf("live entry %s covers the address, but the lookup stops at the expired entry %s", liveKey, expiredOther)
		default:
			return No, "C18/blacklist/blacklisted-address-allowed", "live entry " + liveKey
		}
	}
	if unknown {
		return Unknown, "", ""
	}
	if m.gen > 0 && expiredOther != "" {
		return Yes, "C18/blacklist/expired-entry-resurrected-by-reload", "only expired entries (" + expiredOther + ") cover the address, and the list was reloaded from the storage"
	}
	return Yes, "C18/blacklist/unlisted-address-refused", "no live blacklist entry covers the address"
}
