package c18

// part 8: the DEFAULT configuration (security.DefaultBruteForceConfig(), what the server runs with) under a crowd:
// between two failures of an address, thousands of distinct other addresses fail once each inside the window.
// Oracle unchanged: the reference sliding window per address - what other addresses do never makes an address's
// own failures disappear. Default window (5 min) and ban (30 min) dwarf the run time, so no step is near a boundary.
// Half of the cases drive the victims through the mini-server's handshake path (default protector inside),
// the crowd always through RecordFailure (it stands for that many other clients failing once).

import (
	"context"
	"fmt"
	"strings"
	"sync/atomic"
	"testing"
	"time"

	"pgregory.net/rapid"

	"tunnox-core/internal/packet"
	"tunnox-core/internal/security"
	"tunnox-core/verif/vkit"
	"tunnox-core/verif/vkit/miniserver"
)

type CrowdStep struct {
	Op     string `json:"op"` // fail | crowd | query | success
	Victim int    `json:"victim,omitempty"`
	N      int    `json:"n,omitempty"` // fail: repetitions; crowd: number of distinct addresses failing once
}

type CrowdCase struct {
	ViaServer bool        `json:"via_server"`
	Steps     []CrowdStep `json:"steps"`
}

var crowdSeq int64 // distinct crowd addresses over the whole process

func genCrowd(t *rapid.T) CrowdCase {
	c := CrowdCase{ViaServer: rapid.Bool().Draw(t, "viaServer")}
	n := rapid.IntRange(4, 10).Draw(t, "nsteps")
	budget := 26000
	ops := []string{"fail", "fail", "fail", "crowd", "crowd", "query", "query", "success"}
	for i := 0; i < n; i++ {
		s := CrowdStep{Op: rapid.SampledFrom(ops).Draw(t, "op"), Victim: rapid.SampledFrom([]int{0, 0, 0, 1, 2}).Draw(t, "victim")}
		switch s.Op {
		case "fail":
			s.N = rapid.IntRange(1, 4).Draw(t, "n")
		case "crowd":
			s.N = rapid.SampledFrom([]int{40, 2500, 9990, 10000, 10050, 14000}).Draw(t, "crowd")
			if s.N > budget {
				s.N = 40
			}
			budget -= s.N
		}
		c.Steps = append(c.Steps, s)
	}
	// closing: every victim fails up to the threshold and is queried
	for v := 0; v < 3; v++ {
		c.Steps = append(c.Steps, CrowdStep{Op: "fail", Victim: v, N: 5}, CrowdStep{Op: "query", Victim: v})
	}
	return c
}

func runCrowd(t vkit.TB, c CrowdCase) {
	ctx, cancel := context.WithCancel(context.Background())
	defer cancel()
	def := security.DefaultBruteForceConfig()
	var p *security.BruteForceProtector
	var srv *miniserver.Server
	if c.ViaServer {
		var err error
		if srv, err = miniserver.New(miniserver.Options{NoCommands: true}); err != nil { // BruteForce nil: the default configuration
			t.Fatalf("miniserver: %v", err)
		}
		defer srv.Close()
		p = srv.Brute
	} else {
		p = security.NewBruteForceProtector(nil, ctx)
	}
	base := atomic.AddInt64(&crowdSeq, 1) << 20
	victims := []string{fmt.Sprintf("172.16.%d.1", base>>20%250), fmt.Sprintf("172.17.%d.1", base>>20%250), fmt.Sprintf("172.18.%d.1", base>>20%250)}
	models := make([]*ipModel, len(victims))
	for i := range models {
		models[i] = newIPModel(bfCfg{M: def.MaxFailures, P: def.PermanentBanAt, W: def.TimeWindow, Ban: def.BanDuration}, nil)
	}
	start := time.Now()
	now := func() time.Duration { return time.Since(start) }
	var trace []string
	crowded, port := 0, 0
	maxCrowdBetween := 0
	sinceFail := map[int]int{}
	// one failed authentication of a victim: through the handshake path or directly; returns false when the gate refused it
	fail := func(v int) (iv ival, recorded bool, kind string) {
		b := now()
		if !c.ViaServer {
			p.RecordFailure(victims[v])
			return ival{b, now()}, true, "recorded"
		}
		port++
		cl, err := srv.Connect(fmt.Sprintf("%s:%d", victims[v], 20000+port))
		if err != nil {
			t.Fatalf("connect: %v", err)
		}
		defer cl.CloseByPeer()
		resp, herr, rerr := cl.Handshake(&packet.HandshakeRequest{ClientID: 987654321, Version: "2.0", Protocol: "tcp", ConnectionType: "control"})
		iv = ival{b, now()}
		if rerr != nil {
			return iv, false, "none"
		}
		kind = outcome(resp, herr)
		return iv, kind == "notfound", kind
	}
	for si, s := range c.Steps {
		m := models[s.Victim%len(victims)]
		v := s.Victim % len(victims)
		switch s.Op {
		case "crowd":
			for k := 0; k < s.N; k++ {
				crowded++
				a := base + int64(crowded)
				p.RecordFailure(fmt.Sprintf("100.%d.%d.%d", 64+a>>16&63, a>>8&255, a&255))
			}
			for k := range sinceFail {
				sinceFail[k] += s.N
			}
			trace = append(trace, fmt.Sprintf("%d:crowd of %d distinct addresses fails once each (done @%v)", si, s.N, now().Round(time.Millisecond)))
		case "success":
			p.RecordSuccess(victims[v])
			m.success()
			delete(sinceFail, v)
			trace = append(trace, fmt.Sprintf("%d:success victim%d", si, v))
		case "fail":
			for k := 0; k < s.N; k++ {
				iv, recorded, kind := fail(v)
				if kind == "none" {
					m.undetermined = "no handshake response"
					break
				}
				want := m.query(iv)
				if c.ViaServer && want != Unknown && (kind == "banned") != (want == Yes) {
					key, why := m.classify(want, iv)
					vkit.Violation(t, key+"/default-config-under-crowd/via-handshake", fmt.Sprintf("step %d failing handshake of victim%d answered %q, model banned=%v: %s | crowd of %d other addresses so far | trace: %s", si, v, kind, want, why, crowded, strings.Join(trace, " ; ")), Replay{Kind: "crowd", Crowd: &c})
					vkit.Case("known:"+key+"/default-config-under-crowd/via-handshake", false, "")
					return
				}
				if recorded {
					if n, ok := sinceFail[v]; ok && n > maxCrowdBetween && len(m.fails) > 0 {
						maxCrowdBetween = n
					}
					m.failure(iv)
					sinceFail[v] = 0
				}
			}
			trace = append(trace, fmt.Sprintf("%d:victim%d fails x%d (in model: %d since last success)", si, v, s.N, len(m.fails)))
		case "query":
			b := now()
			got, _ := p.IsBanned(victims[v])
			iv := ival{b, now()}
			want := m.query(iv)
			trace = append(trace, fmt.Sprintf("%d:IsBanned(victim%d)=%v want=%v", si, v, got, want))
			if want == Unknown {
				vkit.Skipped(1)
				continue
			}
			if got != (want == Yes) {
				key, why := m.classify(want, iv)
				vkit.Violation(t, key+"/default-config-under-crowd", fmt.Sprintf("step %d IsBanned(victim%d)=%v, model requires %v: %s | default config (%d failures / %v, ban %v), crowd of %d other addresses so far | trace: %s",
					si, v, got, want, why, def.MaxFailures, def.TimeWindow, def.BanDuration, crowded, strings.Join(trace, " ; ")), Replay{Kind: "crowd", Crowd: &c})
				vkit.Case("known:"+key+"/default-config-under-crowd", false, "")
				return
			}
		}
	}
	class := "crowd:small"
	switch {
	case maxCrowdBetween >= 10000:
		class = "crowd:>=10000-other-addresses-between-two-failures-of-a-victim"
	case maxCrowdBetween >= 2500:
		class = "crowd:>=2500-other-addresses-between-two-failures-of-a-victim"
	}
	if c.ViaServer {
		class += "(handshake)"
	}
	var sb strings.Builder
	fmt.Fprintf(&sb, "%v|", c.ViaServer)
	for _, s := range c.Steps {
		fmt.Fprintf(&sb, "%s%d*%d;", s.Op, s.Victim, s.N)
	}
	vkit.Case(class, maxCrowdBetween >= 10000, sb.String())
	vkit.AddExtra("crowd_addresses", int64(crowded))
	vkit.Sample(class, c)
}

func TestCrowd(t *testing.T) {
	vkit.Check(t, 64, 1280, func(t *rapid.T) {
		runCrowd(t, genCrowd(t))
	})
}
