// C14 — the tiered store never serves stale data or loses concurrent list updates.
package c14

import (
	"context"
	"errors"
	"fmt"
	"sort"
	"strings"
	"testing"
	"time"

	"pgregory.net/rapid"

	"tunnox-core/internal/core/storage/hybrid"
	stypes "tunnox-core/internal/core/storage/types"
	"tunnox-core/verif/vkit"
)

func TestMain(m *testing.M) { vkit.Main(m, "C14") }

// one key per prefix category of hybrid.DefaultConfig
var catKeys = map[string]string{
	"runtime":           "tunnox:session:k1",
	"persistent":        "tunnox:user:k1",
	"shared":            "tunnox:conn_state:k1",
	"shared+persistent": "tunnox:port_mapping:k1",
}
var catNames = []string{"runtime", "persistent", "shared", "shared+persistent"}

var progNames = []string{"get||delete", "get||set", "get||delete;set", "append||append", "append||remove", "setnx||setnx", "set||set", "exists||delete"}

type Case struct {
	Prog     string `json:"prog"`
	Cat      string `json:"category"`
	Shared   bool   `json:"shared_cache"` // a separate shared cache tier (Redis role) is configured
	Warm     bool   `json:"warm_cache"`   // key already in the cache tier at start (else only in persistent / shared)
	Picks    []int  `json:"picks"`
	FailAt   int    `json:"fail_at"` // -1: no fault
	OtherGet bool   `json:"other_node_get"`
}

type world struct {
	g              *vkit.Gate
	cache, cache2  *vkit.GateCache
	shared         *vkit.GateCache
	pers           *vkit.GatePersistent
	h, h2          *hybrid.Storage
	persistentTier bool
}

func newWorld(c Case) *world {
	w := &world{g: vkit.NewGate()}
	w.g.Grace = 400 * time.Microsecond
	w.cache = vkit.NewGateCache(w.g, "cache")
	w.cache2 = vkit.NewGateCache(w.g, "cache2")
	w.pers = vkit.NewGatePersistent(w.g, "pers")
	var sh stypes.CacheStorage
	if c.Shared {
		w.shared = vkit.NewGateCache(w.g, "shared")
		sh = w.shared
	}
	mk := func(cache *vkit.GateCache) *hybrid.Storage {
		cfg := hybrid.DefaultConfig()
		cfg.EnablePersistent = true
		return hybrid.NewWithSharedCache(context.Background(), cache, sh, w.pers, cfg)
	}
	w.h = mk(w.cache)
	w.h2 = mk(w.cache2)
	return w
}

func (w *world) close() {
	w.g.Deactivate()
	w.h.Close()
	w.h2.Close()
}

type result struct {
	key, detail string
	log         []vkit.Step
	interleaved bool
	faulted     bool
	final       string
}

func valStr(v any, err error) string {
	if err != nil {
		if errors.Is(err, stypes.ErrKeyNotFound) {
			return "<notfound>"
		}
		return "<err:" + err.Error() + ">"
	}
	return fmt.Sprint(v)
}

// runCase executes one schedule and applies the oracle.
func runCase(c Case, choose func(int, []string) int) result {
	w := newWorld(c)
	defer w.close()
	key := catKeys[c.Cat]
	// initial state (ungated)
	switch {
	case strings.HasPrefix(c.Prog, "append"):
		if c.Prog == "append||remove" {
			w.h.SetList(key, []any{"x"}, 0)
		}
	case c.Prog == "setnx||setnx":
	default:
		w.h.Set(key, "v1", 0)
	}
	if !c.Warm {
		// cold local caches: the key lives only in the persistent tier (or the shared cache)
		w.cache.Raw().Delete(key)
		w.cache2.Raw().Delete(key)
		if c.Shared && (c.Cat == "shared+persistent") {
			w.shared.Raw().Delete(key)
		}
	}
	type opres struct {
		name string
		val  string
		err  error
	}
	var res [2][]opres
	run := func(i int, name string, f func() (any, error)) {
		v, err := f()
		res[i] = append(res[i], opres{name, valStr(v, err), err})
	}
	w.g.FailAt = c.FailAt
	w.g.Activate()
	var t1, t2 func()
	crossNode := c.Shared && (c.Cat == "shared" || c.Cat == "shared+persistent")
	hB := w.h // the node the second task runs on
	if crossNode {
		hB = w.h2
	}
	switch c.Prog {
	case "get||delete":
		t1 = func() { run(0, "get", func() (any, error) { return w.h.Get(key) }) }
		t2 = func() { run(1, "delete", func() (any, error) { return nil, w.h.Delete(key) }) }
	case "get||set":
		t1 = func() { run(0, "get", func() (any, error) { return w.h.Get(key) }) }
		t2 = func() { run(1, "set", func() (any, error) { return nil, w.h.Set(key, "v2", 0) }) }
	case "get||delete;set":
		t1 = func() { run(0, "get", func() (any, error) { return w.h.Get(key) }) }
		t2 = func() {
			run(1, "delete", func() (any, error) { return nil, w.h.Delete(key) })
			run(1, "set", func() (any, error) { return nil, w.h.Set(key, "v3", 0) })
		}
	case "set||set":
		t1 = func() { run(0, "set", func() (any, error) { return nil, w.h.Set(key, "vA", 0) }) }
		t2 = func() { run(1, "set", func() (any, error) { return nil, w.h.Set(key, "vB", 0) }) }
	case "exists||delete":
		t1 = func() { run(0, "exists", func() (any, error) { return w.h.Exists(key) }) }
		t2 = func() { run(1, "delete", func() (any, error) { return nil, w.h.Delete(key) }) }
	case "append||append":
		t1 = func() { run(0, "append", func() (any, error) { return nil, w.h.AppendToList(key, "a") }) }
		t2 = func() { run(1, "append", func() (any, error) { return nil, hB.AppendToList(key, "b") }) }
	case "append||remove":
		t1 = func() { run(0, "append", func() (any, error) { return nil, w.h.AppendToList(key, "a") }) }
		t2 = func() { run(1, "remove", func() (any, error) { return nil, w.h.RemoveFromList(key, "x") }) }
	case "setnx||setnx":
		t1 = func() { run(0, "setnx", func() (any, error) { return w.h.SetNX(key, "a", 0) }) }
		t2 = func() { run(1, "setnx", func() (any, error) { return hB.SetNX(key, "b", 0) }) }
	}
	w.g.Go("T1", t1)
	w.g.Go("T2", t2)
	log := w.g.Run(choose)
	w.g.Deactivate()
	r := result{log: log}
	if w.g.Aborted {
		r.key, r.detail = "C14/harness/schedule-aborted", vkit.StepsString(log)
		return r
	}
	// interleaving measure: T2 (or a write-back) released before T1's last step and after its first
	first, last := map[string]int{}, map[string]int{}
	for i, s := range log {
		if _, ok := first[s.Task]; !ok {
			first[s.Task] = i
		}
		last[s.Task] = i
		if s.Failed {
			r.faulted = true
		}
	}
	names := []string{}
	for n := range first {
		names = append(names, n)
	}
	sort.Strings(names)
	for _, a := range names {
		for _, b := range names {
			if a != b && first[b] > first[a] && first[b] < last[a] {
				r.interleaved = true
			}
		}
	}
	anyErr := false
	for _, rs := range res {
		for _, o := range rs {
			if o.err != nil && !errors.Is(o.err, stypes.ErrKeyNotFound) {
				anyErr = true
			}
		}
	}
	// ---- oracle -------------------------------------------------------------
	reader := w.h
	if c.OtherGet && crossNode {
		reader = w.h2 // another node must see the same for cross-node categories
	}
	// Root-cause shape of the schedule (decides the finding key, so that a failure with a
	// different mechanism is never absorbed by a listed finding).
	shape := "no-known-shape"
	firstWrite := -1 // first tier write by T1/T2
	for i, s := range log {
		isWrite := strings.HasSuffix(s.Op, ".Delete") || strings.HasSuffix(s.Op, ".Set") || strings.HasSuffix(s.Op, ".SetNX")
		if !strings.HasPrefix(s.Task, "bg") && isWrite && firstWrite < 0 {
			firstWrite = i
		}
	}
	failedGet, failedCacheWrite, failedCacheDelete, failedPersRead := false, false, false, false
	for _, s := range log {
		if s.Failed && !strings.HasPrefix(s.Op, "pers.") && (strings.HasSuffix(s.Op, ".Get") || strings.HasSuffix(s.Op, ".Exists")) {
			failedGet = true // a CACHE-tier read error (hybrid treats it as a miss: listed finding)
		}
		if s.Failed && strings.HasPrefix(s.Op, "pers.") && (strings.HasSuffix(s.Op, ".Get") || strings.HasSuffix(s.Op, ".Exists")) {
			failedPersRead = true // a persistent-tier read error must abort the operation
		}
		if s.Failed && !strings.HasPrefix(s.Op, "pers.") && strings.HasSuffix(s.Op, ".Set") {
			failedCacheWrite = true // hybrid.Set swallows it (listed finding)
		}
		if s.Failed && !strings.HasPrefix(s.Op, "pers.") && strings.HasSuffix(s.Op, ".Delete") {
			failedCacheDelete = true // hybrid.Delete must report it: a different root cause, never absorbed by the Set finding
		}
	}
	wbAfter := false
	for i, s := range log {
		if strings.HasPrefix(s.Task, "bg") && firstWrite >= 0 && i > firstWrite {
			wbAfter = true
		}
	}
	isList := strings.HasPrefix(c.Prog, "append")
	switch {
	case failedCacheDelete:
		shape = "cache-delete-failure-swallowed"
	case failedCacheWrite:
		shape = "cache-set-failure-swallowed"
	case wbAfter:
		shape = "async-writeback"
	case failedPersRead && isList && !wbAfter:
		shape = "persistent-read-error-ignored"
	case failedGet && isList:
		shape = "tier-read-error-as-miss"
	case r.interleaved && isList:
		shape = "overlapping-get-modify-set"
	case r.interleaved && c.Prog == "set||set":
		shape = "overlapping-two-tier-writes"
	}
	suffix := "/category=" + c.Cat
	if r.faulted {
		suffix += "/under-single-tier-fault"
	}
	if shape == "async-writeback" {
		// the detached write-back exists only on a cache MISS: which programs can miss (cold cache, or a
		// program that deletes) is part of the root cause. A write-back in a program that never misses on
		// the pinned tree is a different defect.
		cache := "cold-cache"
		if c.Warm {
			cache = "warm-cache"
		}
		if failedGet {
			cache += "/after-cache-read-fault" // a cache read error is treated as a miss (listed finding): a warm cache misses too
		}
		shape += "/prog=" + c.Prog + "/" + cache
	}
	fail := func(symptom, detail string) {
		r.key = "C14/" + shape + "/" + symptom + suffix
		r.detail = detail + "; schedule: " + vkit.StepsString(log)
	}
	fv := func() string { v, err := reader.Get(key); return valStr(v, err) }
	switch c.Prog {
	case "get||delete", "exists||delete":
		r.final = fv()
		if !anyErr && r.final != "<notfound>" {
			fail("stale-after-delete", "Delete returned, later Get = "+r.final)
		}
		if c.Prog == "get||delete" && len(res[0]) == 1 && res[0][0].err == nil && res[0][0].val != "v1" {
			fail("get-returned-foreign-value", res[0][0].val)
		}
	case "get||set":
		r.final = fv()
		if !anyErr && r.final != "v2" {
			fail("stale-after-set", "Set v2 returned, later Get = "+r.final)
		}
		if len(res[0]) == 1 && res[0][0].err == nil && res[0][0].val != "v1" && res[0][0].val != "v2" {
			fail("get-returned-foreign-value", res[0][0].val)
		}
	case "get||delete;set":
		r.final = fv()
		if !anyErr && r.final != "v3" {
			fail("stale-after-set", "Delete;Set v3 returned, later Get = "+r.final)
		}
	case "set||set":
		r.final = fv()
		if !anyErr && r.final != "vA" && r.final != "vB" {
			fail("concurrent-sets-lost", r.final)
		}
		// both tiers must agree at quiescence (else a later cache expiry flips the value back)
		if !anyErr && (c.Cat == "persistent" || c.Cat == "shared+persistent") {
			pv, ok := w.pers.RawGet(key)
			if ok && fmt.Sprint(pv) != r.final {
				fail("tiers-diverge", fmt.Sprintf("cache serves %s, persistent holds %v", r.final, pv))
			}
		}
	case "append||append", "append||remove":
		l, err := reader.GetList(key)
		got := map[string]int{}
		for _, x := range l {
			got[fmt.Sprint(x)]++
		}
		r.final = fmt.Sprint(l)
		if !anyErr {
			if err != nil && !errors.Is(err, stypes.ErrKeyNotFound) {
				fail("list-unreadable", err.Error())
			}
			want := []string{"a", "b"}
			if c.Prog == "append||remove" {
				want = []string{"a"}
				if got["x"] != 0 {
					fail("lost-list-update", fmt.Sprintf("removed member x still present: %v", l))
				}
			}
			for _, m := range want {
				if got[m] != 1 {
					fail("lost-list-update", fmt.Sprintf("appended member %q count %d in %v", m, got[m], l))
				}
			}
		}
	case "setnx||setnx":
		wins := 0
		for _, rs := range res {
			for _, o := range rs {
				if o.err == nil && o.val == "true" {
					wins++
				}
			}
		}
		r.final = fv()
		if !anyErr && wins != 1 {
			if crossNode && c.Cat == "shared+persistent" {
				// SetNX routes shared+persistent keys to the node-local cache: tier-class defect (see TestTierClass)
				r.key, r.detail = "C14/op-ignores-category/SetNX/category=shared+persistent", fmt.Sprintf("%d winners across two nodes; schedule: %s", wins, vkit.StepsString(log))
			} else {
				fail("setnx-not-exclusive", fmt.Sprintf("%d winners", wins))
			}
		}
	}
	return r
}

func sig(c Case, r result) string {
	return fmt.Sprintf("%s|%s|%v|%v|%d|%s", c.Prog, c.Cat, c.Shared, c.Warm, c.FailAt, vkit.StepsString(r.log))
}

func report(t vkit.TB, c Case, r result) {
	class := c.Prog + "/" + c.Cat
	if r.key != "" {
		vkit.Violation(t, r.key, r.detail, c)
		vkit.Case("known:"+class, r.interleaved, sig(c, r))
		return
	}
	vkit.Case(class, r.interleaved, sig(c, r))
	vkit.Sample(c.Prog, map[string]any{"case": c, "schedule": vkit.StepsString(r.log), "final": r.final})
	if r.faulted {
		vkit.Class("feat:single-tier-fault")
	}
}

// TestExhaustive enumerates, by DFS with prefix re-execution, every schedule of every
// two-task program for every key category (cold cache, with and without a shared tier).
func TestExhaustive(t *testing.T) {
	idx := 0
	total := 0
	for _, prog := range progNames {
		for _, cat := range catNames {
			for _, shared := range []bool{false, true} {
				for _, warm := range []bool{false, true} {
					idx++
					if !vkit.Mine(idx) {
						continue
					}
					c := Case{Prog: prog, Cat: cat, Shared: shared, Warm: warm, FailAt: -1, OtherGet: shared}
					d := &vkit.DFS{}
					n := 0
					for {
						r := runCase(c, d.Choose)
						c.Picks = d.Trace()
						report(t, c, r)
						n++
						if !d.Next() || n > 5000 {
							break
						}
					}
					total += n
					vkit.Exhaustive(fmt.Sprintf("%s/%s/shared=%v/warm=%v", prog, cat, shared, warm), n <= 5000 && d.Diverged == 0)
					if d.Diverged > 0 {
						vkit.AddExtra("dfs_diverged_choices", int64(d.Diverged))
					}
				}
			}
		}
	}
	vkit.AddExtra("dfs_schedules", int64(total))
}

// TestRandomSchedules draws program, category, pick sequence and a single tier fault.
func TestRandomSchedules(t *testing.T) {
	vkit.Check(t, 1500, 60000, func(t *rapid.T) {
		c := Case{
			Prog:   rapid.SampledFrom(progNames).Draw(t, "prog"),
			Cat:    rapid.SampledFrom(catNames).Draw(t, "cat"),
			Shared: rapid.Bool().Draw(t, "shared"),
			Warm:   rapid.Bool().Draw(t, "warm"),
			Picks:  rapid.SliceOfN(rapid.IntRange(0, 3), 0, 24).Draw(t, "picks"),
			FailAt: rapid.IntRange(-1, 8).Draw(t, "failAt"),
		}
		c.OtherGet = c.Shared && rapid.Bool().Draw(t, "otherGet")
		p := &vkit.Picks{List: c.Picks}
		r := runCase(c, p.Choose)
		report(t, c, r)
	})
}

// TestTierClass: per category and per operation kind, the set of tiers touched must
// match the category's class, and cross-node categories must be visible from another node.
func TestTierClass(t *testing.T) {
	if vkit.Shard() != 0 {
		t.Skip("single shard")
	}
	type op struct {
		name string
		do   func(h *hybrid.Storage, key string) error
		read func(h *hybrid.Storage, key string) (string, error) // how another node observes the effect ("" = n/a)
	}
	ops := []op{
		{"Set", func(h *hybrid.Storage, k string) error { return h.Set(k, "v", 0) }, func(h *hybrid.Storage, k string) (string, error) { v, e := h.Get(k); return valStr(v, e), e }},
		{"SetNX", func(h *hybrid.Storage, k string) error { _, e := h.SetNX(k, "v", 0); return e }, func(h *hybrid.Storage, k string) (string, error) { v, e := h.Get(k); return valStr(v, e), e }},
		{"SetList", func(h *hybrid.Storage, k string) error { return h.SetList(k, []any{"m"}, 0) }, func(h *hybrid.Storage, k string) (string, error) { v, e := h.GetList(k); return fmt.Sprint(v), e }},
		{"AppendToList", func(h *hybrid.Storage, k string) error { return h.AppendToList(k, "m") }, func(h *hybrid.Storage, k string) (string, error) { v, e := h.GetList(k); return fmt.Sprint(v), e }},
		{"Incr", func(h *hybrid.Storage, k string) error { _, e := h.Incr(k); return e }, func(h *hybrid.Storage, k string) (string, error) { v, e := h.Get(k); return valStr(v, e), e }},
		{"SetHash", func(h *hybrid.Storage, k string) error { return h.SetHash(k, "f", "v") }, func(h *hybrid.Storage, k string) (string, error) { v, e := h.GetHash(k, "f"); return valStr(v, e), e }},
		{"Set+SetExpiration", func(h *hybrid.Storage, k string) error {
			if e := h.Set(k, "v", 0); e != nil {
				return e
			}
			return h.SetExpiration(k, time.Hour)
		}, func(h *hybrid.Storage, k string) (string, error) { v, e := h.Get(k); return valStr(v, e), e }},
		{"Set+Delete", func(h *hybrid.Storage, k string) error {
			if e := h.Set(k, "v", 0); e != nil {
				return e
			}
			return h.Delete(k)
		}, nil},
		{"Set+Exists", func(h *hybrid.Storage, k string) error {
			if e := h.Set(k, "v", 0); e != nil {
				return e
			}
			_, e := h.Exists(k)
			return e
		}, nil},
	}
	for _, cat := range catNames {
		for _, o := range ops {
			for _, sharedTier := range []bool{true, false} {
				c := Case{Cat: cat, Shared: sharedTier, Prog: "tier:" + o.name, FailAt: -1}
				w := newWorld(c)
				key := catKeys[cat]
				err := o.do(w.h, key)
				hk := key
				if o.name == "SetHash" {
					hk = key + ":f"
				}
				touchedCache := len(w.cache.Touched(hk)) > 0
				touchedShared := w.shared != nil && len(w.shared.Touched(hk)) > 0
				touchedPers := false
				for _, op := range w.pers.Touched(hk) {
					if op == "Set" || op == "Delete" {
						touchedPers = true
					}
				}
				var bad string
				switch cat {
				case "runtime":
					if touchedPers || touchedShared {
						bad = fmt.Sprintf("runtime key reached persistent=%v shared=%v", touchedPers, touchedShared)
					}
				case "persistent":
					if !touchedPers && err == nil && o.name != "SetNX" {
						bad = "persistent-class key was not written through to the persistent tier"
					}
				case "shared":
					if touchedPers {
						bad = "shared (runtime-only) key reached the persistent tier"
					}
					if sharedTier && touchedCache && !touchedShared {
						bad = "shared-class key went to the node-local cache instead of the shared cache"
					}
				case "shared+persistent":
					if !touchedPers && err == nil && o.name != "SetNX" {
						bad = "shared+persistent key was not written through to the persistent tier"
					}
					if sharedTier && touchedCache && !touchedShared {
						bad = "shared+persistent key went to the node-local cache instead of the shared cache"
					}
				}
				// cross-node visibility
				if bad == "" && err == nil && o.read != nil && sharedTier && (cat == "shared" || cat == "shared+persistent") {
					mine, e1 := o.read(w.h, key)
					other, e2 := o.read(w.h2, key)
					if e1 == nil && (e2 != nil || mine != other) {
						bad = fmt.Sprintf("written on node 1 (%s) but node 2 reads %s", mine, other)
					}
				}
				class := "tier/" + cat + "/" + o.name
				if bad != "" {
					kind := o.name
					vkit.Violation(t, "C14/op-ignores-category/"+kind+"/category="+cat, bad+fmt.Sprintf(" (shared tier configured=%v)", sharedTier), c)
					vkit.Case("known:"+class, true, class+fmt.Sprint(sharedTier))
				} else {
					vkit.Case(class, true, class+fmt.Sprint(sharedTier))
				}
				w.close()
			}
		}
	}
	vkit.Exhaustive("tier-class-matrix", true)
}

func TestReplay(t *testing.T) {
	path := vkit.Replaying()
	if path == "" {
		t.Skip("no VERIF_REPLAY")
	}
	var kind struct {
		Model   bool `json:"model"`
		Factory bool `json:"factory"`
		Slow    bool `json:"slow_persistent_read"`
		AutoSv  bool `json:"json_autosave"`
		Sweep   bool `json:"cache_sweep_race"`
		TwoNode bool `json:"two_node_write_through"`
	}
	if _, err := vkit.LoadReplay(path, &kind); err != nil {
		t.Fatal(err)
	}
	if kind.TwoNode {
		var tc TNCase
		vkit.LoadReplay(path, &tc)
		if key, detail := runTwoNode(tc); key != "" {
			vkit.Violation(t, key, detail, tc)
		}
		return
	}
	if kind.Sweep {
		var sc SweepCase
		vkit.LoadReplay(path, &sc)
		if key, detail := runSweepRace(sc); key != "" {
			vkit.Violation(t, key, detail, sc)
		}
		return
	}
	if kind.AutoSv {
		var ac AutoSaveCase
		vkit.LoadReplay(path, &ac)
		for i := 0; i < 20; i++ { // timing-dependent
			if key, detail, _, _ := runAutoSave(ac); key != "" {
				vkit.Violation(t, key, detail, ac)
				return
			}
		}
		return
	}
	if kind.Slow {
		var sc SlowCase
		vkit.LoadReplay(path, &sc)
		if key, detail := runSlow(sc); key != "" {
			vkit.Violation(t, key, detail, sc)
		}
		return
	}
	if kind.Factory {
		var fc FCase
		vkit.LoadReplay(path, &fc)
		if f := runFactory(t, fc); f != nil {
			vkit.Violation(t, f.key, f.detail, fc)
		}
		return
	}
	if kind.Model {
		var mc MCase
		vkit.LoadReplay(path, &mc)
		reportModel(t, mc, runModel(mc))
		return
	}
	var c Case
	if _, err := vkit.LoadReplay(path, &c); err != nil {
		t.Fatal(err)
	}
	if strings.HasPrefix(c.Prog, "tier:") {
		TestTierClass(t)
		return
	}
	// schedule-dependent on the adoption of the write-back goroutine: re-run a few times
	for i := 0; i < 5; i++ {
		p := &vkit.Picks{List: c.Picks}
		r := runCase(c, p.Choose)
		report(t, c, r)
	}
}
