package c14

import (
	"context"
	"fmt"
	"os"
	"path/filepath"
	"sync"
	"testing"
	"time"

	"pgregory.net/rapid"

	"tunnox-core/internal/core/storage/hybrid"
	jsonstorage "tunnox-core/internal/core/storage/json"
	"tunnox-core/internal/core/storage/memory"
	"tunnox-core/verif/vkit"
)

// ---------------------------------------------------------------------------
// TestJSONAutoSave — the persistent tier of the stand-alone deployment (JSON file, written by a periodic
// auto-save and once more by Close) against "once a write has returned, a later read returns that value
// or a newer one, never an older value brought back from another tier" ACROSS A RESTART: the file is what
// the next process starts from. A history of writes and deletes runs while the auto-save loop is saving
// (interval 2 ms); optionally the save fails for a while (the temp file's path is occupied, as with a full
// or read-only disk) and then recovers. Then the writes stop, the store is closed (Close returns nil) and
// a new store is loaded from the same file: it must hold exactly the last acknowledged value of every key.

type AutoSaveCase struct {
	AutoSave bool     `json:"json_autosave"`
	Ops      []ASStep `json:"as_ops"`
	NoWait   bool     `json:"close_right_after_last_write"` // shut down without the quiet 12 ms first
}

type ASStep struct {
	Op    string `json:"op"` // set | delete | pause | fail-on | fail-off
	Key   int    `json:"key,omitempty"`
	Val   string `json:"val,omitempty"`
	Micro int    `json:"us,omitempty"`
}

func runAutoSave(c AutoSaveCase) (key, detail string, overlap bool, err error) {
	dir, err := os.MkdirTemp("", "c14autosave")
	if err != nil {
		return "", "", false, err
	}
	defer os.RemoveAll(dir)
	path := filepath.Join(dir, "data.json")
	js, err := jsonstorage.New(&jsonstorage.Config{FilePath: path, AutoSave: true, SaveInterval: 2 * time.Millisecond})
	if err != nil {
		return "", "", false, err
	}
	// the data file exists before anything else happens (a store that has run before)
	js.Set("tunnox:persist:boot", "1")
	if err := js.Flush(); err != nil {
		js.Close()
		return "", "", false, fmt.Errorf("first Flush: %v", err)
	}
	model := map[string]string{}
	failing, everFailed := false, false
	blocker := path + ".tmp"
	t0 := time.Now()
	for _, s := range c.Ops {
		k := fmt.Sprintf("tunnox:port_mapping:k%d", s.Key)
		switch s.Op {
		case "set":
			if err := js.Set(k, s.Val); err != nil {
				js.Close()
				return "", "", false, fmt.Errorf("Set refused: %v", err)
			}
			model[k] = s.Val
		case "delete":
			js.Delete(k)
			delete(model, k)
		case "pause":
			time.Sleep(time.Duration(s.Micro) * time.Microsecond)
		case "fail-on":
			if !failing {
				os.Remove(blocker)
				if os.Mkdir(blocker, 0o755) == nil {
					failing, everFailed = true, true
				}
			}
		case "fail-off":
			if failing {
				os.Remove(blocker)
				failing = false
			}
		}
	}
	overlap = time.Since(t0) > 3*time.Millisecond // the auto-save ran during the history
	if failing {
		os.Remove(blocker)
	}
	// the writes have stopped; the process runs on for a few save intervals and is then shut down
	quiet := "after the writes stopped the store ran 12 ms (auto-save every 2 ms)"
	if c.NoWait {
		quiet = "the store was shut down right after the last write (auto-save every 2 ms)"
	} else {
		time.Sleep(12 * time.Millisecond)
	}
	if cerr := js.Close(); cerr != nil {
		// Close reports that it could not save: nothing is promised about the file then
		return "", "", overlap, nil
	}
	re, err := jsonstorage.New(&jsonstorage.Config{FilePath: path, AutoSave: false})
	if err != nil {
		return "", "", overlap, fmt.Errorf("reload: %v", err)
	}
	defer re.Close()
	shape := "auto-save-overlapping-writes"
	if everFailed {
		shape = "after-failed-auto-save"
	}
	if c.NoWait {
		shape += "/close-right-after-last-write"
	}
	for k, want := range model {
		got, gerr := re.Get(k)
		if gerr != nil || fmt.Sprint(got) != want {
			return "C14/json-tier/acknowledged-write-lost-across-restart/" + shape,
				fmt.Sprintf("key %s: last acknowledged value %q; %s, Close returned nil; the reloaded file has %v (err %v)", k, want, quiet, got, gerr), overlap, nil
		}
	}
	for i := 0; i < 4; i++ {
		k := fmt.Sprintf("tunnox:port_mapping:k%d", i)
		if _, ok := model[k]; ok {
			continue
		}
		if got, gerr := re.Get(k); gerr == nil {
			return "C14/json-tier/deleted-key-back-after-restart/" + shape,
				fmt.Sprintf("key %s was deleted (acknowledged) before the writes stopped; the reloaded file has %v", k, got), overlap, nil
		}
	}
	return "", "", overlap, nil
}

func TestJSONAutoSave(t *testing.T) {
	vkit.Check(t, 240, 6000, func(t *rapid.T) {
		c := AutoSaveCase{AutoSave: true, NoWait: rapid.IntRange(0, 2).Draw(t, "noWait") == 0}
		n := rapid.IntRange(3, 40).Draw(t, "n")
		faults := rapid.IntRange(0, 2).Draw(t, "faults") == 0
		seq := 0
		for i := 0; i < n; i++ {
			switch rapid.IntRange(0, 9).Draw(t, "op") {
			case 0, 1, 2, 3, 4:
				seq++
				c.Ops = append(c.Ops, ASStep{Op: "set", Key: rapid.IntRange(0, 3).Draw(t, "key"), Val: fmt.Sprintf("v%d", seq)})
			case 5:
				c.Ops = append(c.Ops, ASStep{Op: "delete", Key: rapid.IntRange(0, 3).Draw(t, "key")})
			case 6, 7:
				c.Ops = append(c.Ops, ASStep{Op: "pause", Micro: rapid.SampledFrom([]int{50, 300, 1000, 2500, 5000}).Draw(t, "us")})
			case 8:
				if faults {
					c.Ops = append(c.Ops, ASStep{Op: "fail-on"})
				}
			case 9:
				if faults {
					c.Ops = append(c.Ops, ASStep{Op: "fail-off"})
				}
			}
		}
		checkAutoSave(t, c)
	})
	// directed: a write, a failed save window that covers the only save attempts after it, recovery, shutdown
	checkAutoSave(t, AutoSaveCase{AutoSave: true, Ops: []ASStep{{Op: "set", Key: 0, Val: "active"}, {Op: "pause", Micro: 6000},
		{Op: "fail-on"}, {Op: "set", Key: 0, Val: "revoked"}, {Op: "pause", Micro: 9000}, {Op: "fail-off"}}})
}

func checkAutoSave(t vkit.TB, c AutoSaveCase) {
	key, detail, overlap, err := runAutoSave(c)
	if err != nil {
		vkit.Violation(t, "C14/harness/json-autosave", err.Error(), c)
		return
	}
	if key != "" {
		vkit.Violation(t, key, detail, c)
		vkit.Case("known:json-autosave", true, "")
		return
	}
	vkit.Case("json-autosave", overlap, fmt.Sprint(len(c.Ops), c.Ops))
}

// ---------------------------------------------------------------------------
// TestCacheTierSweepRace — the node-local memory tier's expiry sweep against writes that revive expired,
// not yet swept keys. For keys that live in the cache tier only (runtime keys; every key when persistence
// is off) a write that has returned must stay readable: the sweep may remove what HAS expired, never what
// was just written. Real memory.Storage under the hybrid facade; the writer and the sweep run in parallel.

type SweepCase struct {
	SweepRace bool `json:"cache_sweep_race"`
	Keys      int  `json:"keys"`
	Rounds    int  `json:"rounds"`
}

func runSweepRace(c SweepCase) (key, detail string) {
	mem := memory.New(context.Background())
	hc := hybrid.DefaultConfig()
	hc.EnablePersistent = false
	h := hybrid.NewWithSharedCache(context.Background(), mem, nil, nil, hc)
	defer h.Close()
	for round := 0; round < c.Rounds; round++ {
		names := make([]string, c.Keys)
		for i := range names {
			names[i] = fmt.Sprintf("tunnox:runtime:sweep:%d:%d", round, i)
			if err := h.Set(names[i], "old", time.Millisecond); err != nil {
				return "C14/harness/sweep-race", err.Error()
			}
		}
		time.Sleep(3 * time.Millisecond) // all expired, none swept
		var wg sync.WaitGroup
		wg.Add(2)
		start := make(chan struct{})
		go func() {
			defer wg.Done()
			<-start
			mem.CleanupExpired()
		}()
		var werr error
		go func() {
			defer wg.Done()
			<-start
			for _, k := range names {
				if err := h.Set(k, "new", time.Hour); err != nil {
					werr = err
					return
				}
			}
		}()
		close(start)
		wg.Wait()
		if werr != nil {
			return "C14/harness/sweep-race", werr.Error()
		}
		for _, k := range names {
			v, err := h.Get(k)
			if err != nil || fmt.Sprint(v) != "new" {
				return "C14/cache-tier/acknowledged-write-removed-by-expiry-sweep",
					fmt.Sprintf("key %s had expired (ttl 1 ms, 3 ms ago) and was written again with ttl 1h (Set returned nil) while the expiry sweep was running; afterwards Get returns %v (err %v)", k, v, err)
			}
		}
		mem.CleanupExpired()
	}
	return "", ""
}

func TestCacheTierSweepRace(t *testing.T) {
	rounds := vkit.Pick(40, 400)
	c := SweepCase{SweepRace: true, Keys: 400, Rounds: rounds}
	if key, detail := runSweepRace(c); key != "" {
		vkit.Violation(t, key, detail, c)
		return
	}
	vkit.Case("cache-sweep-race", true, fmt.Sprint(vkit.Shard()))
	vkit.AddExtra("sweep_race_rounds", int64(rounds))
}

// ---------------------------------------------------------------------------
// TestTwoNodeWriteThrough — two nodes, each with its own node-local cache, over ONE persistent tier (the
// remote-storage deployment without Redis). A node's cache is not authoritative: whatever it holds, a
// write that has returned must have reached the persistent tier with exactly the written value, and a
// read on a node whose cache entry is gone must see the last write of either node.

type TNCase struct {
	TwoNode bool     `json:"two_node_write_through"`
	Key     string   `json:"tn_key"`
	Steps   []TNStep `json:"tn_steps"`
}

type TNStep struct {
	Op   string `json:"op"` // set | delete | evict | get
	Node int    `json:"node"`
	Val  string `json:"val,omitempty"`
	TTL  int    `json:"ttl_s,omitempty"`
}

func runTwoNode(c TNCase) (key, detail string) {
	pers := vkit.NewGatePersistent(nil, "pers")
	var caches [2]*memory.Storage
	var hs [2]*hybrid.Storage
	for i := range hs {
		caches[i] = memory.New(context.Background())
		cfg := hybrid.DefaultConfig()
		cfg.EnablePersistent = true
		hs[i] = hybrid.NewWithSharedCache(context.Background(), caches[i], nil, pers, cfg)
		defer hs[i].Close()
	}
	last, present := "", false
	for i, st := range c.Steps {
		n := st.Node % 2
		switch st.Op {
		case "set":
			if err := hs[n].Set(c.Key, st.Val, time.Duration(st.TTL)*time.Second); err != nil {
				return "C14/harness/two-node", fmt.Sprintf("step %d: Set: %v", i, err)
			}
			last, present = st.Val, true
			v, ok := pers.RawGet(c.Key)
			if !ok || fmt.Sprint(v) != st.Val {
				return "C14/two-node/acknowledged-write-not-in-persistent-tier",
					fmt.Sprintf("step %d: node %d wrote %q to %s (Set returned nil); the persistent tier holds %v (present=%v); history: %+v", i, n, st.Val, c.Key, v, ok, c.Steps[:i+1])
			}
		case "delete":
			if err := hs[n].Delete(c.Key); err != nil {
				return "C14/harness/two-node", fmt.Sprintf("step %d: Delete: %v", i, err)
			}
			last, present = "", false
			if v, ok := pers.RawGet(c.Key); ok {
				return "C14/two-node/acknowledged-delete-not-in-persistent-tier",
					fmt.Sprintf("step %d: node %d deleted %s (Delete returned nil); the persistent tier still holds %v; history: %+v", i, n, c.Key, v, c.Steps[:i+1])
			}
		case "evict":
			caches[n].Delete(c.Key)
		case "get":
			// only a node without a cached copy is judged (a cached copy of another node's earlier write is the
			// documented price of node-local caches)
			if ok, _ := caches[n].Exists(c.Key); ok {
				continue
			}
			v, err := hs[n].Get(c.Key)
			got := "<notfound>"
			if err == nil {
				got = fmt.Sprint(v)
			}
			want := "<notfound>"
			if present {
				want = last
			}
			if got != want {
				return "C14/two-node/read-without-cached-copy-returns-older-value",
					fmt.Sprintf("step %d: node %d (no cached copy) read %s = %s, the last acknowledged write is %s; history: %+v", i, n, c.Key, got, want, c.Steps[:i+1])
			}
			time.Sleep(200 * time.Microsecond) // the read's own asynchronous write-back settles
		}
	}
	return "", ""
}

func TestTwoNodeWriteThrough(t *testing.T) {
	keys := []string{"tunnox:user:k7", "tunnox:persist:mapping:k7", "tunnox:port_mapping:k7", "tunnox:client_mappings:k7", "tunnox:persist:client:config:k7"}
	vkit.Check(t, 1500, 40000, func(t *rapid.T) {
		c := TNCase{TwoNode: true, Key: rapid.SampledFrom(keys).Draw(t, "key")}
		rewrites := false
		for n := rapid.IntRange(3, 10).Draw(t, "n"); n > 0; n-- {
			st := TNStep{Op: rapid.SampledFrom([]string{"set", "set", "set", "set", "delete", "evict", "get", "get"}).Draw(t, "op"),
				Node: rapid.IntRange(0, 1).Draw(t, "node"), Val: rapid.SampledFrom([]string{"a", "b"}).Draw(t, "val")}
			c.Steps = append(c.Steps, st)
		}
		// a node writes again the value it wrote before, after the other node wrote something else
		seen := map[string]bool{}
		for _, s := range c.Steps {
			if s.Op == "set" {
				k := fmt.Sprint(s.Node, s.Val)
				if seen[k] {
					rewrites = true
				}
				seen[k] = true
			}
		}
		key, detail := runTwoNode(c)
		if key != "" {
			vkit.Violation(t, key, detail, c)
			return
		}
		vkit.Case("two-node-write-through", rewrites, fmt.Sprint(c))
	})
	// directed: A writes a, B writes b, A writes a again, both caches lose the key, both read
	c := TNCase{TwoNode: true, Key: "tunnox:user:k7", Steps: []TNStep{{Op: "set", Node: 0, Val: "a"}, {Op: "set", Node: 1, Val: "b"}, {Op: "set", Node: 0, Val: "a"},
		{Op: "evict", Node: 0}, {Op: "evict", Node: 1}, {Op: "get", Node: 1}, {Op: "get", Node: 0}}}
	if key, detail := runTwoNode(c); key != "" {
		vkit.Violation(t, key, detail, c)
	}
}
