package c14

import (
	"context"
	"fmt"
	"os"
	"path/filepath"
	"sort"
	"strings"
	"testing"

	"github.com/alicebob/miniredis/v2"

	"tunnox-core/internal/core/storage"
	"tunnox-core/internal/core/storage/hybrid"
	"tunnox-core/verif/vkit"
)

// ---------------------------------------------------------------------------
// TestFactoryMatrix — "a key is always read from the tier class it was written to, so shared
// cross-node keys are visible to every node and runtime-only keys never reach persistence", for
// the facade as the server really assembles it: storage.StorageFactory.CreateStorage over every
// combination of {memory | redis local cache} x {no | separate shared Redis} x {persistence off |
// JSON file}. Two nodes are built from the same configuration (same Redis servers, own JSON files).
// Black-box oracle: what node 2 can read, what is in the Redis servers, what is in the persistent tier.

type FCase struct {
	Factory    bool   `json:"factory"`
	CacheType  string `json:"cache_type"`
	SharedTier bool   `json:"separate_shared_redis"`
	Persistent bool   `json:"persistent_json"`
}

func runFactory(t vkit.TB, c FCase) *failure {
	ctx, cancel := context.WithCancel(context.Background())
	defer cancel()
	var minis []*miniredis.Miniredis
	newMini := func() *miniredis.Miniredis {
		m := miniredis.NewMiniRedis()
		if err := m.Start(); err != nil {
			t.Fatalf("HARNESS-ERROR miniredis: %v", err)
		}
		minis = append(minis, m)
		return m
	}
	defer func() {
		for _, m := range minis {
			m.Close()
		}
	}()
	dir, err := os.MkdirTemp("", "c14factory")
	if err != nil {
		t.Fatalf("HARNESS-ERROR tempdir: %v", err)
	}
	defer os.RemoveAll(dir)
	var local, shared *miniredis.Miniredis
	if c.CacheType == "redis" {
		local = newMini()
	}
	if c.SharedTier {
		shared = newMini()
	}
	mk := func(node int) *hybrid.Storage {
		hc := &storage.HybridStorageConfig{CacheType: c.CacheType, EnablePersistent: c.Persistent}
		if local != nil {
			hc.RedisConfig = &storage.RedisConfig{Addr: local.Addr()}
		}
		if shared != nil {
			hc.SharedCacheConfig = &storage.RedisConfig{Addr: shared.Addr()}
		}
		if c.Persistent {
			hc.JSONConfig = &storage.JSONStorageConfig{FilePath: filepath.Join(dir, fmt.Sprintf("node%d.json", node)), AutoSave: false}
		}
		st, err := storage.NewStorageFactory(ctx).CreateStorage(hc)
		if err != nil {
			t.Fatalf("HARNESS-ERROR factory: %v", err)
		}
		h, ok := st.(*hybrid.Storage)
		if !ok {
			t.Fatalf("HARNESS-ERROR factory returned %T", st)
		}
		return h
	}
	n1, n2 := mk(1), mk(2)
	defer n1.Close()
	defer n2.Close()
	crossNodeTier := c.CacheType == "redis" || c.SharedTier
	fail := func(sym, cat, detail string) *failure {
		return &failure{"C14/factory/" + sym + "/category=" + cat, fmt.Sprintf("configuration cache=%s separate-shared-redis=%v persistent=%v: %s", c.CacheType, c.SharedTier, c.Persistent, detail)}
	}
	inRedis := func(key string) bool {
		for _, m := range minis {
			for _, k := range m.Keys() {
				if k == key {
					return true
				}
			}
		}
		return false
	}
	keys := allModelKeys()
	sort.Strings(keys)
	for _, key := range keys {
		cat := refCategory(modelCfg, key)
		lkey := key
		// scalar
		if err := n1.Set(key, "v-"+key, 0); err != nil {
			return fail("set-failed", cat, key+": "+err.Error())
		}
		if v, err := n1.Get(key); valStr(v, err) != "v-"+key {
			return fail("own-write-not-readable", cat, fmt.Sprintf("%s: node 1 reads %s", key, valStr(v, err)))
		}
		v2, err2 := n2.Get(key)
		switch cat {
		case "shared", "shared+persistent":
			if crossNodeTier && valStr(v2, err2) != "v-"+key {
				return fail("shared-key-not-visible-on-other-node", cat, fmt.Sprintf("%s written on node 1, node 2 reads %s", key, valStr(v2, err2)))
			}
		case "runtime":
			if c.CacheType == "memory" {
				if valStr(v2, err2) != "<notfound>" {
					return fail("runtime-key-visible-on-other-node", cat, key)
				}
				if inRedis(key) {
					return fail("runtime-key-left-the-node", cat, key+" found in a Redis server")
				}
			}
		}
		if c.Persistent {
			p := n1.GetPersistentStorage()
			ex, err := p.Exists(key)
			if err != nil {
				return fail("persistent-tier-unreadable", cat, err.Error())
			}
			switch cat {
			case "runtime", "shared":
				if ex {
					return fail("runtime-only-key-reached-persistence", cat, key)
				}
			default:
				if !ex {
					return fail("not-written-through-to-persistence", cat, key)
				}
			}
		}
		// cross-node delete and list (only where every tier of the category is common to both nodes)
		if crossNodeTier && (cat == "shared" || (cat == "shared+persistent" && !c.Persistent)) {
			if err := n2.Delete(key); err != nil {
				return fail("delete-failed", cat, err.Error())
			}
			if v, err := n1.Get(key); valStr(v, err) != "<notfound>" {
				return fail("stale-after-delete-on-other-node", cat, fmt.Sprintf("%s deleted on node 2, node 1 still reads %s", key, valStr(v, err)))
			}
			if err := n1.AppendToList(lkey, "a"); err != nil {
				return fail("append-failed", cat, err.Error())
			}
			if err := n2.AppendToList(lkey, "b"); err != nil {
				return fail("append-failed", cat, err.Error())
			}
			l, err := n1.GetList(lkey)
			if err != nil || fmt.Sprint(l) != "[a b]" {
				return fail("lost-list-update-across-nodes", cat, fmt.Sprintf("%s: node 1 appended a, node 2 appended b, node 1 reads %v (%v)", key, l, err))
			}
			n1.Delete(lkey)
		}
		vkit.Case("factory/"+cat, true, fmt.Sprint(c, key))
	}
	return nil
}

func TestFactoryMatrix(t *testing.T) {
	idx := 0
	for _, ct := range []string{"memory", "redis"} {
		for _, sh := range []bool{false, true} {
			for _, pe := range []bool{false, true} {
				idx++
				if !vkit.Mine(idx) {
					continue
				}
				c := FCase{Factory: true, CacheType: ct, SharedTier: sh, Persistent: pe}
				if f := runFactory(t, c); f != nil {
					vkit.Violation(t, f.key, f.detail, c)
				}
			}
		}
	}
	vkit.Exhaustive("factory-configuration-matrix", true)
}

type failure struct{ key, detail string }

var _ = strings.TrimSpace
