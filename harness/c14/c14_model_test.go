package c14

import (
	"context"
	"errors"
	"fmt"
	"os"
	"path/filepath"
	"strings"
	"testing"
	"time"

	"pgregory.net/rapid"

	"tunnox-core/internal/core/storage/hybrid"
	jsonstorage "tunnox-core/internal/core/storage/json"
	stypes "tunnox-core/internal/core/storage/types"
	"tunnox-core/verif/vkit"
)

// ---------------------------------------------------------------------------
// TestModel — sequential histories against a reference map.
//
// One caller at a time issues Set/Get/Delete/Exists/SetList/GetList/AppendToList/RemoveFromList
// through the facade (on node 1, or on node 2 for the cross-node categories when a shared cache is
// configured), interleaved with the two things that make the tiers matter: "evict" (the cache tier
// drops the key, as its TTL does) and "restart" (fresh facade instances with empty node-local
// caches over the same shared cache and persistent tier). Every operation runs to quiescence under
// the gate (the detached write-back of a Get included, released before the caller's next tier
// operation), at most one tier operation of the whole history fails. Oracles: every result agrees
// with the model; after each successful write the value sits in exactly the tiers of the key's
// category. Keys are drawn from EVERY configured prefix, as "prefix+suffix" and as the bare prefix
// (several configured prefixes are complete keys: tunnox:mappings:list, tunnox:persist:clients:list,
// tunnox:http_domain:next_id ...). The reference category is computed here, from the configured
// prefix lists, with the precedence documented in hybrid.getCategory.

type MKey struct {
	Key    string `json:"key"`
	IsList bool   `json:"is_list"`
}

type MStep struct {
	Op   string `json:"op"`
	Slot int    `json:"slot"`
	Val  string `json:"val,omitempty"`
	Node int    `json:"node,omitempty"`
	TTL  int    `json:"ttl_s,omitempty"` // lifetime given to set / setlist, seconds (0 = none); never reached within a case
}

type MCase struct {
	Model  bool    `json:"model"`
	Shared bool    `json:"shared_cache"`
	Keys   []MKey  `json:"keys"`
	Steps  []MStep `json:"steps"`
	FailAt int     `json:"fail_at"`
	// Remote: the persistent tier is the real gRPC client (remote.Storage) talking to an in-process
	// StorageService; RemoteFaults are injected by that service (no gate faults then).
	// JSONTier: the persistent tier is the real JSON-file store (stand-alone deployment); a restart flushes it,
	// closes it and loads the file again
	JSONTier     bool     `json:"json_tier,omitempty"`
	Remote       bool     `json:"remote_tier,omitempty"`
	RemoteFaults []RFault `json:"remote_faults,omitempty"`
}

var modelCfg = hybrid.DefaultConfig()

func refCategory(cfg *hybrid.Config, key string) string {
	has := func(l []string) bool {
		for _, p := range l {
			if strings.HasPrefix(key, p) {
				return true
			}
		}
		return false
	}
	switch {
	case has(cfg.SharedPersistentPrefixes):
		return "shared+persistent"
	case has(cfg.SharedPrefixes):
		return "shared"
	case has(cfg.PersistentPrefixes):
		return "persistent"
	}
	return "runtime"
}

// allModelKeys: every configured prefix (and the documented runtime ones) bare and with a suffix.
func allModelKeys() []string {
	cfg := hybrid.DefaultConfig()
	var out []string
	seen := map[string]bool{}
	add := func(k string) {
		if !seen[k] {
			seen[k] = true
			out = append(out, k)
		}
	}
	for _, l := range [][]string{cfg.PersistentPrefixes, cfg.SharedPrefixes, cfg.SharedPersistentPrefixes, hybrid.RuntimePrefixes} {
		for _, p := range l {
			add(p)
			add(p + "k7")
		}
	}
	add("other:unlisted:key")
	return out
}

type mworld struct {
	g             *vkit.Gate
	cache, cache2 *vkit.GateCache
	shared        *vkit.GateCache
	pers          stypes.PersistentStorage
	rawGet        func(string) (any, bool)
	extFault      func() string // kind of the fault the persistent tier has injected so far ("" = none)
	closers       []func()
	reopenPers    func() error // restart of the persistent tier (JSON: flush, close, load the file again)
	h, h2         *hybrid.Storage
	sharedOn      bool
}

func (w *mworld) mk(cache *vkit.GateCache) *hybrid.Storage {
	cfg := hybrid.DefaultConfig()
	cfg.EnablePersistent = true
	var sh stypes.CacheStorage
	if w.sharedOn {
		sh = w.shared
	}
	return hybrid.NewWithSharedCache(context.Background(), cache, sh, w.pers, cfg)
}

func newMWorld(shared bool, c MCase) (*mworld, string) {
	w := &mworld{g: vkit.NewGate(), sharedOn: shared, extFault: func() string { return "" }}
	w.g.Grace = 1500 * time.Microsecond
	if c.Remote {
		svc, rs, why := newRemoteTier(c.RemoteFaults)
		if why != "" {
			return nil, why
		}
		w.pers, w.rawGet, w.extFault = rs, svc.rawGet, svc.faultKind
		w.closers = append(w.closers, func() { rs.Close(); svc.stop() })
	} else if c.JSONTier {
		dir, err := os.MkdirTemp("", "c14json")
		if err != nil {
			return nil, err.Error()
		}
		path := filepath.Join(dir, "data.json")
		open := func() error {
			js, err := jsonstorage.New(&jsonstorage.Config{FilePath: path, AutoSave: false})
			if err != nil {
				return err
			}
			w.pers = js
			w.rawGet = func(k string) (any, bool) { v, err := js.Get(k); return v, err == nil }
			return nil
		}
		if err := open(); err != nil {
			return nil, err.Error()
		}
		w.reopenPers = func() error {
			js := w.pers.(*jsonstorage.Storage)
			if err := js.Flush(); err != nil {
				return err
			}
			js.Close()
			return open()
		}
		w.closers = append(w.closers, func() { w.pers.(*jsonstorage.Storage).Close(); os.RemoveAll(dir) })
	} else {
		gp := vkit.NewGatePersistent(w.g, "pers")
		w.pers, w.rawGet = gp, gp.RawGet
	}
	if shared {
		w.shared = vkit.NewGateCache(w.g, "shared")
	}
	w.restart()
	return w, ""
}

func (w *mworld) restart() {
	if w.h != nil && w.reopenPers != nil {
		if err := w.reopenPers(); err != nil {
			panic("HARNESS-ERROR json tier restart: " + err.Error())
		}
	}
	if w.h != nil {
		w.h.Close()
		w.h2.Close()
		w.cache.Raw().Close()
		w.cache2.Raw().Close()
	}
	w.cache = vkit.NewGateCache(w.g, "cache")
	w.cache2 = vkit.NewGateCache(w.g, "cache2")
	w.h = w.mk(w.cache)
	w.h2 = w.mk(w.cache2)
}

func (w *mworld) close() {
	w.g.Deactivate()
	w.h.Close()
	w.h2.Close()
	w.cache.Raw().Close()
	w.cache2.Raw().Close()
	if w.shared != nil {
		w.shared.Raw().Close()
	}
	for _, f := range w.closers {
		f()
	}
}

type mval struct {
	present bool
	unknown bool // an operation on the key failed part-way: not asserted until the next full overwrite / delete ...
	// ... except that reads must not go backwards: oldStr is what the key read before the failed
	// operation, sawNew is set once a read has returned something else (the attempted value or what a
	// part-applied operation left). After that, reading oldStr again is an older value brought back.
	oldStr string
	newStr string // what the failed operation was writing (a third value is never legitimate)
	sawNew bool
	s      string
	l      []string
}

func (m *mval) fail(isList bool, attempted mval) {
	if !m.unknown {
		m.oldStr = m.str(isList)
		m.newStr = attempted.str(isList)
		m.sawNew = false
	} else {
		m.oldStr = "\x00no-longer-comparable" // a second failed operation: more than two outcomes are possible
	}
	m.unknown = true
}

func (v mval) str(isList bool) string {
	if !v.present {
		return "<notfound>"
	}
	if isList {
		return fmt.Sprint(v.l)
	}
	return v.s
}

type mresult struct {
	key, detail string
	faulted     bool
	evicted     bool
	restarted   bool
	dupRemove   bool
	bareKey     bool
	steps       int
}

func runModel(c MCase) mresult {
	var r mresult
	cfg := hybrid.DefaultConfig()
	w, why := newMWorld(c.Shared, c)
	if w == nil {
		r.key, r.detail = "C14/harness/remote-tier-not-established", why
		return r
	}
	defer w.close()
	w.g.FailAt = c.FailAt
	w.g.Activate()
	last := func(n int, _ []string) int { return n - 1 } // detached write-backs first
	model := make([]mval, len(c.Keys))
	cats := make([]string, len(c.Keys))
	for i, k := range c.Keys {
		cats[i] = refCategory(cfg, k.Key)
	}
	var full []vkit.Step
	for si, st := range c.Steps {
		if st.Slot < 0 || st.Slot >= len(c.Keys) {
			continue
		}
		mk := c.Keys[st.Slot]
		key, isList, cat := mk.Key, mk.IsList, cats[st.Slot]
		crossNode := c.Shared && (cat == "shared" || cat == "shared+persistent")
		h := w.h
		if st.Node == 1 && crossNode {
			h = w.h2
		}
		backed := cat == "persistent" || cat == "shared+persistent"
		m := &model[st.Slot]
		// ---- harness-side actions (not facade calls)
		switch st.Op {
		case "evict":
			if !backed {
				continue
			}
			// the cache tier that holds this category drops the entry (TTL expiry)
			if cat == "shared+persistent" && c.Shared {
				w.shared.Raw().Delete(key)
			} else {
				w.cache.Raw().Delete(key)
			}
			r.evicted = true
			continue
		case "restart":
			w.restart()
			r.restarted = true
			for i := range model {
				switch cats[i] {
				case "runtime":
					model[i] = mval{}
				case "shared":
					if !c.Shared {
						model[i] = mval{}
					}
				case "persistent", "shared+persistent":
					// a part-written key keeps being unknown
				}
			}
			continue
		}
		// ---- one facade call, run to quiescence
		var got string
		var err error
		op := st.Op
		if isList {
			switch op {
			case "set":
				op = "setlist"
			case "get":
				op = "getlist"
			}
		} else if op == "append" || op == "remove" {
			op = "set"
		}
		var call func()
		switch op {
		case "set":
			call = func() { err = h.Set(key, st.Val, time.Duration(st.TTL)*time.Second) }
		case "get":
			call = func() { v, e := h.Get(key); got, err = valStr(v, e), e }
		case "delete":
			call = func() { err = h.Delete(key) }
		case "exists":
			call = func() { v, e := h.Exists(key); got, err = fmt.Sprint(v), e }
		case "setlist":
			call = func() { err = h.SetList(key, []any{st.Val, "z"}, time.Duration(st.TTL)*time.Second) }
		case "getlist":
			call = func() {
				v, e := h.GetList(key)
				err = e
				if e != nil {
					got = valStr(nil, e)
				} else {
					got = fmt.Sprint(v)
				}
			}
		case "append":
			call = func() { err = h.AppendToList(key, st.Val) }
		case "remove":
			call = func() { err = h.RemoveFromList(key, st.Val) }
		default:
			continue
		}
		before := len(full)
		w.g.Go(fmt.Sprintf("T%d", si), call)
		full = w.g.Run(last)
		if w.g.Aborted {
			r.key, r.detail = "C14/harness/schedule-aborted", vkit.StepsString(full)
			return r
		}
		r.steps++
		if key == strings.TrimSuffix(key, "k7") && key != "other:unlisted:key" {
			r.bareKey = true
		}
		// ---- root-cause shape from the history so far
		shape := "model"
		faultStep := ""
		// late write-back: the last cache-tier write of THIS key was made by a detached write-back goroutine
		// (it was adopted late and landed after the caller's own write): the listed async-writeback finding
		lateWB := false
		for _, s := range full {
			isWrite := strings.HasSuffix(s.Op, ".Set") || strings.HasSuffix(s.Op, ".Delete")
			if s.Failed {
				r.faulted = true
				faultStep = s.Op
			}
			if s.Key == key && isWrite && !strings.HasPrefix(s.Op, "pers.") {
				lateWB = strings.HasPrefix(s.Task, "bg")
			}
		}
		_ = before
		switch {
		case faultStep != "" && !strings.HasPrefix(faultStep, "pers.") && strings.HasSuffix(faultStep, ".Delete"):
			shape = "cache-delete-failure-swallowed"
		case faultStep != "" && !strings.HasPrefix(faultStep, "pers.") && strings.HasSuffix(faultStep, ".Set"):
			shape = "cache-set-failure-swallowed"
		case faultStep != "" && !strings.HasPrefix(faultStep, "pers."):
			shape = "tier-read-error-as-miss"
		case faultStep != "":
			shape = "persistent-fault-swallowed/" + strings.TrimPrefix(faultStep, "pers.")
		case w.extFault() != "":
			shape = "remote-tier-fault/" + w.extFault()
			r.faulted = true
		case lateWB:
			shape = "async-writeback"
		}
		fail := func(symptom, detail string) {
			r.key = "C14/" + shape + "/sequential/" + symptom + "/category=" + cat
			r.detail = fmt.Sprintf("step %d %s(%s %q) on node %d: %s; tier operations: %s", si, op, key, st.Val, st.Node, detail, vkit.StepsString(full))
		}
		realErr := err != nil && !errors.Is(err, stypes.ErrKeyNotFound)
		// ---- model transition + result oracle
		switch op {
		case "set", "setlist":
			if realErr {
				m.fail(isList, mval{present: true, s: st.Val, l: []string{st.Val, "z"}})
				break
			}
			if err != nil {
				fail("write-reports-not-found", err.Error())
				return r
			}
			*m = mval{present: true, s: st.Val, l: []string{st.Val, "z"}}
		case "delete":
			if realErr {
				m.fail(isList, mval{})
				break
			}
			*m = mval{}
		case "append":
			if realErr {
				m.fail(isList, mval{present: true, l: append(append([]string{}, m.l...), st.Val)})
				break
			}
			if err != nil {
				fail("append-reports-not-found", err.Error())
				return r
			}
			if !m.unknown {
				m.present = true
				m.l = append(append([]string{}, m.l...), st.Val)
			} else {
				m.oldStr = "\x00no-longer-comparable" // a later successful mutation: the pre-failure value may legitimately reappear
			}
		case "remove":
			if realErr {
				var nl []string
				for _, x := range m.l {
					if x != st.Val {
						nl = append(nl, x)
					}
				}
				m.fail(isList, mval{present: m.present, l: nl})
				break
			}
			if m.unknown {
				m.oldStr = "\x00no-longer-comparable"
				break
			}
			if !m.present {
				if err == nil {
					// removing from an absent list may succeed or report not-found; it must not create members
					break
				}
				break
			}
			if err != nil {
				fail("remove-reports-not-found-for-stored-list", err.Error())
				return r
			}
			n := 0
			var nl []string
			for _, x := range m.l {
				if x == st.Val {
					n++
				} else {
					nl = append(nl, x)
				}
			}
			if n > 1 {
				r.dupRemove = true
			}
			m.l = nl
		case "get", "getlist":
			if realErr {
				break
			}
			if m.unknown {
				// only whole-value writes (set / setlist / delete) leave a two-point outcome space
				if !strings.HasPrefix(m.oldStr, "\x00") && got != m.oldStr && got != m.newStr {
					fail("third-value-after-failed-write", fmt.Sprintf("the failed operation was turning %s into %s; a read now returns %s", m.oldStr, m.newStr, got))
					return r
				}
				if got != m.oldStr {
					m.sawNew = true
				} else if m.sawNew {
					fail("read-went-backwards-after-failed-write", fmt.Sprintf("after the failed operation a read returned a different value, now %s is back (the value from before the operation)", got))
					return r
				}
				break
			}
			if want := m.str(isList); got != want {
				sym := "stale-or-lost-value"
				if !m.present {
					sym = "deleted-value-resurrected"
				} else if got == "<notfound>" {
					sym = "stored-value-not-found"
				} else if isList {
					sym = "list-members-differ"
				}
				fail(sym, fmt.Sprintf("read %s, the last completed writes leave %s", got, want))
				return r
			}
		case "exists":
			if realErr || m.unknown {
				break
			}
			if want := fmt.Sprint(m.present); got != want {
				fail("exists-disagrees", fmt.Sprintf("Exists = %s, the last completed writes leave present=%s", got, want))
				return r
			}
		}
		// ---- tier-class oracle after a successful write
		if (op == "set" || op == "setlist" || op == "append") && err == nil && !m.unknown && faultStep == "" && w.extFault() == "" {
			_, inPers := w.rawGet(key)
			inShared := false
			if w.shared != nil {
				if ok, _ := w.shared.Raw().Exists(key); ok {
					inShared = true
				}
			}
			switch cat {
			case "runtime":
				if inPers || inShared {
					fail("runtime-key-left-the-node", fmt.Sprintf("persistent=%v shared=%v", inPers, inShared))
					return r
				}
			case "shared":
				if inPers {
					fail("shared-runtime-key-reached-persistence", "")
					return r
				}
				if c.Shared && !inShared {
					fail("shared-key-not-in-shared-cache", "")
					return r
				}
			case "persistent":
				if !inPers {
					fail("not-written-through-to-persistence", "")
					return r
				}
				if inShared {
					fail("node-local-key-in-shared-cache", "")
					return r
				}
			case "shared+persistent":
				if !inPers {
					fail("not-written-through-to-persistence", "")
					return r
				}
				if c.Shared && !inShared {
					fail("shared-key-not-in-shared-cache", "")
					return r
				}
			}
		}
	}
	return r
}

var mOps = []string{"set", "get", "delete", "exists", "append", "remove", "get", "append", "evict", "restart", "get"}

func genModelCase(t *rapid.T) MCase {
	keys := allModelKeys()
	c := MCase{Model: true, Shared: rapid.Bool().Draw(t, "shared"), FailAt: -1}
	nk := rapid.IntRange(1, 3).Draw(t, "nkeys")
	for i := 0; i < nk; i++ {
		c.Keys = append(c.Keys, MKey{Key: rapid.SampledFrom(keys).Draw(t, "key"), IsList: rapid.Bool().Draw(t, "list")})
	}
	// distinct keys only (the same key as scalar and list would mix types)
	seen := map[string]bool{}
	var ks []MKey
	for _, k := range c.Keys {
		if !seen[k.Key] {
			seen[k.Key] = true
			ks = append(ks, k)
		}
	}
	c.Keys = ks
	n := rapid.IntRange(2, 14).Draw(t, "nsteps")
	for i := 0; i < n; i++ {
		c.Steps = append(c.Steps, MStep{
			Op:   rapid.SampledFrom(mOps).Draw(t, "op"),
			Slot: rapid.IntRange(0, len(c.Keys)-1).Draw(t, "slot"),
			Val:  rapid.SampledFrom([]string{"a", "b", "c"}).Draw(t, "val"),
			Node: rapid.IntRange(0, 1).Draw(t, "node"),
			TTL:  rapid.SampledFrom([]int{0, 0, 0, 20, 59, 60, 600, 7200}).Draw(t, "ttl"),
		})
	}
	if rapid.IntRange(0, 2).Draw(t, "faulty") == 0 {
		c.FailAt = rapid.IntRange(0, 30).Draw(t, "failAt")
	}
	return c
}

func reportModel(t vkit.TB, c MCase, r mresult) {
	if r.key != "" {
		vkit.Violation(t, r.key, r.detail, c)
		vkit.Case("known:model", true, fmt.Sprint(c))
		return
	}
	nontrivial := r.evicted || r.restarted || r.faulted || r.dupRemove
	vkit.Case("model", nontrivial, fmt.Sprint(c))
	for name, on := range map[string]bool{"feat:model-evict": r.evicted, "feat:model-restart": r.restarted, "feat:model-single-tier-fault": r.faulted, "feat:model-remove-duplicated-member": r.dupRemove, "feat:model-key-equals-prefix": r.bareKey} {
		if on {
			vkit.Class(name)
		}
	}
}

func TestModel(t *testing.T) {
	vkit.Check(t, 2400, 60000, func(t *rapid.T) {
		c := genModelCase(t)
		reportModel(t, c, runModel(c))
	})
}

// TestModelEveryKey: for every key of the table (both list and scalar), the fixed history
// write / evict / read / restart / read / append-twice / remove / delete / read.
func TestModelEveryKey(t *testing.T) {
	keys := allModelKeys()
	idx := 0
	for _, shared := range []bool{false, true} {
		for _, k := range keys {
			for _, isList := range []bool{false, true} {
				idx++
				if !vkit.Mine(idx) {
					continue
				}
				c := MCase{Model: true, Shared: shared, FailAt: -1, Keys: []MKey{{Key: k, IsList: isList}}}
				for _, s := range []MStep{{Op: "set", Val: "a"}, {Op: "evict"}, {Op: "get", Node: 1}, {Op: "restart"}, {Op: "exists"}, {Op: "get"},
					{Op: "append", Val: "b"}, {Op: "append", Val: "b", Node: 1}, {Op: "get"}, {Op: "remove", Val: "b"}, {Op: "get", Node: 1}, {Op: "evict"}, {Op: "get"},
					{Op: "delete"}, {Op: "get"}, {Op: "restart"}, {Op: "exists", Node: 1}, {Op: "get"}} {
					c.Steps = append(c.Steps, s)
				}
				reportModel(t, c, runModel(c))
			}
		}
	}
	vkit.Exhaustive("model-fixed-history-over-every-configured-prefix", true)
}

// TestModelFaultSweep: fixed histories with the single tier fault placed at every tier operation in
// turn (exhaustive over the fault position), for the persistent-backed categories, with and without a
// shared cache, scalar and list. The histories read, evict and read again after every write, so that a
// value left behind in one tier by a failed operation shows up as a read that goes backwards.
func TestModelFaultSweep(t *testing.T) {
	idx := 0
	scalar := []MStep{{Op: "set", Val: "a"}, {Op: "set", Val: "b"}, {Op: "get"}, {Op: "evict"}, {Op: "get", Node: 1}, {Op: "delete"}, {Op: "get"}, {Op: "evict"}, {Op: "get"}, {Op: "exists", Node: 1}}
	list := []MStep{{Op: "set", Val: "a"}, {Op: "append", Val: "b"}, {Op: "get"}, {Op: "evict"}, {Op: "get", Node: 1}, {Op: "remove", Val: "a"}, {Op: "get"}, {Op: "evict"}, {Op: "get"}, {Op: "append", Val: "c", Node: 1}, {Op: "get"}, {Op: "remove", Val: "b"}, {Op: "get"}, {Op: "evict"}, {Op: "get"}}
	for _, key := range []string{"tunnox:user:k7", "tunnox:port_mapping:k7", "tunnox:mappings:list"} {
		for _, shared := range []bool{false, true} {
			for _, isList := range []bool{false, true} {
				hist := scalar
				if isList {
					hist = list
				}
				space := fmt.Sprintf("model-fault-sweep/%s/shared=%v/list=%v", key, shared, isList)
				for at := 0; at < 64; at++ {
					idx++
					if !vkit.Mine(idx) {
						continue
					}
					c := MCase{Model: true, Shared: shared, FailAt: at, Keys: []MKey{{Key: key, IsList: isList}}, Steps: hist}
					reportModel(t, c, runModel(c))
				}
				vkit.Exhaustive(space, true)
			}
		}
	}
}

// ---------------------------------------------------------------------------
// TestSlowPersistentRead — a persistent-tier read that has already fetched its value but whose answer
// is still on its way (a slow remote call) while another caller deletes / overwrites the key and
// then reads it. The second caller's read started after its own write returned: it must see that write
// (or wait for nothing but its own tiers), never the value the in-flight read is carrying.

type slowPers struct {
	*vkit.GatePersistent
	hold    chan struct{} // Get answers are held back until this is closed
	reading chan struct{} // signalled when a held Get has fetched its value
	armed   bool
}

func (p *slowPers) Get(key string) (any, error) {
	v, err := p.GatePersistent.Get(key)
	if p.armed {
		p.armed = false
		p.reading <- struct{}{}
		<-p.hold
	}
	return v, err
}

type SlowCase struct {
	SlowRead bool   `json:"slow_persistent_read"`
	Key      string `json:"key"`
	Shared   bool   `json:"shared_cache"`
	Write    string `json:"write"` // delete | set
}

func runSlow(c SlowCase) (key, detail string) {
	sp := &slowPers{GatePersistent: vkit.NewGatePersistent(nil, "pers"), hold: make(chan struct{}), reading: make(chan struct{}, 1)}
	cache := vkit.NewGateCache(nil, "cache")
	defer cache.Raw().Close()
	var sh stypes.CacheStorage
	if c.Shared {
		g := vkit.NewGateCache(nil, "shared")
		defer g.Raw().Close()
		sh = g
	}
	cfg := hybrid.DefaultConfig()
	cfg.EnablePersistent = true
	h := hybrid.NewWithSharedCache(context.Background(), cache, sh, sp, cfg)
	defer h.Close()
	sp.GatePersistent.Set(c.Key, "v-old") // only the persistent tier holds the key (cold caches)
	sp.armed = true
	got1 := make(chan string, 1)
	go func() { v, err := h.Get(c.Key); got1 <- valStr(v, err) }()
	select {
	case <-sp.reading:
	case <-time.After(5 * time.Second):
		close(sp.hold)
		return "C14/harness/slow-read-not-reached", "the first Get never reached the persistent tier"
	}
	want := "<notfound>"
	if c.Write == "delete" {
		if err := h.Delete(c.Key); err != nil {
			close(sp.hold)
			return "C14/harness/write-failed", err.Error()
		}
	} else {
		want = "v-new"
		if err := h.Set(c.Key, "v-new", 0); err != nil {
			close(sp.hold)
			return "C14/harness/write-failed", err.Error()
		}
	}
	got2 := make(chan string, 1)
	go func() { v, err := h.Get(c.Key); got2 <- valStr(v, err) }()
	var second string
	waited := false
	select {
	case second = <-got2:
	case <-time.After(1500 * time.Millisecond):
		waited = true // the second read is waiting for the first one's answer
	}
	close(sp.hold)
	<-got1
	if waited {
		second = <-got2
	}
	cat := refCategory(modelCfg, c.Key)
	if second != want {
		sym := "stale-after-" + c.Write
		return "C14/read-joined-an-older-in-flight-read/" + sym + "/category=" + cat, fmt.Sprintf("Get#1 had fetched v-old from the persistent tier and its answer was still pending; %s(%s) returned; a Get started after that returned %s (waited for Get#1: %v), want %s", c.Write, c.Key, second, waited, want)
	}
	return "", ""
}

func TestSlowPersistentRead(t *testing.T) {
	idx := 0
	for _, k := range []string{"tunnox:user:k7", "tunnox:port_mapping:k7", "tunnox:mappings:list", "tunnox:persist:clients:list"} {
		for _, shared := range []bool{false, true} {
			for _, wr := range []string{"delete", "set"} {
				idx++
				if !vkit.Mine(idx) {
					continue
				}
				c := SlowCase{SlowRead: true, Key: k, Shared: shared, Write: wr}
				key, detail := runSlow(c)
				if key != "" {
					vkit.Violation(t, key, detail, c)
					continue
				}
				vkit.Case("slow-persistent-read/"+wr, true, fmt.Sprint(c))
			}
		}
	}
	vkit.Exhaustive("slow persistent read x {delete,set} x persistent-backed keys x shared tier", true)
}

// TestModelJSONTier: the same sequential histories over hybrid{memory cache, JSON-file persistent tier}, single node,
// persistent-backed keys, with restarts that flush, close and reload the file (deleting the last key included).
func TestModelJSONTier(t *testing.T) {
	vkit.Check(t, 400, 12000, func(t *rapid.T) {
		c := genModelCase(t)
		c.JSONTier, c.Shared, c.FailAt = true, false, -1
		backed := []string{"tunnox:user:k7", "tunnox:port_mapping:k7", "tunnox:mappings:list", "tunnox:persist:clients:list", "tunnox:client_mappings:k7"}
		nk := rapid.IntRange(1, 2).Draw(t, "jsonKeys")
		c.Keys = nil
		for i := 0; i < nk; i++ {
			c.Keys = append(c.Keys, MKey{Key: backed[(rapid.IntRange(0, len(backed)-1).Draw(t, "jk")+i)%len(backed)], IsList: rapid.Bool().Draw(t, "jl")})
		}
		if len(c.Keys) == 2 && c.Keys[0].Key == c.Keys[1].Key {
			c.Keys = c.Keys[:1]
		}
		for i := range c.Steps {
			c.Steps[i].Slot %= len(c.Keys)
			c.Steps[i].Node = 0
		}
		// make sure restarts and deletes are frequent
		for i := range c.Steps {
			switch rapid.IntRange(0, 5).Draw(t, "bias") {
			case 0:
				c.Steps[i].Op = "restart"
			case 1:
				c.Steps[i].Op = "delete"
			}
		}
		reportModel(t, c, runModel(c))
	})
	// the boundary history: the only key is written, flushed, deleted, flushed, reloaded
	for _, isList := range []bool{false, true} {
		c := MCase{Model: true, JSONTier: true, FailAt: -1, Keys: []MKey{{Key: "tunnox:user:k7", IsList: isList}},
			Steps: []MStep{{Op: "set", Val: "a"}, {Op: "restart"}, {Op: "get"}, {Op: "delete"}, {Op: "restart"}, {Op: "get"}, {Op: "exists"}, {Op: "restart"}, {Op: "get"}}}
		reportModel(t, c, runModel(c))
	}
}
