package c14

import (
	"context"
	"fmt"
	"net"
	"sync"
	"testing"
	"time"

	"google.golang.org/grpc"
	"google.golang.org/grpc/codes"
	"google.golang.org/grpc/status"
	"pgregory.net/rapid"

	storagepb "tunnox-core/api/proto/storage"
	"tunnox-core/internal/core/storage/remote"
	"tunnox-core/verif/vkit"
)

// ---------------------------------------------------------------------------
// The gRPC persistent tier (cluster deployments): remote.Storage, the real client, talking to an
// in-process StorageService that keeps a map and injects faults the way a storage service does:
// a transport-level error (codes.Unavailable) or an error reported inside the response message
// (found=false / success=false plus an error text), once or for a whole retry budget. The model
// histories of TestModel run over hybrid{memory cache, optional shared cache, remote persistent}.

type RFault struct {
	AtCall int    `json:"at_call"` // index of the service call (Get/Set/Delete/Exists) that fails
	Kind   string `json:"kind"`    // grpc-unavailable | in-response-error
	Times  int    `json:"times"`   // consecutive calls that fail (>= the retry budget: the operation fails)
}

type fakeSvc struct {
	storagepb.UnimplementedStorageServiceServer
	mu     sync.Mutex
	m      map[string][]byte
	calls  int
	faults []RFault
	fired  string
	srv    *grpc.Server
	addr   string
}

func (f *fakeSvc) rawGet(key string) (any, bool) {
	f.mu.Lock()
	defer f.mu.Unlock()
	v, ok := f.m[key]
	return string(v), ok
}
func (f *fakeSvc) faultKind() string { f.mu.Lock(); defer f.mu.Unlock(); return f.fired }
func (f *fakeSvc) stop()             { f.srv.Stop() }

// fault decides (under mu) whether this call fails and how.
func (f *fakeSvc) fault() string {
	i := f.calls
	f.calls++
	for _, ft := range f.faults {
		if i >= ft.AtCall && i < ft.AtCall+ft.Times {
			persist := "transient"
			if ft.Times >= 3 {
				persist = "whole-retry-budget"
			}
			f.fired = ft.Kind + "/" + persist
			return ft.Kind
		}
	}
	return ""
}

func (f *fakeSvc) Set(_ context.Context, r *storagepb.SetRequest) (*storagepb.SetResponse, error) {
	f.mu.Lock()
	defer f.mu.Unlock()
	switch f.fault() {
	case "grpc-unavailable":
		return nil, status.Error(codes.Unavailable, "storage service restarting")
	case "in-response-error":
		return &storagepb.SetResponse{Success: false, Error: "backend busy"}, nil
	}
	f.m[r.Key] = append([]byte(nil), r.Value...)
	return &storagepb.SetResponse{Success: true}, nil
}
func (f *fakeSvc) Get(_ context.Context, r *storagepb.GetRequest) (*storagepb.GetResponse, error) {
	f.mu.Lock()
	defer f.mu.Unlock()
	switch f.fault() {
	case "grpc-unavailable":
		return nil, status.Error(codes.Unavailable, "storage service restarting")
	case "in-response-error":
		return &storagepb.GetResponse{Found: false, Error: "backend busy"}, nil
	}
	v, ok := f.m[r.Key]
	return &storagepb.GetResponse{Found: ok, Value: v}, nil
}
func (f *fakeSvc) Delete(_ context.Context, r *storagepb.DeleteRequest) (*storagepb.DeleteResponse, error) {
	f.mu.Lock()
	defer f.mu.Unlock()
	switch f.fault() {
	case "grpc-unavailable":
		return nil, status.Error(codes.Unavailable, "storage service restarting")
	case "in-response-error":
		return &storagepb.DeleteResponse{Success: false, Error: "backend busy"}, nil
	}
	delete(f.m, r.Key)
	return &storagepb.DeleteResponse{Success: true}, nil
}
func (f *fakeSvc) Exists(_ context.Context, r *storagepb.ExistsRequest) (*storagepb.ExistsResponse, error) {
	f.mu.Lock()
	defer f.mu.Unlock()
	switch f.fault() {
	case "grpc-unavailable":
		return nil, status.Error(codes.Unavailable, "storage service restarting")
	case "in-response-error":
		return &storagepb.ExistsResponse{Exists: false, Error: "backend busy"}, nil
	}
	_, ok := f.m[r.Key]
	return &storagepb.ExistsResponse{Exists: ok}, nil
}

func newRemoteTier(faults []RFault) (*fakeSvc, *remote.Storage, string) {
	ln, err := net.Listen("tcp", "127.0.0.1:0")
	if err != nil {
		return nil, nil, "listen: " + err.Error()
	}
	f := &fakeSvc{m: map[string][]byte{}, faults: faults, srv: grpc.NewServer(), addr: ln.Addr().String()}
	storagepb.RegisterStorageServiceServer(f.srv, f)
	go f.srv.Serve(ln)
	rs, err := remote.New(context.Background(), &remote.Config{GRPCAddress: f.addr, Timeout: 5 * time.Second, MaxRetries: 3})
	if err != nil {
		f.srv.Stop()
		return nil, nil, "remote.New: " + err.Error()
	}
	return f, rs, ""
}

func TestModelRemoteTier(t *testing.T) {
	vkit.Check(t, 240, 6000, func(t *rapid.T) {
		c := genModelCase(t)
		c.Remote, c.FailAt = true, -1
		// keep to the persistent-backed categories: the others never reach this tier
		for i := range c.Keys {
			if cat := refCategory(modelCfg, c.Keys[i].Key); cat != "persistent" && cat != "shared+persistent" {
				c.Keys[i].Key = rapid.SampledFrom([]string{"tunnox:user:k7", "tunnox:port_mapping:k7", "tunnox:mappings:list", "tunnox:persist:clients:list", "tunnox:client_mappings:k7"}).Draw(t, "backedKey")
			}
		}
		seen := map[string]bool{}
		var ks []MKey
		for _, k := range c.Keys {
			if !seen[k.Key] {
				seen[k.Key] = true
				ks = append(ks, k)
			}
		}
		c.Keys = ks
		for i := range c.Steps {
			if c.Steps[i].Slot >= len(c.Keys) {
				c.Steps[i].Slot = 0
			}
		}
		switch rapid.IntRange(0, 3).Draw(t, "rfault") {
		case 0:
		case 1, 2:
			c.RemoteFaults = []RFault{{AtCall: rapid.IntRange(0, 12).Draw(t, "at"), Kind: rapid.SampledFrom([]string{"grpc-unavailable", "in-response-error"}).Draw(t, "kind"), Times: 1}}
		case 3:
			c.RemoteFaults = []RFault{{AtCall: rapid.IntRange(0, 12).Draw(t, "at"), Kind: rapid.SampledFrom([]string{"grpc-unavailable", "in-response-error"}).Draw(t, "kind"), Times: 3}}
		}
		reportModel(t, c, runModel(c))
	})
}

// TestRemoteFaultSweep: a fixed history (write, evict, read, append twice, evict, read, remove,
// read, delete, read) for a persistent and a shared+persistent key, scalar and list, with the fault
// placed at every service call in turn, both kinds, transient and for the whole retry budget.
func TestRemoteFaultSweep(t *testing.T) {
	idx := 0
	hist := []MStep{{Op: "set", Val: "a"}, {Op: "evict"}, {Op: "get"}, {Op: "append", Val: "b"}, {Op: "evict"}, {Op: "append", Val: "c"}, {Op: "evict"}, {Op: "get"},
		{Op: "remove", Val: "b"}, {Op: "evict"}, {Op: "get"}, {Op: "exists"}, {Op: "delete"}, {Op: "get"}}
	for _, key := range []string{"tunnox:user:k7", "tunnox:mappings:list"} {
		for _, isList := range []bool{false, true} {
			for _, kind := range []string{"grpc-unavailable", "in-response-error"} {
				for _, times := range []int{1, 3} {
					for at := 0; at < 14; at++ {
						idx++
						if !vkit.Mine(idx) {
							continue
						}
						if times == 3 && at%2 == 1 && !vkit.Thorough() {
							continue // each costs 0.6 s of retry back-off
						}
						c := MCase{Model: true, Remote: true, FailAt: -1, Keys: []MKey{{Key: key, IsList: isList}}, Steps: hist,
							RemoteFaults: []RFault{{AtCall: at, Kind: kind, Times: times}}}
						reportModel(t, c, runModel(c))
					}
				}
			}
		}
	}
	vkit.Exhaustive("remote-tier-single-fault-at-every-service-call-of-a-fixed-history", vkit.Thorough())
}

var _ = fmt.Sprint
