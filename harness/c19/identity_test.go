package c19

// Caller identity of the owner-only operation (delete): owner, another client, and NO
// identity at all — client id 0 is what CommandContext.ClientID holds for a command that
// arrives on a connection which never authenticated, and what a careless internal caller
// passes. Three ways in: the wire (real command packet through the mini-server's session
// dispatcher and command executor), the command handler over the server's repository
// adapter, and the repository itself.

import (
	"context"
	"encoding/json"
	"fmt"
	"net/http/httptest"
	"strings"
	"testing"
	"time"

	appserver "tunnox-core/internal/app/server"
	"tunnox-core/internal/cloud/repos"
	"tunnox-core/internal/command"
	coreerrors "tunnox-core/internal/core/errors"
	"tunnox-core/internal/httpservice"
	"tunnox-core/internal/httpservice/modules/domainproxy"
	"tunnox-core/internal/packet"
	"tunnox-core/verif/vkit"
	"tunnox-core/verif/vkit/miniserver"
)

type IdentityCase struct {
	Via    string `json:"via"`    // wire | handler | repo
	Caller string `json:"caller"` // owner | other-client | no-identity | failed-login | negative-id
	State  string `json:"state"`  // active | inactive | expired
}

type idWorld struct {
	srv          *miniserver.Server
	owner, other *miniserver.Client
	mod          *domainproxy.DomainProxyModule
	sess         *sessDouble
}

func loginNew(srv *miniserver.Server, remote string) (*miniserver.Client, error) {
	cl, err := srv.Cloud.GenerateAnonymousCredentials()
	if err != nil {
		return nil, err
	}
	c, err := srv.Connect(remote)
	if err != nil {
		return nil, err
	}
	r, err := c.Login(cl.ID, cl.SecretKeyPlaintext, "control")
	if err != nil || r == nil || !r.Success {
		return nil, fmt.Errorf("login failed: %+v %v", r, err)
	}
	c.ClientID, c.Secret = cl.ID, cl.SecretKeyPlaintext
	return c, nil
}

// command sends one JSON command on a connection and returns the bodies of the replies.
func wireCommand(c *miniserver.Client, ct packet.CommandType, body string) (replies []string, hung bool) {
	done := make(chan error, 1)
	go func() {
		done <- c.Push(&packet.TransferPacket{PacketType: packet.JsonCommand, CommandPacket: &packet.CommandPacket{
			CommandType: ct, CommandId: fmt.Sprintf("verif-%d", time.Now().UnixNano()), CommandBody: body}})
	}()
	select {
	case <-done:
	case <-time.After(10 * time.Second):
		return nil, true
	}
	deadline := time.Now().Add(300 * time.Millisecond)
	for time.Now().Before(deadline) {
		if c.Near.Pending() == 0 {
			time.Sleep(2 * time.Millisecond)
			if c.Near.Pending() == 0 && len(replies) > 0 {
				break
			}
			continue
		}
		p, err := c.Recv(2 * time.Second)
		if err != nil {
			break
		}
		if p.CommandPacket != nil {
			replies = append(replies, p.CommandPacket.CommandBody)
		}
	}
	return replies, false
}

func anySuccess(replies []string) bool {
	for _, b := range replies {
		var r struct {
			Success bool `json:"success"`
		}
		if json.Unmarshal([]byte(b), &r) == nil && r.Success {
			return true
		}
	}
	return false
}

func runIdentityCase(c IdentityCase) (key, detail string) {
	srv, err := miniserver.New(miniserver.Options{NoSecurityGate: true})
	if err != nil {
		return "C19/harness/identity-setup-failed", err.Error()
	}
	defer srv.Close()
	ctx := context.Background()
	owner, err := loginNew(srv, "10.1.1.1:4001")
	if err != nil {
		return "C19/harness/identity-setup-failed", err.Error()
	}
	other, err := loginNew(srv, "10.1.1.2:4002")
	if err != nil {
		return "C19/harness/identity-setup-failed", err.Error()
	}
	// the owner claims the name through the real command
	const name = "shop.tunnox.net"
	rep, hung := wireCommand(owner, packet.HTTPDomainCreate, `{"target_url":"http://10.0.0.1:8080","subdomain":"shop","base_domain":"tunnox.net"}`)
	mp, lerr := srv.Domains.LookupByDomain(ctx, name)
	if hung || !anySuccess(rep) || lerr != nil || mp.ClientID != owner.ClientID {
		return "C19/harness/identity-setup-failed", fmt.Sprintf("HTTPDomainCreate by the owner: replies=%v hung=%v lookup=%+v %v", rep, hung, mp, lerr)
	}
	switch c.State {
	case "inactive":
		mp.Status = repos.HTTPDomainMappingStatusInactive
		err = srv.Domains.UpdateMapping(ctx, mp)
	case "expired":
		mp.ExpiresAt = time.Now().Unix() - 1000
		err = srv.Domains.UpdateMapping(ctx, mp)
	}
	if err != nil {
		return "C19/harness/identity-setup-failed", err.Error()
	}
	// the delete
	var callerID int64
	var conn *miniserver.Client
	switch c.Caller {
	case "owner":
		callerID, conn = owner.ClientID, owner
	case "other-client":
		callerID, conn = other.ClientID, other
	case "no-identity":
		callerID = 0
		conn, _ = srv.Connect("10.6.6.6:4666") // never sends a handshake
	case "failed-login":
		callerID = 0
		conn, _ = srv.Connect("10.6.6.7:4667")
		if conn != nil {
			conn.Login(owner.ClientID, "not-the-secret", "control")
		}
	case "negative-id":
		callerID = -1
	}
	accepted := false
	how := ""
	switch c.Via {
	case "wire":
		if conn == nil {
			return "", "" // identity has no wire form
		}
		body, _ := json.Marshal(packet.HTTPDomainDeleteRequest{MappingID: mp.ID})
		rep, hung := wireCommand(conn, packet.HTTPDomainDelete, string(body))
		accepted = anySuccess(rep)
		how = fmt.Sprintf("HTTPDomainDelete command on the connection of %s (replies %v, hung %v)", c.Caller, rep, hung)
	case "handler":
		h := command.NewHTTPDomainDeleteHandler(appserver.NewHTTPDomainRepositoryAdapter(srv.Domains))
		body, _ := json.Marshal(packet.HTTPDomainDeleteRequest{MappingID: mp.ID})
		resp, herr := h.Handle(&command.CommandContext{ConnectionID: "conn-x", ClientID: callerID, RequestBody: string(body)})
		accepted = herr == nil && resp != nil && resp.Success
		how = fmt.Sprintf("HTTPDomainDeleteHandler with CommandContext.ClientID=%d", callerID)
	case "repo":
		derr := srv.Domains.DeleteMapping(ctx, mp.ID, callerID)
		accepted = derr == nil
		how = fmt.Sprintf("DeleteMapping(%s, %d) = %v", mp.ID, callerID, derr)
	}
	// observe
	got, gerr := srv.Domains.LookupByDomain(ctx, name)
	sess := &sessDouble{offline: map[int64]bool{}}
	mod := domainproxy.NewDomainProxyModule(srv.Ctx, &httpservice.DomainProxyModuleConfig{Enabled: true, BaseDomains: []string{"tunnox.net"}, DefaultScheme: "http", CommandModeThreshold: 1 << 20, RequestTimeout: 2 * time.Second})
	mod.SetDependencies(&httpservice.ModuleDependencies{SessionMgr: sess, CloudControl: srv.Cloud, Storage: srv.Storage, HTTPDomainMappingRepo: srv.Domains})
	req := httptest.NewRequest("GET", "http://placeholder/x", nil)
	req.Host = name
	mod.ServeHTTP(httptest.NewRecorder(), req)
	_, claimErr := srv.Domains.CreateMapping(ctx, other.ClientID, "shop", "tunnox.net", "10.6.6.6", 6666)
	if c.Caller == "owner" {
		switch {
		case !accepted:
			return "C19/identity/owner-delete-refused", how
		case gerr == nil:
			return "C19/identity/name-still-routes-after-owner-delete", fmt.Sprintf("%s; lookup = %+v", how, got)
		case claimErr != nil:
			return "C19/identity/name-not-claimable-after-owner-delete", fmt.Sprintf("%s; %v", how, claimErr)
		}
		return "", ""
	}
	who := strings.ReplaceAll(c.Caller, " ", "-")
	switch {
	case accepted:
		return "C19/identity/delete-accepted-from-" + who, fmt.Sprintf("%s was accepted; the mapping %s belongs to client %d", how, mp.ID, owner.ClientID)
	case gerr != nil || got.ID != mp.ID || got.ClientID != owner.ClientID:
		return "C19/identity/mapping-gone-after-delete-by-" + who, fmt.Sprintf("%s; LookupByDomain(%s) = %+v, %v (owner is client %d, mapping %s)", how, name, got, gerr, owner.ClientID, mp.ID)
	case claimErr == nil:
		return "C19/identity/name-claimable-after-delete-by-" + who, fmt.Sprintf("%s; client %d could then claim %s", how, other.ClientID, name)
	case !coreerrors.IsCode(claimErr, coreerrors.CodeAlreadyExists):
		return "C19/identity/claim-of-owned-name-unclean-error", claimErr.Error()
	}
	if c.State == "active" {
		if len(sess.calls) != 1 || sess.calls[0].client != owner.ClientID || !strings.Contains(sess.calls[0].url, "10.0.0.1:8080") {
			return "C19/identity/owner-no-longer-routed-after-delete-by-" + who, fmt.Sprintf("%s; request for %s routed to %+v", how, name, sess.calls)
		}
	} else if len(sess.calls) != 0 {
		return "C19/proxy/inactive-or-expired-mapping-routed", fmt.Sprintf("state %s routed to %+v", c.State, sess.calls)
	}
	return "", ""
}

// TestDeleteCallerIdentity enumerates via x caller x mapping state.
func TestDeleteCallerIdentity(t *testing.T) {
	idx := 0
	for _, via := range []string{"wire", "handler", "repo"} {
		for _, caller := range []string{"owner", "other-client", "no-identity", "failed-login", "negative-id"} {
			for _, state := range []string{"active", "inactive", "expired"} {
				if via == "wire" && caller == "negative-id" {
					continue
				}
				if via != "wire" && caller == "failed-login" {
					continue
				}
				idx++
				if !vkit.Mine(idx) {
					continue
				}
				c := IdentityCase{Via: via, Caller: caller, State: state}
				key, detail := runIdentityCase(c)
				class := "identity/" + via + "/" + caller
				if key != "" {
					vkit.Violation(t, key, detail, c)
					vkit.Case("known:"+class, true, fmt.Sprintf("%+v", c))
					continue
				}
				vkit.Case(class, caller != "owner", fmt.Sprintf("%+v", c))
			}
		}
	}
	vkit.Exhaustive("delete-caller-identity-matrix", true)
}

// ClaimCase: another client claims a name that has a holder, through every claim path, for
// every lifetime of the holder. A holder that never expires (ExpiresAt 0: created through
// the repository / management side) or expires in the future keeps the name.
type ClaimCase struct {
	Via      string `json:"claim_via"`       // wire | handler | repo
	Lifetime string `json:"holder_lifetime"` // never | future | past
	Status   string `json:"holder_status"`   // active | inactive
}

func runClaimCase(c ClaimCase) (key, detail string) {
	srv, err := miniserver.New(miniserver.Options{NoSecurityGate: true})
	if err != nil {
		return "C19/harness/claim-setup-failed", err.Error()
	}
	defer srv.Close()
	ctx := context.Background()
	owner, err := loginNew(srv, "10.2.1.1:4001")
	if err != nil {
		return "C19/harness/claim-setup-failed", err.Error()
	}
	other, err := loginNew(srv, "10.2.1.2:4002")
	if err != nil {
		return "C19/harness/claim-setup-failed", err.Error()
	}
	const name = "shop.tunnox.net"
	mp, err := srv.Domains.CreateMapping(ctx, owner.ClientID, "shop", "tunnox.net", "10.0.0.1", 8080)
	if err != nil {
		return "C19/harness/claim-setup-failed", err.Error()
	}
	switch c.Lifetime {
	case "future":
		mp.ExpiresAt = time.Now().Unix() + 100000
	case "past":
		mp.ExpiresAt = time.Now().Unix() - 1000
	}
	if c.Status == "inactive" {
		mp.Status = repos.HTTPDomainMappingStatusInactive
	}
	if c.Lifetime != "never" || c.Status == "inactive" {
		if err := srv.Domains.UpdateMapping(ctx, mp); err != nil {
			return "C19/harness/claim-setup-failed", err.Error()
		}
	}
	body := `{"target_url":"http://10.6.6.6:6666","subdomain":"shop","base_domain":"tunnox.net"}`
	accepted, how := false, ""
	switch c.Via {
	case "wire":
		chk, _ := wireCommand(other, packet.HTTPDomainCheckSubdomain, `{"subdomain":"shop","base_domain":"tunnox.net"}`)
		rep, hung := wireCommand(other, packet.HTTPDomainCreate, body)
		accepted = anySuccess(rep)
		how = fmt.Sprintf("HTTPDomainCheckSubdomain (replies %v) + HTTPDomainCreate (replies %v, hung %v) on the connection of client %d", chk, rep, hung, other.ClientID)
	case "handler":
		ad := appserver.NewHTTPDomainRepositoryAdapter(srv.Domains)
		resp, herr := command.NewHTTPDomainCreateHandler(ad, ad).Handle(&command.CommandContext{ConnectionID: "conn-h", ClientID: other.ClientID, RequestBody: body})
		accepted = herr == nil && resp != nil && resp.Success
		how = fmt.Sprintf("HTTPDomainCreateHandler for client %d", other.ClientID)
	case "repo":
		_, cerr := srv.Domains.CreateMapping(ctx, other.ClientID, "shop", "tunnox.net", "10.6.6.6", 6666)
		accepted = cerr == nil
		how = fmt.Sprintf("CreateMapping by client %d = %v", other.ClientID, cerr)
	}
	got, gerr := srv.Domains.LookupByDomain(ctx, name)
	sess := &sessDouble{offline: map[int64]bool{}}
	mod := domainproxy.NewDomainProxyModule(srv.Ctx, &httpservice.DomainProxyModuleConfig{Enabled: true, BaseDomains: []string{"tunnox.net"}, DefaultScheme: "http", CommandModeThreshold: 1 << 20, RequestTimeout: 2 * time.Second})
	mod.SetDependencies(&httpservice.ModuleDependencies{SessionMgr: sess, CloudControl: srv.Cloud, Storage: srv.Storage, HTTPDomainMappingRepo: srv.Domains})
	req := httptest.NewRequest("GET", "http://placeholder/x", nil)
	req.Host = name
	mod.ServeHTTP(httptest.NewRecorder(), req)
	if c.Lifetime == "past" {
		// an expired holder does not route; whether its name can be reclaimed before the cleanup
		// job ran is the implementation's choice — but the name must end with ONE owner
		if accepted && (gerr != nil || got.ClientID != other.ClientID) {
			return "C19/claim/accepted-claim-does-not-resolve", fmt.Sprintf("%s accepted; lookup = %+v %v", how, got, gerr)
		}
		if !accepted && len(sess.calls) != 0 {
			return "C19/proxy/inactive-or-expired-mapping-routed", fmt.Sprintf("expired holder routed: %+v", sess.calls)
		}
		return "", ""
	}
	switch {
	case accepted:
		return "C19/claim/live-holder-evicted-by-competing-claim", fmt.Sprintf("%s was accepted although %s of client %d holds %s (expires: %s, status %s); the name now resolves to %+v", how, mp.ID, owner.ClientID, name, c.Lifetime, c.Status, got)
	case gerr != nil || got.ID != mp.ID || got.ClientID != owner.ClientID:
		return "C19/claim/holder-gone-after-refused-claim", fmt.Sprintf("%s; LookupByDomain = %+v %v, holder is %s of client %d", how, got, gerr, mp.ID, owner.ClientID)
	}
	if c.Status == "active" {
		if len(sess.calls) != 1 || sess.calls[0].client != owner.ClientID || !strings.Contains(sess.calls[0].url, "10.0.0.1:8080") {
			return "C19/claim/holder-no-longer-routed-after-refused-claim", fmt.Sprintf("%s; request routed to %+v", how, sess.calls)
		}
	} else if len(sess.calls) != 0 {
		return "C19/proxy/inactive-or-expired-mapping-routed", fmt.Sprintf("inactive holder routed: %+v", sess.calls)
	}
	return "", ""
}

// TestClaimOfHeldName enumerates claim path x holder lifetime x holder status.
func TestClaimOfHeldName(t *testing.T) {
	idx := 0
	for _, via := range []string{"wire", "handler", "repo"} {
		for _, life := range []string{"never", "future", "past"} {
			for _, status := range []string{"active", "inactive"} {
				idx++
				if !vkit.Mine(idx) {
					continue
				}
				c := ClaimCase{Via: via, Lifetime: life, Status: status}
				key, detail := runClaimCase(c)
				class := "claim-of-held-name/" + via + "/holder-expires-" + life
				if key != "" {
					vkit.Violation(t, key, detail, c)
					vkit.Case("known:"+class, true, fmt.Sprintf("%+v", c))
					continue
				}
				vkit.Case(class, true, fmt.Sprintf("%+v", c))
			}
		}
	}
	vkit.Exhaustive("claim-of-held-name-matrix", true)
}

func replayIdentity(t *testing.T, path string) {
	var cc ClaimCase
	if _, err := vkit.LoadReplay(path, &cc); err == nil && cc.Via != "" {
		if key, detail := runClaimCase(cc); key != "" {
			vkit.Violation(t, key, detail, cc)
		}
		return
	}
	var c IdentityCase
	if _, err := vkit.LoadReplay(path, &c); err != nil {
		t.Fatal(err)
	}
	if key, detail := runIdentityCase(c); key != "" {
		vkit.Violation(t, key, detail, c)
	}
}
