package c19

// Contention part (ungated): the gate scheduler serialises whole store operations, so a
// race INSIDE the backend's SetNX is invisible to it. CreateMapping relies on
// SetNX(tunnox:http_domain:index:<name>) alone for name uniqueness. Here 2-8 clients are
// released from a spin barrier and claim the SAME fresh name on the real stores the server
// builds (factory-built hybrid(memory), and the memory backend directly), thousands of rounds.

import (
	"context"
	"fmt"
	"runtime"
	"sync"
	"sync/atomic"
	"testing"

	"tunnox-core/internal/cloud/repos"
	"tunnox-core/internal/core/storage"
	"tunnox-core/verif/vkit"
)

type ContendCase struct {
	Store  string `json:"store"` // hybrid(memory) | memory
	G      int    `json:"g"`     // clients claiming one name at once
	Repos  int    `json:"repos"` // repository instances (1 = one node, G = one per client)
	Rounds int    `json:"rounds"`
}

type spinBarrier struct {
	n     int32
	ready int32
}

func (b *spinBarrier) wait() {
	atomic.AddInt32(&b.ready, 1)
	for i := 0; atomic.LoadInt32(&b.ready) < b.n; i++ {
		if i%2000 == 1999 {
			runtime.Gosched()
		}
	}
}

func buildStore(ctx context.Context, which string) (storage.Storage, error) {
	if which == "memory" {
		return storage.NewMemoryStorage(ctx), nil
	}
	f := storage.NewStorageFactory(ctx)
	hc := &storage.HybridStorageConfig{CacheType: "memory", EnablePersistent: false, HybridConfig: storage.DefaultHybridConfig()}
	hc.HybridConfig.EnablePersistent = false
	return f.CreateStorage(hc)
}

func runContention(c ContendCase) (key, detail string, rounds int) {
	ctx, cancel := context.WithCancel(context.Background())
	defer cancel()
	st, err := buildStore(ctx, c.Store)
	if err != nil {
		return "C19/harness/contention-setup-failed", err.Error(), 0
	}
	defer st.Close()
	nrepo := c.Repos
	if nrepo < 1 {
		nrepo = 1
	}
	rs := make([]*repos.HTTPDomainMappingRepository, nrepo)
	for i := range rs {
		rs[i] = repos.NewHTTPDomainMappingRepository(repos.NewRepository(st), []string{baseDomain})
	}
	got := make([]*repos.HTTPDomainMapping, c.G)
	errs := make([]error, c.G)
	for round := 0; round < c.Rounds; round++ {
		sub := fmt.Sprintf("fresh%d", round)
		name := sub + "." + baseDomain
		b := &spinBarrier{n: int32(c.G)}
		var wg sync.WaitGroup
		wg.Add(c.G)
		for i := 0; i < c.G; i++ {
			go func(i int) {
				defer wg.Done()
				client := int64(3001 + i)
				b.wait()
				got[i], errs[i] = rs[i%nrepo].CreateMapping(ctx, client, sub, baseDomain, targetHost(client), targetPort(client))
			}(i)
		}
		wg.Wait()
		rounds++
		var winners []int
		for i := 0; i < c.G; i++ {
			if errs[i] == nil {
				winners = append(winners, i)
			}
		}
		ctxt := fmt.Sprintf("round %d, %d clients claim %s at once on %s (%d repository instances)", round, c.G, name, c.Store, nrepo)
		if len(winners) > 1 {
			var w []string
			for _, i := range winners {
				w = append(w, fmt.Sprintf("client %d -> %s", 3001+i, got[i].ID))
			}
			return "C19/contention/same-name-claimed-by-several-clients", fmt.Sprintf("%s: %d CreateMapping calls succeeded: %v", ctxt, len(winners), w), rounds
		}
		if len(winners) == 0 {
			return "C19/contention/fresh-name-claimed-by-nobody", fmt.Sprintf("%s: every CreateMapping failed: %v", ctxt, errs), rounds
		}
		wi := winners[0]
		winner := int64(3001 + wi)
		idx, lerr := rs[0].LookupByDomain(ctx, name)
		if lerr != nil || idx.ID != got[wi].ID || idx.ClientID != winner || idx.FullDomain != name {
			return "C19/contention/index-does-not-point-to-the-winner", fmt.Sprintf("%s: winner client %d %s; LookupByDomain = %+v, %v", ctxt, winner, got[wi].ID, idx, lerr), rounds
		}
		for i := 0; i < c.G; i++ {
			if i == wi {
				continue
			}
			// a loser owns nothing: no stored record names it as the client of this domain
			if got[i] != nil {
				return "C19/contention/loser-got-a-mapping", fmt.Sprintf("%s: client %d failed with %v but received %+v", ctxt, 3001+i, errs[i], got[i]), rounds
			}
		}
		// the owner releases the name again (keeps the store small; the id counter findings stay out of the picture)
		if err := rs[0].DeleteMapping(ctx, got[wi].ID, winner); err != nil {
			return "C19/contention/owner-delete-failed", fmt.Sprintf("%s: %v", ctxt, err), rounds
		}
	}
	return "", "", rounds
}

func reportContention(t vkit.TB, c ContendCase, key, detail string, rounds int) {
	class := fmt.Sprintf("contention/%s/g=%d", c.Store, c.G)
	sig := fmt.Sprintf("%+v", ContendCase{Store: c.Store, G: c.G, Repos: c.Repos})
	if key != "" {
		vkit.Violation(t, key, detail, c)
		vkit.Case("known:"+class, true, sig)
		return
	}
	vkit.Case(class, true, sig)
	vkit.AddExtra("contention_rounds", int64(rounds))
}

func TestContention(t *testing.T) {
	if runtime.GOMAXPROCS(0) < 2 {
		t.Skip("needs real parallelism")
	}
	var cases []ContendCase
	for _, store := range []string{"hybrid(memory)", "memory"} {
		for _, g := range []int{2, 3, 4, 8} {
			cases = append(cases, ContendCase{Store: store, G: g, Repos: 1}, ContendCase{Store: store, G: g, Repos: g})
		}
	}
	per := vkit.Pick(10000, 120000)
	for i, c := range cases {
		if !vkit.Mine(i) {
			continue
		}
		c.Rounds = per
		key, detail, rounds := runContention(c)
		reportContention(t, c, key, detail, rounds)
		if key != "" {
			return
		}
	}
}

func replayContention(t *testing.T, path string) {
	var c ContendCase
	if _, err := vkit.LoadReplay(path, &c); err != nil {
		t.Fatal(err)
	}
	c.Rounds = 100000 // a race inside the backend replays statistically
	key, detail, rounds := runContention(c)
	reportContention(t, c, key, detail, rounds)
}
