// C19 — a public domain routes only to its single rightful owner.
//
// Part 1 (this file): gate-scheduler exploration of the real HTTPDomainMappingRepository
// (two instances = two nodes) over hybrid(memory): concurrent create / delete / lookup /
// update / cleanup on overlapping names by different clients.
// Part 2 (proxy_test.go): Host spellings and sequential histories, black-box through the
// real DomainProxyModule.ServeHTTP.
package c19

import (
	"context"
	"encoding/json"
	"errors"
	"fmt"
	"os"
	"sort"
	"strings"
	"sync"
	"sync/atomic"
	"testing"
	"time"

	"pgregory.net/rapid"

	"tunnox-core/internal/cloud/repos"
	coreerrors "tunnox-core/internal/core/errors"
	"tunnox-core/internal/core/storage/hybrid"
	"tunnox-core/verif/vkit"
)

func TestMain(m *testing.M) { vkit.Main(m, "C19") }

// stall: how long the scheduler waits for a task that is neither parked nor finished before
// it goes on without it. The code under test holds no lock across store operations, so the
// wait only matters (a) on a starved machine and (b) for mutants that do block. Exhaustive
// enumeration needs the same tree on every re-execution and waits long; random schedules
// only need a valid execution and move on quickly.
var stall = 60 * time.Millisecond

// ---------------------------------------------------------------------------
// case

type Op struct {
	Do     string `json:"do"`               // create | delete | lookup | update | cleanup
	Name   int    `json:"name,omitempty"`   // create/lookup: index into names
	Client int    `json:"client,omitempty"` // acting client index (create, delete)
	Ref    string `json:"ref,omitempty"`    // delete/update target: init0 | init1 | own | found
	Set    string `json:"set,omitempty"`    // update: inactive | active | expired | future
}

type TaskC struct {
	Node int  `json:"node"`
	Ops  []Op `json:"ops"`
}

type Case struct {
	Shared    bool    `json:"shared_tier"` // one hybrid per node over a shared tier (else both repositories on one hybrid store)
	FastLists bool    `json:"lists_not_scheduled"`
	AtomicIDs bool    `json:"id_counter_not_scheduled"` // the next_id get-then-set of hybrid.Incr runs without parking (as if atomic)
	Init      []int   `json:"init"`                     // per name: client index that owns it before the run, -1 none
	Tasks     []TaskC `json:"tasks"`
	Picks     []int   `json:"picks"`
	FailAt    int     `json:"fail_at"`               // -1 none; else the n-th faultable operation returns a storage error
	FailOn    string  `json:"fail_on,omitempty"`     // "" / "claim": SetNX of a name-index key; "record-delete": Delete of a mapping record
	Lost      bool    `json:"lost_answer,omitempty"` // the faulted SetNX is applied but reports an error (else: not applied)
}

const baseDomain = "tunnox.net"

var subs = []string{"app", "web"}
var clientIDs = []int64{1001, 1002, 1003}

const probeClient = int64(1999)

func fullName(i int) string          { return subs[i%len(subs)] + "." + baseDomain }
func targetHost(client int64) string { return fmt.Sprintf("svc%d.internal", client) }
func targetPort(client int64) int    { return int(8000 + client%1000) }

// ---------------------------------------------------------------------------
// store: GateCache whose list keys / id counter can be served without parking

type fastCache struct {
	*vkit.GateCache
	lists, ids bool
	lost       bool  // an injected fault on SetNX is "applied, answer lost"
	ctr        int64 // ids: the counter hybrid.Incr reads (Get) and writes back (Set) is served atomically from here
}

func (f *fastCache) isFast(key string) bool {
	if f.lists && (strings.HasPrefix(key, repos.KeyPrefixHTTPDomainClient) || key == repos.KeyHTTPDomainMappingList) {
		return true
	}
	return f.ids && key == repos.KeyHTTPDomainNextID
}

func (f *fastCache) Get(key string) (any, error) {
	if f.ids && key == repos.KeyHTTPDomainNextID {
		// hybrid.Incr = Get, +1, Set. Handing every Get a fresh value makes the pair atomic even
		// while several tasks run at once (before their first parked operation).
		return atomic.AddInt64(&f.ctr, 1) - 1, nil
	}
	if f.isFast(key) {
		return f.GateCache.Storage.Get(key)
	}
	return f.GateCache.Get(key)
}
func (f *fastCache) Set(key string, v any, ttl time.Duration) error {
	if f.ids && key == repos.KeyHTTPDomainNextID {
		return nil
	}
	if f.isFast(key) {
		return f.GateCache.Storage.Set(key, v, ttl)
	}
	return f.GateCache.Set(key, v, ttl)
}
func (f *fastCache) SetNX(key string, v any, ttl time.Duration) (bool, error) {
	ok, err := f.GateCache.SetNX(key, v, ttl)
	if f.lost && errors.Is(err, vkit.ErrGateFault) {
		f.GateCache.Storage.SetNX(key, v, ttl)
	}
	return ok, err
}

func (f *fastCache) Delete(key string) error {
	if f.isFast(key) {
		return f.GateCache.Storage.Delete(key)
	}
	err := f.GateCache.Delete(key)
	if f.lost && errors.Is(err, vkit.ErrGateFault) {
		f.GateCache.Storage.Delete(key)
	}
	return err
}

// ---------------------------------------------------------------------------
// world

type world struct {
	c      Case
	wg     sync.WaitGroup // task goroutines: all must have returned before the stores are closed
	g      *vkit.Gate
	main   *fastCache   // the tier that holds index + records (cache of the single hybrid, or the shared tier)
	locals []*fastCache // shared topology: per-node local caches (id counter, global list)
	hs     []*hybrid.Storage
	repos  []*repos.HTTPDomainMappingRepository
	oracle *repos.HTTPDomainMappingRepository // ungated view of the same data
	oh     *hybrid.Storage
	ctx    context.Context
	cancel context.CancelFunc
	initID []string
	m      *model
}

func newWorld(c Case) *world {
	w := &world{c: c, g: vkit.NewGate()}
	w.ctx, w.cancel = context.WithCancel(context.Background())
	bases := []string{baseDomain}
	if c.Shared {
		w.main = &fastCache{GateCache: vkit.NewGateCache(w.g, "shared"), lists: c.FastLists, ids: c.AtomicIDs}
		for i := 0; i < 2; i++ {
			l := &fastCache{GateCache: vkit.NewGateCache(w.g, fmt.Sprintf("local%d", i+1)), lists: c.FastLists, ids: c.AtomicIDs}
			w.locals = append(w.locals, l)
			h := hybrid.NewWithSharedCache(w.ctx, l, w.main, nil, hybrid.DefaultConfig())
			w.hs = append(w.hs, h)
			w.repos = append(w.repos, repos.NewHTTPDomainMappingRepository(repos.NewRepository(h), bases))
		}
		// hybrid.Incr keeps tunnox:http_domain:next_id in the node-local cache (finding
		// C14/op-ignores-category/Incr): two nodes mint the same hdm_<n>. Pinned by
		// TestPerNodeCounter; here node 2's counter is offset so exploration gets past it.
		w.locals[1].GateCache.Storage.Set(repos.KeyHTTPDomainNextID, int64(1000), 0)
		w.locals[1].ctr = 1000
		w.oh = hybrid.NewWithSharedCache(w.ctx, w.locals[0].GateCache.Storage, w.main.GateCache.Storage, nil, hybrid.DefaultConfig())
	} else {
		w.main = &fastCache{GateCache: vkit.NewGateCache(w.g, "cache"), lists: c.FastLists, ids: c.AtomicIDs}
		h := hybrid.NewWithSharedCache(w.ctx, w.main, nil, nil, hybrid.DefaultConfig())
		w.hs = append(w.hs, h)
		for i := 0; i < 2; i++ {
			w.repos = append(w.repos, repos.NewHTTPDomainMappingRepository(repos.NewRepository(h), bases))
		}
		w.oh = hybrid.NewWithSharedCache(w.ctx, w.main.GateCache.Storage, nil, nil, hybrid.DefaultConfig())
	}
	w.oracle = repos.NewHTTPDomainMappingRepository(repos.NewRepository(w.oh), bases)
	w.m = newModel(w)
	return w
}

func (w *world) repo(node int) *repos.HTTPDomainMappingRepository {
	return w.repos[((node%len(w.repos))+len(w.repos))%len(w.repos)]
}

// drained waits (gate open) until every task goroutine has returned.
func (w *world) drained(d time.Duration) bool {
	w.g.Deactivate()
	done := make(chan struct{})
	go func() { w.wg.Wait(); close(done) }()
	select {
	case <-done:
		return true
	case <-time.After(d):
		return false
	}
}

func (w *world) close() {
	w.drained(60 * time.Second)
	w.cancel()
	for _, h := range w.hs {
		h.Close()
	}
}

// ---------------------------------------------------------------------------
// model

type mrec struct {
	id, name      string
	owner         int64
	createdSeq    int
	ownerDelStart int // seq at which the first delete by the owner (or a cleanup that may delete it) started
	ownerDelDone  int // seq at which a delete by the owner returned nil
	expiredSet    bool
}

type lookupObs struct {
	name       string
	start, end int
	found      bool
	id, full   string
	owner      int64
	host       string
	port       int
	ownRead    bool // the call itself read the name index
}

type model struct {
	w             *world
	mu            sync.Mutex
	seq           int
	recs          map[string]*mrec
	lookups       []lookupObs
	symptom       string
	detail        string
	creates       int
	deletes       int
	cleanupActive int
	earlyDel      map[string][]*earlyDelete // deletes of an id whose create has not returned yet
}

type earlyDelete struct {
	client int64
	start  int
	done   int // seq at which it returned nil
}

func newModel(w *world) *model { return &model{w: w, recs: map[string]*mrec{}} }

func (m *model) tick() int { m.mu.Lock(); defer m.mu.Unlock(); m.seq++; return m.seq }

func (m *model) fail(symptom, detail string) {
	if m.symptom == "" {
		m.symptom, m.detail = symptom, detail
	}
}
func (m *model) failed() bool { m.mu.Lock(); defer m.mu.Unlock(); return m.symptom != "" }

func (m *model) onCreate(name string, client int64, mp *repos.HTTPDomainMapping, err error) {
	m.mu.Lock()
	defer m.mu.Unlock()
	m.seq++
	if err != nil {
		return
	}
	m.creates++
	if mp == nil || mp.ID == "" || mp.FullDomain != name || mp.ClientID != client {
		m.fail("create-returned-wrong-mapping", fmt.Sprintf("CreateMapping(%s, client %d) returned %+v", name, client, mp))
		return
	}
	if old, dup := m.recs[mp.ID]; dup {
		m.fail("duplicate-mapping-id", fmt.Sprintf("CreateMapping(%s, client %d) returned id %s, already the id of %s owned by client %d", name, client, mp.ID, old.name, old.owner))
		return
	}
	rec := &mrec{id: mp.ID, name: name, owner: client, createdSeq: m.seq}
	// a delete by the same client that started while this create was still in flight (the id
	// was visible through a lookup) counts as the owner's delete
	for _, e := range m.earlyDel[mp.ID] {
		if e.client == client {
			if rec.ownerDelStart == 0 {
				rec.ownerDelStart = e.start
			}
			if e.done > 0 && rec.ownerDelDone == 0 {
				rec.ownerDelDone = e.done
			}
		}
	}
	if rec.ownerDelStart == 0 {
		for _, r := range m.sorted() {
			if r.name == name && r.ownerDelStart == 0 {
				m.fail("name-claimed-twice", fmt.Sprintf("CreateMapping(%s, client %d) succeeded (%s) while %s of client %d is live: no delete by its owner has even started", name, client, mp.ID, r.id, r.owner))
				return
			}
		}
	}
	m.recs[mp.ID] = rec
}

func (m *model) sorted() []*mrec {
	out := make([]*mrec, 0, len(m.recs))
	for _, r := range m.recs {
		out = append(out, r)
	}
	sort.Slice(out, func(i, j int) bool { return out[i].id < out[j].id })
	return out
}

func (m *model) onDeleteStart(id string, client int64) int {
	m.mu.Lock()
	defer m.mu.Unlock()
	m.seq++
	m.deletes++
	if r := m.recs[id]; r != nil {
		if r.owner == client && r.ownerDelStart == 0 {
			r.ownerDelStart = m.seq
		}
	} else {
		if m.earlyDel == nil {
			m.earlyDel = map[string][]*earlyDelete{}
		}
		m.earlyDel[id] = append(m.earlyDel[id], &earlyDelete{client: client, start: m.seq})
	}
	return m.seq
}

func (m *model) onDeleteEnd(id string, client int64, start int, err error) {
	m.mu.Lock()
	defer m.mu.Unlock()
	m.seq++
	r := m.recs[id]
	if r == nil {
		for _, e := range m.earlyDel[id] {
			if e.client == client && e.start == start && err == nil {
				e.done = m.seq
			}
		}
		return
	}
	if r.owner == client {
		if r.ownerDelStart == 0 {
			r.ownerDelStart = start
		}
		if err == nil && r.ownerDelDone == 0 {
			r.ownerDelDone = m.seq
		}
		return
	}
	// non-owner: while the mapping certainly exists (created before the call, no owner delete started) the call must fail
	if err == nil && r.createdSeq < start && r.ownerDelStart == 0 {
		m.fail("non-owner-delete-accepted", fmt.Sprintf("DeleteMapping(%s) by client %d returned nil; the mapping belongs to client %d and was not being deleted by it", id, client, r.owner))
	}
}

func (m *model) onCleanupEnd() {
	m.mu.Lock()
	defer m.mu.Unlock()
	m.seq++
	m.cleanupActive--
}

func (m *model) onCleanupStart() {
	m.mu.Lock()
	defer m.mu.Unlock()
	m.seq++
	m.cleanupActive++
	for _, r := range m.recs {
		if r.expiredSet && r.ownerDelStart == 0 {
			r.ownerDelStart = m.seq // the cleanup job deletes expired mappings on the owner's behalf
		}
	}
}

func (m *model) onExpiredSet(id string) {
	m.mu.Lock()
	defer m.mu.Unlock()
	m.seq++
	if r := m.recs[id]; r != nil {
		r.expiredSet = true
		if m.cleanupActive > 0 && r.ownerDelStart == 0 {
			r.ownerDelStart = m.seq // a running cleanup job may pick it up
		}
	}
}

func (m *model) onLookup(name string, start int, mp *repos.HTTPDomainMapping, err error, ownRead bool) {
	m.mu.Lock()
	defer m.mu.Unlock()
	m.seq++
	o := lookupObs{name: name, start: start, end: m.seq, ownRead: ownRead}
	if err == nil && mp != nil {
		o.found, o.id, o.full, o.owner, o.host, o.port = true, mp.ID, mp.FullDomain, mp.ClientID, mp.TargetHost, mp.TargetPort
	}
	m.lookups = append(m.lookups, o)
}

// checkLookups validates every observed lookup against the whole history.
func (m *model) checkLookups(faulted bool) {
	m.mu.Lock()
	defer m.mu.Unlock()
	for _, o := range m.lookups {
		if !o.found {
			continue
		}
		if o.full != o.name {
			m.fail("lookup-returned-other-domain", fmt.Sprintf("LookupByDomain(%s) returned mapping %s of domain %s (client %d)", o.name, o.id, o.full, o.owner))
			return
		}
		r := m.recs[o.id]
		if r == nil {
			if !faulted {
				m.fail("lookup-returned-unknown-mapping", fmt.Sprintf("LookupByDomain(%s) returned %s which no successful create produced", o.name, o.id))
				return
			}
			continue
		}
		if r.owner != o.owner || o.host != targetHost(r.owner) || o.port != targetPort(r.owner) {
			m.fail("lookup-returned-foreign-owner", fmt.Sprintf("LookupByDomain(%s) = %s client %d target %s:%d; its creator is client %d", o.name, o.id, o.owner, o.host, o.port, r.owner))
			return
		}
		// a mapping Y of the same name that was claimed before the lookup began and stayed
		// live until it ended: the index pointed to Y the whole time, nothing else may be returned
		for _, y := range m.sorted() {
			if y.name == o.name && y.id != o.id && y.createdSeq < o.start && (y.ownerDelStart == 0 || y.ownerDelStart > o.end) {
				sym := "lookup-returned-superseded-mapping"
				how := ""
				if !o.ownRead {
					sym = "lookup-served-from-an-earlier-callers-read/returned-superseded-mapping"
					how = " (this call never read the name index itself: it was handed the result of a read another caller started before the re-claim)"
				}
				m.fail(sym, fmt.Sprintf("LookupByDomain(%s) began after %s of client %d had claimed the name and returned %s of client %d%s", o.name, y.id, y.owner, o.id, o.owner, how))
				return
			}
		}
		if r.ownerDelDone > 0 && r.ownerDelDone < o.start {
			m.fail("lookup-returned-deleted-mapping", fmt.Sprintf("LookupByDomain(%s) = %s after its owner's delete had returned", o.name, o.id))
			return
		}
	}
}

// ---------------------------------------------------------------------------
// running a case

type result struct {
	key, detail string
	log         []vkit.Step
	faulted     bool
	overlap     bool // two creates of one name, or a delete and a create of one name, parked together
	creates     int
	deletes     int
	final       string
	skipped     bool
}

func opKeyOf(desc string) (task, op, key string) {
	i := strings.IndexByte(desc, ':')
	if i < 0 {
		return
	}
	task = desc[:i]
	rest := desc[i+1:]
	j := strings.IndexByte(rest, '(')
	if j < 0 {
		return
	}
	return task, rest[:j], strings.TrimSuffix(rest[j+1:], ")")
}

// interesting choice point: >= 2 tasks parked on index/record operations
func ownershipOpsParked(desc []string) bool {
	n := 0
	for _, d := range desc {
		_, _, key := opKeyOf(strings.TrimSuffix(d, "!FAULT"))
		if strings.HasPrefix(key, repos.KeyPrefixHTTPDomainIndex) || strings.HasPrefix(key, repos.KeyPrefixHTTPDomainMapping) {
			n++
		}
	}
	return n >= 2
}

func runCase(c Case, choose func(int, []string) int) result {
	w := newWorld(c)
	defer w.close()
	w.initID = make([]string, len(subs))
	for i, cl := range c.Init {
		if i >= len(subs) || cl < 0 {
			continue
		}
		client := clientIDs[cl%len(clientIDs)]
		mp, err := w.repo(0).CreateMapping(w.ctx, client, subs[i], baseDomain, targetHost(client), targetPort(client))
		if err != nil {
			return result{key: "C19/harness/setup-failed", detail: err.Error()}
		}
		w.initID[i] = mp.ID
		w.m.recs[mp.ID] = &mrec{id: mp.ID, name: mp.FullDomain, owner: client}
	}
	w.g.MaxSteps = 600
	w.g.Stall = stall // repository code holds no lock across store operations
	w.g.FailAt = c.FailAt
	// injected fault: the claim of a name (SetNX of an index key) returns a storage error,
	// either not applied or applied-with-lost-answer. Other faults are not injected: hybrid
	// reports failed reads as not-found and swallows failed cache writes (C14 findings).
	w.main.lost = c.Lost
	w.g.FailFilter = func(s vkit.Step, _ bool) bool {
		if c.FailOn == "record-delete" {
			// DeleteMapping has removed the index entry and now fails to remove the record
			return strings.HasSuffix(s.Op, ".Delete") && strings.HasPrefix(s.Key, repos.KeyPrefixHTTPDomainMapping)
		}
		return strings.HasSuffix(s.Op, ".SetNX") && strings.HasPrefix(s.Key, repos.KeyPrefixHTTPDomainIndex)
	}
	w.g.Activate()
	for i := range c.Tasks {
		t := c.Tasks[i]
		w.wg.Add(1)
		tname := fmt.Sprintf("T%d", i+1)
		w.g.Go(tname, func() { defer w.wg.Done(); w.runTask(tname, t) })
	}
	r := result{}
	log := w.g.Run(func(n int, desc []string) int {
		if ownershipOpsParked(desc) {
			r.overlap = true
		}
		return choose(n, desc)
	})
	w.g.Deactivate()
	r.log = log
	for _, s := range log {
		if s.Failed {
			r.faulted = true
		}
	}
	if w.g.Aborted {
		fin := w.drained(60 * time.Second)
		if len(log) >= w.g.MaxSteps || !fin {
			r.key, r.detail = "C19/harness/schedule-aborted", fmt.Sprintf("steps=%d tasks finished=%v; %s", len(log), fin, vkit.StepsString(log))
		} else {
			r.skipped = true // the scheduler gave up on a starved machine: not a property outcome
		}
		return r
	}
	w.drained(60 * time.Second)
	if w.g.Stalls > 0 {
		vkit.AddExtra("unexpected_stalls", int64(w.g.Stalls))
	}
	w.m.checkLookups(r.faulted)
	if !w.m.failed() {
		w.finalChecks(r.faulted, &r)
	}
	r.creates, r.deletes = w.m.creates, w.m.deletes
	if w.m.symptom != "" {
		r.key = "C19/" + rootCause(w.initIndex(), log, w.m.symptom, c.Lost) + "/" + w.m.symptom
		if r.faulted {
			r.key += "/under-single-store-fault"
		}
		r.detail = w.m.detail + "; schedule: " + vkit.StepsString(log)
	}
	return r
}

func (w *world) initIndex() map[string]string {
	out := map[string]string{}
	for i, id := range w.initID {
		if id != "" {
			out[fullName(i)] = id
		}
	}
	return out
}

func (w *world) resolve(ref string, own, found string) string {
	switch ref {
	case "init0":
		return w.initID[0]
	case "init1":
		return w.initID[1]
	case "own":
		return own
	case "found":
		return found
	}
	return ""
}

func (w *world) runTask(tname string, t TaskC) {
	repo := w.repo(t.Node)
	var own, found string
	for _, op := range t.Ops {
		if w.m.failed() {
			return
		}
		client := clientIDs[((op.Client%len(clientIDs))+len(clientIDs))%len(clientIDs)]
		switch op.Do {
		case "create":
			name := fullName(op.Name)
			w.m.tick()
			mp, err := repo.CreateMapping(w.ctx, client, subs[op.Name%len(subs)], baseDomain, targetHost(client), targetPort(client))
			w.m.onCreate(name, client, mp, err)
			if err == nil && mp != nil {
				own = mp.ID
			}
		case "delete":
			id := w.resolve(op.Ref, own, found)
			if id == "" {
				continue
			}
			start := w.m.onDeleteStart(id, client)
			err := repo.DeleteMapping(w.ctx, id, client)
			w.m.onDeleteEnd(id, client, start, err)
		case "lookup":
			name := fullName(op.Name)
			start := w.m.tick()
			before := len(w.g.Log())
			mp, err := repo.LookupByDomain(w.ctx, name)
			// did THIS call read the name index, or was it handed the result of a read that
			// another caller had started earlier?
			ownRead := false
			for _, s := range w.g.Log()[before:] {
				if s.Task == tname && s.Key == repos.HTTPDomainIndexKey(name) && strings.HasSuffix(s.Op, ".Get") {
					ownRead = true
				}
			}
			w.m.onLookup(name, start, mp, err, ownRead)
			found = ""
			if err == nil && mp != nil {
				found = mp.ID
			}
		case "update":
			id := w.resolve(op.Ref, own, found)
			if id == "" {
				continue
			}
			mp, err := repo.GetMapping(w.ctx, id)
			if err != nil {
				continue
			}
			switch op.Set {
			case "inactive":
				mp.Status = repos.HTTPDomainMappingStatusInactive
			case "active":
				mp.Status = repos.HTTPDomainMappingStatusActive
			case "expired":
				mp.ExpiresAt = time.Now().Unix() - 1000
				w.m.onExpiredSet(id)
			default:
				mp.ExpiresAt = time.Now().Unix() + 100000
			}
			_ = repo.UpdateMapping(w.ctx, mp)
		case "cleanup":
			w.m.onCleanupStart()
			_, _ = repo.CleanupExpiredMappings(w.ctx)
			w.m.onCleanupEnd()
		}
	}
}

// finalChecks: sequential probes at the final quiescent point (gate open).
func (w *world) finalChecks(faulted bool, r *result) {
	m := w.m
	var fin []string
	for i := range subs {
		name := fullName(i)
		var live, maybe []*mrec
		for _, rec := range m.sorted() {
			if rec.name != name {
				continue
			}
			switch {
			case rec.ownerDelStart == 0:
				live = append(live, rec)
			case rec.ownerDelDone == 0:
				maybe = append(maybe, rec)
			}
		}
		got, err := w.oracle.LookupByDomain(w.ctx, name)
		state := "-"
		if err == nil && got != nil {
			state = fmt.Sprintf("%s@%d", got.ID, got.ClientID)
		}
		fin = append(fin, name+"="+state)
		if len(live) == 1 {
			// whatever failed for OTHER callers, an owned name keeps resolving to its owner
			l := live[0]
			if err != nil || got == nil {
				more := ""
				if pm, perr := w.repo(i).CreateMapping(w.ctx, probeClient, subs[i], baseDomain, targetHost(probeClient), targetPort(probeClient)); perr == nil {
					more = fmt.Sprintf("; a further CreateMapping(%s) by client %d then succeeded (%s): two mapping records own one name", name, probeClient, pm.ID)
				}
				m.fail("live-mapping-unreachable", fmt.Sprintf("%s: mapping %s of client %d was created successfully and never deleted by its owner, but LookupByDomain finds nothing (%v): it does not route%s", name, l.id, l.owner, err, more))
				return
			}
			if got.ID != l.id || got.ClientID != l.owner || got.FullDomain != name {
				m.fail("name-routes-to-other-mapping", fmt.Sprintf("%s: live owner is %s (client %d) but LookupByDomain returns %s of client %d domain %s", name, l.id, l.owner, got.ID, got.ClientID, got.FullDomain))
				return
			}
		}
		if err == nil && got != nil {
			if got.FullDomain != name {
				m.fail("lookup-returned-other-domain", fmt.Sprintf("final LookupByDomain(%s) returned %s of domain %s (client %d)", name, got.ID, got.FullDomain, got.ClientID))
				return
			}
			if rec := m.recs[got.ID]; rec != nil && rec.ownerDelDone > 0 {
				m.fail("lookup-returned-deleted-mapping", fmt.Sprintf("final LookupByDomain(%s) = %s, which its owner deleted", name, got.ID))
				return
			}
		}
		// probe: a further client claims the name now
		pm, perr := w.repo(i).CreateMapping(w.ctx, probeClient, subs[i], baseDomain, targetHost(probeClient), targetPort(probeClient))
		if faulted {
			// after a failed claim the name may legitimately stay blocked (a lost answer leaves an
			// index entry without a record); only "an owned name cannot be claimed by others" is asserted
			if len(live) == 1 && perr == nil {
				m.fail("name-claimed-twice", fmt.Sprintf("%s: %s of client %d is live (never deleted by its owner) yet a further CreateMapping by client %d succeeded (%s): two mappings own one name", name, live[0].id, live[0].owner, probeClient, pm.ID))
				return
			}
			continue
		}
		if perr == nil {
			if old := m.recs[pm.ID]; old != nil {
				m.fail("duplicate-mapping-id", fmt.Sprintf("CreateMapping(%s, client %d) returned id %s, already the id of %s owned by client %d", name, probeClient, pm.ID, old.name, old.owner))
				return
			}
		}
		switch {
		case len(live) == 1 && perr == nil:
			m.fail("name-claimed-twice", fmt.Sprintf("%s: %s of client %d is live (never deleted by its owner) yet a further CreateMapping by client %d succeeded (%s): two mappings own one name", name, live[0].id, live[0].owner, probeClient, pm.ID))
			return
		case len(live) == 0 && len(maybe) == 0 && perr != nil:
			m.fail("name-not-claimable-after-delete", fmt.Sprintf("%s: every mapping of the name was deleted by its owner, CreateMapping still fails: %v", name, perr))
			return
		case len(live) == 0 && len(maybe) == 0 && perr == nil:
			g2, e2 := w.oracle.LookupByDomain(w.ctx, name)
			if e2 != nil || g2 == nil || g2.ID != pm.ID || g2.ClientID != probeClient {
				m.fail("fresh-claim-does-not-route", fmt.Sprintf("%s: claimed by client %d as %s, lookup = %+v %v", name, probeClient, pm.ID, g2, e2))
				return
			}
		}
		if perr != nil && len(live) == 1 && !coreerrors.IsCode(perr, coreerrors.CodeAlreadyExists) {
			m.fail("claim-of-owned-name-unclean-error", fmt.Sprintf("%s: %v", name, perr))
			return
		}
	}
	r.final = strings.Join(fin, " ")
}

// rootCause derives the root-cause class of a failing schedule from its step log, so that
// a different mechanism with the same symptom is not absorbed by a listed finding.
func rootCause(initIdx map[string]string, log []vkit.Step, symptom string, lost bool) string {
	if strings.HasPrefix(symptom, "lookup-served-from-an-earlier-callers-read") {
		return "lookup-result-shared-between-callers"
	}
	if symptom == "duplicate-mapping-id" {
		// hybrid.Incr = Get then Set: another task touched the counter between the two
		open := map[string]int{}
		for i, s := range log {
			if s.Key != repos.KeyHTTPDomainNextID || s.Failed {
				continue
			}
			if strings.HasSuffix(s.Op, ".Get") {
				open[s.Task] = i
			}
			if strings.HasSuffix(s.Op, ".Set") {
				g, ok := open[s.Task]
				if !ok {
					continue
				}
				for j := g + 1; j < i; j++ {
					if log[j].Key == repos.KeyHTTPDomainNextID && log[j].Task != s.Task {
						return "id-counter/overlapping-get-then-set"
					}
				}
				delete(open, s.Task)
			}
		}
		return "id-counter/unclassified"
	}
	// Replay the index content from the log and look for a DeleteMapping that removes an
	// index entry which maps to ANOTHER mapping than the one it is deleting.
	idx := map[string]string{}     // index key -> mapping id ("?Tn": claimed by Tn, id not yet visible)
	claimAt := map[string]int{}    // index key -> position of the claim
	pending := map[string]string{} // task -> index key it claimed, id unresolved
	lastRec := map[string]string{} // task -> id of the record it last read (its delete target); "" inside a create
	recAt := map[string]int{}
	idxReadAt := map[string]int{} // task+key -> position of its last read of the index key
	for name, id := range initIdx {
		idx[repos.KeyPrefixHTTPDomainIndex+name] = id
		claimAt[repos.KeyPrefixHTTPDomainIndex+name] = -1
	}
	claimBy := map[string]string{} // index key -> task whose SetNX put the current entry
	for i, s := range log {
		isIdx := strings.HasPrefix(s.Key, repos.KeyPrefixHTTPDomainIndex)
		isRec := strings.HasPrefix(s.Key, repos.KeyPrefixHTTPDomainMapping)
		if s.Failed {
			if isIdx && strings.HasSuffix(s.Op, ".SetNX") {
				lastRec[s.Task] = "" // a create is running in this task (its claim failed)
				if lost && idx[s.Key] == "" {
					idx[s.Key] = "?" + s.Task
					claimBy[s.Key] = s.Task
					claimAt[s.Key] = i
				}
			}
			continue
		}
		switch {
		case isIdx && strings.HasSuffix(s.Op, ".SetNX"):
			lastRec[s.Task] = ""
			if idx[s.Key] == "" {
				idx[s.Key] = "?" + s.Task
				pending[s.Task] = s.Key
				claimAt[s.Key] = i
				claimBy[s.Key] = s.Task
			}
		case isIdx && strings.HasSuffix(s.Op, ".Set"):
			// the index is only ever claimed with SetNX; a plain Set overwrites whoever holds the name
			if cur := idx[s.Key]; cur != "" && claimBy[s.Key] != s.Task {
				return "index-overwritten-by-plain-set"
			}
			idx[s.Key] = "?set:" + s.Task
			claimBy[s.Key] = s.Task
		case isRec && strings.HasSuffix(s.Op, ".Set"):
			if k, ok := pending[s.Task]; ok && idx[k] == "?"+s.Task {
				idx[k] = strings.TrimPrefix(s.Key, repos.KeyPrefixHTTPDomainMapping)
			}
			delete(pending, s.Task)
		case isRec && strings.HasSuffix(s.Op, ".Get"):
			lastRec[s.Task] = strings.TrimPrefix(s.Key, repos.KeyPrefixHTTPDomainMapping)
			recAt[s.Task] = i
		case isIdx && strings.HasSuffix(s.Op, ".Get"):
			idxReadAt[s.Task+"|"+s.Key] = i
		case isIdx && strings.HasSuffix(s.Op, ".Delete"):
			cur, target := idx[s.Key], lastRec[s.Task]
			if target == "" && cur != "" && claimBy[s.Key] != s.Task {
				// a CreateMapping that did not obtain the claim removes the entry of whoever holds it
				return "create-error-path-deletes-foreign-index"
			}
			if target != "" && cur != "" && cur != target {
				r, read := idxReadAt[s.Task+"|"+s.Key]
				switch {
				case !read || r < recAt[s.Task]:
					return "index-delete-by-name/unconditional"
				case r < claimAt[s.Key]:
					return "index-delete-by-name/compare-then-delete-window"
				default:
					return "index-delete-by-name/guard-ineffective"
				}
			}
			delete(idx, s.Key)
		}
	}
	return "unclassified"
}

// ---------------------------------------------------------------------------
// reporting

var discMu sync.Mutex
var disc = map[string]int{}

func sig(c Case, r result) string {
	cc := c
	cc.Picks = nil
	b, _ := json.Marshal(cc)
	return string(b) + "|" + vkit.StepsString(r.log)
}

func progClass(c Case) string {
	var parts []string
	for _, t := range c.Tasks {
		var ops []string
		for _, o := range t.Ops {
			ops = append(ops, o.Do)
		}
		parts = append(parts, strings.Join(ops, ";"))
	}
	sort.Strings(parts)
	return strings.Join(parts, "||")
}

func report(t vkit.TB, c Case, r result, class string) {
	topo := "one-store"
	if c.Shared {
		topo = "shared-tier"
	}
	class = class + "/" + topo
	if r.skipped {
		vkit.Skipped(1)
		return
	}
	if r.key != "" && os.Getenv("C19_DISCOVER") != "" {
		// development aid: list every distinct root-cause key with one example instead of failing
		discMu.Lock()
		if disc[r.key] == 0 {
			fmt.Fprintf(os.Stderr, "DISCOVER %s [%s]\n   %s\n", r.key, class, r.detail)
		}
		disc[r.key]++
		discMu.Unlock()
		return
	}
	if r.key != "" {
		vkit.Violation(t, r.key, r.detail, c)
		vkit.Case("known:"+class, r.overlap, sig(c, r))
		return
	}
	vkit.Case(class, r.overlap, sig(c, r))
	if r.overlap {
		vkit.Class("feat:ownership-ops-of-two-tasks-parked-together")
	}
	if r.faulted {
		if c.FailOn == "record-delete" {
			vkit.Class("feat:record-delete-storage-error")
		} else {
			vkit.Class("feat:name-claim-storage-error")
		}
		if c.Lost {
			vkit.Class("feat:name-claim-applied-but-answer-lost")
		}
	}
	if !c.AtomicIDs {
		vkit.Class("feat:id-counter-scheduled")
	}
	if !c.FastLists {
		vkit.Class("feat:list-ops-scheduled")
	}
	vkit.Sample(class, map[string]any{"case": c, "schedule": vkit.StepsString(r.log), "final": r.final})
}

// ---------------------------------------------------------------------------
// random schedules

var refs = []string{"init0", "init0", "init1", "own", "found"}
var sets = []string{"inactive", "active", "expired", "future"}

func genOp(t *rapid.T, l string) Op {
	switch rapid.IntRange(0, 9).Draw(t, l+"do") {
	case 0, 1, 2:
		return Op{Do: "create", Name: rapid.IntRange(0, 1).Draw(t, l+"name") * rapid.IntRange(0, 1).Draw(t, l+"name2"), Client: rapid.IntRange(0, 2).Draw(t, l+"client")}
	case 3, 4, 5:
		return Op{Do: "delete", Ref: rapid.SampledFrom(refs).Draw(t, l+"ref"), Client: rapid.IntRange(0, 2).Draw(t, l+"client")}
	case 6, 7:
		return Op{Do: "lookup", Name: rapid.IntRange(0, 1).Draw(t, l+"name") * rapid.IntRange(0, 1).Draw(t, l+"name2")}
	case 8:
		return Op{Do: "update", Ref: rapid.SampledFrom(refs).Draw(t, l+"ref"), Set: rapid.SampledFrom(sets).Draw(t, l+"set")}
	}
	return Op{Do: "cleanup"}
}

func TestRandomSchedules(t *testing.T) {
	vkit.Check(t, 32000, 240000, func(t *rapid.T) {
		c := Case{FailAt: -1}
		c.Shared = rapid.Bool().Draw(t, "shared")
		c.FastLists = rapid.IntRange(0, 2).Draw(t, "fastLists") != 0
		c.AtomicIDs = rapid.IntRange(0, 3).Draw(t, "atomicIDs") != 0
		c.Init = []int{rapid.IntRange(-1, 2).Draw(t, "init0"), rapid.IntRange(-1, 1).Draw(t, "init1")}
		if rapid.IntRange(0, 2).Draw(t, "init0owned") != 0 && c.Init[0] < 0 {
			c.Init[0] = 0
		}
		nt := rapid.IntRange(2, 4).Draw(t, "ntasks")
		for i := 0; i < nt; i++ {
			l := fmt.Sprintf("t%d", i)
			task := TaskC{Node: rapid.IntRange(0, 1).Draw(t, l+"node")}
			n := rapid.IntRange(1, 3).Draw(t, l+"n")
			for j := 0; j < n; j++ {
				op := genOp(t, fmt.Sprintf("%so%d", l, j))
				if op.Do == "delete" && (op.Ref == "init0" || op.Ref == "init1") && rapid.IntRange(0, 2).Draw(t, l+"asOwner") != 0 {
					// mostly the rightful owner deletes (retries, cleanup jobs): the interesting races
					idx := 0
					if op.Ref == "init1" {
						idx = 1
					}
					if c.Init[idx] >= 0 {
						op.Client = c.Init[idx]
					}
				}
				task.Ops = append(task.Ops, op)
			}
			c.Tasks = append(c.Tasks, task)
		}
		c.Picks = rapid.SliceOfN(rapid.IntRange(0, 3), 0, 40).Draw(t, "picks")
		if rapid.IntRange(0, 3).Draw(t, "fault") == 0 {
			c.FailAt = rapid.IntRange(0, 2).Draw(t, "failAt")
			c.Lost = rapid.Bool().Draw(t, "lostAnswer")
			if rapid.IntRange(0, 2).Draw(t, "failOn") == 0 {
				c.FailOn = "record-delete"
			}
			// a failed claim that leaves an index entry behind, combined with the open id-counter
			// finding (two creates minting one id), resolves that entry to the other create's
			// record: keep the two root causes apart
			c.AtomicIDs = true
		}
		p := &vkit.Picks{List: c.Picks}
		report(t, c, runCase(c, p.Choose), fmt.Sprintf("random/%d-tasks", len(c.Tasks)))
	})
}

// ---------------------------------------------------------------------------
// exhaustive DFS over two-task (and one three-task) programs

type dfsProg struct {
	name     string
	init     []int
	tasks    [][]Op
	gatedIDs bool
	thorough bool
	schedCap int
	fault    int    // n > 0: the n-th faultable operation returns a storage error
	lost     bool   // ... after having been applied
	failOn   string // "" = claim (index SetNX), "record-delete"
	sameNode bool   // every task uses ONE repository instance (one process)
	stallMs  int    // scheduler stall for this program (tasks that may wait for each other outside the store)
}

func cr(name, client int) Op    { return Op{Do: "create", Name: name, Client: client} }
func del(ref string, cl int) Op { return Op{Do: "delete", Ref: ref, Client: cl} }
func lk(name int) Op            { return Op{Do: "lookup", Name: name} }
func upd(ref, set string) Op    { return Op{Do: "update", Ref: ref, Set: set} }

var dfsProgs = []dfsProg{
	{name: "create(A)||create(B) same name", init: []int{-1, -1}, tasks: [][]Op{{cr(0, 1)}, {cr(0, 2)}}},
	{name: "create(A)||create(B) same name, id counter scheduled", init: []int{-1, -1}, tasks: [][]Op{{cr(0, 1)}, {cr(0, 2)}}, gatedIDs: true},
	{name: "create(A,n0)||create(B,n1), id counter scheduled", init: []int{-1, -1}, tasks: [][]Op{{cr(0, 1)}, {cr(1, 2)}}, gatedIDs: true},
	{name: "delete(owner)||create(B)", init: []int{0, -1}, tasks: [][]Op{{del("init0", 0)}, {cr(0, 1)}}},
	{name: "delete(owner)||delete(owner)", init: []int{0, -1}, tasks: [][]Op{{del("init0", 0)}, {del("init0", 0)}}},
	{name: "delete(owner);create(B)||delete(owner)", init: []int{0, -1}, tasks: [][]Op{{del("init0", 0), cr(0, 1)}, {del("init0", 0)}}},
	{name: "delete(non-owner)||delete(owner)", init: []int{0, -1}, tasks: [][]Op{{del("init0", 1)}, {del("init0", 0)}}},
	{name: "delete(non-owner);lookup||create(B,n1)", init: []int{0, -1}, tasks: [][]Op{{del("init0", 1), lk(0)}, {cr(1, 1)}}},
	{name: "lookup;lookup||delete(owner);create(B)", init: []int{0, -1}, tasks: [][]Op{{lk(0), lk(0)}, {del("init0", 0), cr(0, 1)}}},
	{name: "update(inactive)||delete(owner);create(B)", init: []int{0, -1}, tasks: [][]Op{{upd("init0", "inactive")}, {del("init0", 0), cr(0, 1)}}},
	{name: "update(expired);cleanup||delete(owner);create(B)", init: []int{0, -1}, tasks: [][]Op{{upd("init0", "expired"), {Do: "cleanup"}}, {del("init0", 0), cr(0, 1)}}, thorough: true},
	{name: "lookup;delete(found,as B)||delete(owner);create(B)", init: []int{0, -1}, tasks: [][]Op{{lk(0), del("found", 2)}, {del("init0", 0), cr(0, 2)}}},
	{name: "lookup;delete(found,non-owner)||delete(owner);create(B)", init: []int{0, -1}, tasks: [][]Op{{lk(0), del("found", 1)}, {del("init0", 0), cr(0, 2)}}},
	{name: "create(B) on owned name [claim fails]||lookup", init: []int{0, -1}, tasks: [][]Op{{cr(0, 1)}, {lk(0)}}, fault: 1},
	{name: "create(B) on owned name [claim fails, answer lost]||lookup", init: []int{0, -1}, tasks: [][]Op{{cr(0, 1)}, {lk(0)}}, fault: 1, lost: true},
	{name: "create(B) on owned name [claim fails]||create(C)", init: []int{0, -1}, tasks: [][]Op{{cr(0, 1)}, {cr(0, 2)}}, fault: 1},
	{name: "create(B) on owned name [2nd claim fails]||create(C);lookup", init: []int{0, -1}, tasks: [][]Op{{cr(0, 1)}, {cr(0, 2), lk(0)}}, fault: 2, lost: true},
	{name: "create(A) fresh [claim fails, answer lost]||create(B)", init: []int{-1, -1}, tasks: [][]Op{{cr(0, 0)}, {cr(0, 1)}}, fault: 1, lost: true},
	{name: "create(A) fresh [claim fails]||create(B);delete(own)", init: []int{-1, -1}, tasks: [][]Op{{cr(0, 0)}, {cr(0, 1), del("own", 1)}}, fault: 1},
	{name: "delete(owner);create(B) [claim fails]||create(C)", init: []int{0, -1}, tasks: [][]Op{{del("init0", 0), cr(0, 1)}, {cr(0, 2)}}, fault: 1},
	{name: "delete(owner) [record delete fails]||create(B)", init: []int{0, -1}, tasks: [][]Op{{del("init0", 0)}, {cr(0, 1)}}, fault: 1, failOn: "record-delete"},
	{name: "delete(owner) [record delete fails, answer lost]||create(B)", init: []int{0, -1}, tasks: [][]Op{{del("init0", 0)}, {cr(0, 1)}}, fault: 1, lost: true, failOn: "record-delete"},
	{name: "delete(owner) [record delete fails];delete(owner)||create(B);lookup", init: []int{0, -1}, tasks: [][]Op{{del("init0", 0), del("init0", 0)}, {cr(0, 1), lk(0)}}, fault: 1, failOn: "record-delete"},
	{name: "delete(owner) [record delete fails]||create(B);delete(own)", init: []int{0, -1}, tasks: [][]Op{{del("init0", 0)}, {cr(0, 1), del("own", 1)}}, fault: 1, failOn: "record-delete"},
	{name: "lookup||delete(owner)||create(B);lookup (one repository instance)", init: []int{0, -1}, tasks: [][]Op{{lk(0)}, {del("init0", 0)}, {cr(0, 1), lk(0)}}, sameNode: true, stallMs: 250},
	{name: "delete(owner)||delete(owner)||create(B)", init: []int{0, -1}, tasks: [][]Op{{del("init0", 0)}, {del("init0", 0)}, {cr(0, 1)}}, thorough: true},
}

func TestExhaustive(t *testing.T) {
	stall = 2 * time.Second
	defer func() { stall = 60 * time.Millisecond }()
	idx, total := 0, 0
	for _, prog := range dfsProgs {
		for _, shared := range []bool{false, true} {
			for _, fastLists := range []bool{true, false} {
				idx++
				if !vkit.Mine(idx) {
					continue
				}
				if prog.thorough && !vkit.Thorough() {
					continue
				}
				if !fastLists && !vkit.Thorough() && len(prog.tasks[0])+len(prog.tasks[1]) > 2 {
					continue // quick: list operations are scheduled for the one-operation-per-task programs only
				}
				if len(prog.tasks) > 2 && !fastLists {
					continue // three tasks with list operations scheduled: tree too large
				}
				if prog.thorough && !fastLists {
					continue // tree too large with list operations scheduled
				}
				c := Case{Shared: shared, FastLists: fastLists, AtomicIDs: !prog.gatedIDs, Init: prog.init, FailAt: prog.fault - 1, Lost: prog.lost, FailOn: prog.failOn}
				for i, ops := range prog.tasks {
					n := i % 2
					if prog.sameNode {
						n = 0
					}
					c.Tasks = append(c.Tasks, TaskC{Node: n, Ops: ops})
				}
				if prog.stallMs > 0 {
					stall = time.Duration(prog.stallMs) * time.Millisecond
				} else {
					stall = 2 * time.Second
				}
				d := &vkit.DFS{}
				n := 0
				const cap = 30000
				for {
					r := runCase(c, d.Choose)
					c.Picks = d.Trace()
					report(t, c, r, "dfs/"+prog.name)
					n++
					if !d.Next() || n > cap {
						break
					}
				}
				total += n
				vkit.Exhaustive(fmt.Sprintf("%s/shared=%v/lists-scheduled=%v", prog.name, shared, !fastLists), n <= cap && d.Diverged == 0)
				if d.Diverged > 0 {
					vkit.AddExtra("dfs_diverged_choices", int64(d.Diverged))
				}
			}
		}
	}
	vkit.AddExtra("dfs_schedules", int64(total))
}

// TestPerNodeCounter pins the consequence of finding C14/op-ignores-category/Incr for this
// property: with a shared tier every node counts tunnox:http_domain:next_id in its own
// local cache, so two nodes mint the same mapping id and the second record overwrites the
// first (sequential, no schedule needed).
func TestPerNodeCounter(t *testing.T) {
	if vkit.Shard() != 0 {
		t.Skip("single shard")
	}
	ctx := context.Background()
	shared := vkit.NewGateCache(nil, "shared")
	var rs []*repos.HTTPDomainMappingRepository
	for i := 0; i < 2; i++ {
		h := hybrid.NewWithSharedCache(ctx, vkit.NewGateCache(nil, "local"), shared, nil, hybrid.DefaultConfig())
		defer h.Close()
		rs = append(rs, repos.NewHTTPDomainMappingRepository(repos.NewRepository(h), []string{baseDomain}))
	}
	a, err1 := rs[0].CreateMapping(ctx, 1001, "app", baseDomain, targetHost(1001), targetPort(1001))
	b, err2 := rs[1].CreateMapping(ctx, 1002, "web", baseDomain, targetHost(1002), targetPort(1002))
	c := Case{Shared: true, Init: []int{-1, -1}, FailAt: -1, Tasks: []TaskC{{Node: 0, Ops: []Op{cr(0, 0)}}, {Node: 1, Ops: []Op{cr(1, 1)}}}}
	if err1 != nil || err2 != nil {
		t.Fatalf("setup: %v %v", err1, err2)
	}
	got, err := rs[0].LookupByDomain(ctx, "app."+baseDomain)
	if a.ID == b.ID || (err == nil && got.ClientID != 1001) {
		owner := int64(0)
		if got != nil {
			owner = got.ClientID
		}
		vkit.Violation(t, "C19/id-counter/per-node-counter/duplicate-mapping-id", fmt.Sprintf("node 1 created app.%s as %s (client 1001), node 2 then created web.%s as %s (client 1002); LookupByDomain(app.%s) now returns the mapping of client %d", baseDomain, a.ID, baseDomain, b.ID, baseDomain, owner), c)
		vkit.Case("known:per-node-counter", true, "per-node-counter")
		return
	}
	vkit.Case("per-node-counter", true, "per-node-counter")
}

// TestCounterExpiry pins a single-node consequence of how the id counter is stored:
// hybrid.Incr writes tunnox:http_domain:next_id with the default cache TTL (1 h), so after
// an idle period the counter is gone while the mappings it numbered are still there; the
// next CreateMapping mints hdm_1 again and overwrites the record of the first mapping.
// The TTL is observed on the real store; its expiry is emulated by deleting the key (what
// the memory backend does at expiry) — no wall-clock wait.
func TestCounterExpiry(t *testing.T) {
	if vkit.Shard() != 0 {
		t.Skip("single shard")
	}
	ctx := context.Background()
	cache := vkit.NewGateCache(nil, "cache")
	h := hybrid.NewWithSharedCache(ctx, cache, nil, nil, hybrid.DefaultConfig())
	defer h.Close()
	repo := repos.NewHTTPDomainMappingRepository(repos.NewRepository(h), []string{baseDomain})
	a, err := repo.CreateMapping(ctx, 1001, "app", baseDomain, targetHost(1001), targetPort(1001))
	if err != nil {
		t.Fatalf("setup: %v", err)
	}
	ttl, err := cache.Raw().GetExpiration(repos.KeyHTTPDomainNextID)
	c := Case{Init: []int{0, -1}, FailAt: -1, Tasks: []TaskC{{Ops: []Op{cr(1, 1)}}}}
	if err != nil || ttl <= 0 || ttl > 48*time.Hour {
		// no finite TTL on the counter: nothing to pin
		vkit.Case("counter-expiry", true, "counter-expiry")
		return
	}
	cache.Raw().Delete(repos.KeyHTTPDomainNextID) // the counter expires
	b, err := repo.CreateMapping(ctx, 1002, "web", baseDomain, targetHost(1002), targetPort(1002))
	if err != nil {
		t.Fatalf("create after expiry: %v", err)
	}
	got, lerr := repo.LookupByDomain(ctx, "app."+baseDomain)
	if a.ID == b.ID || (lerr == nil && got.ClientID != 1001) {
		owner := int64(0)
		if got != nil {
			owner = got.ClientID
		}
		vkit.Violation(t, "C19/id-counter/counter-has-ttl/duplicate-mapping-id", fmt.Sprintf("tunnox:http_domain:next_id is stored with TTL %v; once it has expired, CreateMapping(web.%s, client 1002) returns %s, the id of the existing app.%s of client 1001 (%s); LookupByDomain(app.%s) now returns the mapping of client %d", ttl.Round(time.Minute), baseDomain, b.ID, baseDomain, a.ID, baseDomain, owner), c)
		vkit.Case("known:counter-expiry", true, "counter-expiry")
		return
	}
	vkit.Case("counter-expiry", true, "counter-expiry")
}

func TestReplay(t *testing.T) {
	path := vkit.Replaying()
	if path == "" {
		t.Skip("no VERIF_REPLAY")
	}
	var raw map[string]json.RawMessage
	var c Case
	key, err := vkit.LoadReplay(path, &raw)
	if err != nil {
		t.Fatal(err)
	}
	if strings.Contains(key, "/identity/") || strings.Contains(key, "/claim/") {
		replayIdentity(t, path)
		return
	}
	if strings.Contains(key, "/contention/") {
		replayContention(t, path)
		return
	}
	if strings.Contains(key, "/proxy/") {
		replayProxy(t, path)
		return
	}
	if strings.Contains(key, "per-node-counter") {
		TestPerNodeCounter(t)
		return
	}
	if strings.Contains(key, "counter-has-ttl") {
		TestCounterExpiry(t)
		return
	}
	if _, err := vkit.LoadReplay(path, &c); err != nil {
		t.Fatal(err)
	}
	p := &vkit.Picks{List: c.Picks}
	report(t, c, runCase(c, p.Choose), "replay")
}
