package c19

import (
	"context"
	"encoding/json"
	"errors"
	"fmt"
	"net/http"
	"net/http/httptest"
	"net/url"
	"strings"
	"testing"
	"time"

	"pgregory.net/rapid"

	appserver "tunnox-core/internal/app/server"
	"tunnox-core/internal/cloud/models"
	"tunnox-core/internal/cloud/repos"
	"tunnox-core/internal/command"
	"tunnox-core/internal/core/storage/hybrid"
	"tunnox-core/internal/core/storage/memory"
	"tunnox-core/internal/httpservice"
	"tunnox-core/internal/httpservice/modules/domainproxy"
	"tunnox-core/internal/packet"
	"tunnox-core/internal/protocol/httptypes"
	"tunnox-core/verif/vkit"
	"tunnox-core/verif/vkit/miniserver"
)

// ---------------------------------------------------------------------------
// Part 2: sequential histories + Host spellings, black-box through ServeHTTP

// Names 3.. differ from another name ONLY by the case of the subdomain. The repository is
// case-preserving (CreateMapping, uniqueness and index keys compare bytes), so each of them
// can be owned by a different client than its twin.
var pNames = []struct{ sub, base string }{
	{"app", "tunnox.net"}, {"web", "tunnox.net"}, {"app", "tunnel.test.local"},
	{"App", "tunnox.net"}, {"MyApp", "tunnox.net"}, {"myapp", "tunnox.net"}, {"APP", "tunnel.test.local"},
}

// nameDraw biases generated steps towards the case twins.
var nameDraw = []int{0, 0, 1, 2, 3, 3, 4, 4, 5, 5, 6}

func pFull(i int) string { return pNames[i].sub + "." + pNames[i].base }

type PStep struct {
	Do     string `json:"do"`               // create | delete | update | request | offline | online
	Name   int    `json:"name,omitempty"`   // name index
	Client int    `json:"client,omitempty"` // acting client index
	Set    string `json:"set,omitempty"`    // update: inactive | active | expired | future | retarget
	Host   string `json:"host,omitempty"`   // request: literal Host header
	Kind   string `json:"kind,omitempty"`   // request: small | large | websocket
	Stale  bool   `json:"stale,omitempty"`  // delete: use the id of the previous (already deleted) mapping of the name
	Via    string `json:"via,omitempty"`    // create: "" = repository; "command" = HTTPDomainCreateHandler over the server's repository adapter (availability check + create, the path a client's command takes)
	Anon   bool   `json:"anon,omitempty"`   // delete: the caller has no identity (client id 0: unauthenticated connection / internal caller)
}

type PCase struct {
	Registry []int   `json:"registry"` // per name: client index registered in the legacy in-memory DomainRegistry, -1 none
	Cloud    []int   `json:"cloud"`    // per name: client index owning a legacy HTTP PortMapping in cloud control, -1 none
	Steps    []PStep `json:"steps"`
	// CacheTTLms > 0: the repository runs on a hybrid(memory) storage whose DefaultCacheTTL is
	// this short (production: 1 h) and the history contains "wait" steps that outlast it:
	// time passes beyond the cache TTL while mappings are owned and unexpired.
	CacheTTLms int `json:"cache_ttl_ms,omitempty"`
}

// counterKeeper keeps the mapping id counter from expiring with the shortened cache TTL
// (hybrid.Incr writes it with the default cache TTL: finding C19/id-counter/counter-has-ttl,
// pinned separately by TestCounterExpiry).
type counterKeeper struct{ *memory.Storage }

func (c counterKeeper) Set(key string, v any, ttl time.Duration) error {
	if key == repos.KeyHTTPDomainNextID {
		ttl = 0
	}
	return c.Storage.Set(key, v, ttl)
}

type routed struct {
	via    string
	client int64
	url    string
	mapID  string
}

type acc struct{}

func (acc) GetConnID() string     { return "conn-x" }
func (acc) GetRemoteAddr() string { return "1.2.3.4:5" }

// sessDouble records who a request was routed to.
type sessDouble struct {
	offline map[int64]bool
	calls   []routed
}

func (s *sessDouble) GetControlConnectionInterface(clientID int64) httpservice.ControlConnectionAccessor {
	if s.offline[clientID] {
		return nil
	}
	return acc{}
}
func (s *sessDouble) BroadcastConfigPush(int64, string) error { return nil }
func (s *sessDouble) GetNodeID() string                       { return "node-1" }
func (s *sessDouble) NotifyClientUpdate(int64)                {}
func (s *sessDouble) SendHTTPProxyRequest(clientID int64, req *httptypes.HTTPProxyRequest) (*httptypes.HTTPProxyResponse, error) {
	s.calls = append(s.calls, routed{via: "command", client: clientID, url: req.URL})
	return &httptypes.HTTPProxyResponse{RequestID: req.RequestID, StatusCode: 200, Body: []byte("ok")}, nil
}
func (s *sessDouble) RequestTunnelForHTTP(clientID int64, mappingID, targetURL, method string) (httpservice.TunnelConnectionInterface, error) {
	s.calls = append(s.calls, routed{via: "tunnel", client: clientID, url: targetURL, mapID: mappingID})
	return nil, errors.New("verif: no tunnel in this double")
}

type pOwner struct {
	id      string
	client  int64
	host    string
	port    int
	status  repos.HTTPDomainMappingStatus
	expired bool
}

type pWorld struct {
	srv  *miniserver.Server
	repo *repos.HTTPDomainMappingRepository
	reg  *httpservice.DomainRegistry
	sess *sessDouble
	mod  *domainproxy.DomainProxyModule
	// model
	owner  map[int]*pOwner // repository owner per name
	lastID map[int]string  // id of the previously deleted mapping per name
	regOwn map[int]int64
	cldOwn map[int]int64
}

func regPort(c int64) int   { return int(7000 + c%1000) }
func cloudPort(c int64) int { return int(6000 + c%1000) }

func newPWorld(c PCase) (*pWorld, error) {
	srv, err := miniserver.New(miniserver.Options{NoCommands: true, NoSecurityGate: true})
	if err != nil {
		return nil, err
	}
	w := &pWorld{srv: srv, repo: srv.Domains, sess: &sessDouble{offline: map[int64]bool{}},
		owner: map[int]*pOwner{}, lastID: map[int]string{}, regOwn: map[int]int64{}, cldOwn: map[int]int64{}}
	if c.CacheTTLms > 0 {
		cfg := hybrid.DefaultConfig()
		cfg.DefaultCacheTTL = time.Duration(c.CacheTTLms) * time.Millisecond
		h := hybrid.NewWithSharedCache(srv.Ctx, counterKeeper{memory.New(srv.Ctx)}, nil, nil, cfg)
		w.repo = repos.NewHTTPDomainMappingRepository(repos.NewRepository(h), []string{"tunnox.net", "tunnel.test.local"})
	}
	w.reg = httpservice.NewDomainRegistry([]string{"tunnox.net", "tunnel.test.local"})
	for i, ci := range c.Cloud {
		if ci < 0 || i >= len(pNames) {
			continue
		}
		cl := clientIDs[ci%len(clientIDs)]
		_, err := srv.Cloud.CreatePortMapping(&models.PortMapping{Protocol: models.ProtocolHTTP, HTTPSubdomain: pNames[i].sub, HTTPBaseDomain: pNames[i].base,
			TargetClientID: cl, ListenClientID: cl, TargetHost: targetHost(cl), TargetPort: cloudPort(cl), Status: models.MappingStatusActive})
		if err != nil {
			srv.Close()
			return nil, err
		}
		w.cldOwn[i] = cl
	}
	for i, ci := range c.Registry {
		if ci < 0 || i >= len(pNames) {
			continue
		}
		cl := clientIDs[ci%len(clientIDs)]
		err := w.reg.Register(&models.PortMapping{ID: fmt.Sprintf("legacy_%d", i), Protocol: models.ProtocolHTTP, HTTPSubdomain: pNames[i].sub, HTTPBaseDomain: pNames[i].base,
			TargetClientID: cl, TargetHost: targetHost(cl), TargetPort: regPort(cl), Status: models.MappingStatusActive})
		if err != nil {
			srv.Close()
			return nil, err
		}
		w.regOwn[i] = cl
	}
	w.mod = domainproxy.NewDomainProxyModule(srv.Ctx, &httpservice.DomainProxyModuleConfig{Enabled: true, BaseDomains: []string{"tunnox.net", "tunnel.test.local"},
		DefaultScheme: "http", CommandModeThreshold: 64, RequestTimeout: 2 * time.Second})
	w.mod.SetDependencies(&httpservice.ModuleDependencies{SessionMgr: w.sess, CloudControl: srv.Cloud, Storage: srv.Storage,
		DomainRegistry: w.reg, HTTPDomainMappingRepo: w.repo})
	return w, nil
}

// hostDomains: the domains a Host header can denote: the host itself, or the host with a
// trailing ":port" removed (the implementation's documented rule: cut at the last colon).
// exact = byte-for-byte; fold = lower-cased and without one trailing dot, which is the most
// an implementation may normalise — and only when no stored name equals the Host's domain
// byte-for-byte (see candidates).
func hostDomains(h string) (exact, fold map[string]bool) {
	exact, fold = map[string]bool{}, map[string]bool{}
	add := func(d string) {
		exact[d] = true
		fold[foldName(d)] = true
	}
	add(h)
	if i := strings.LastIndexByte(h, ':'); i >= 0 {
		add(h[:i])
	}
	return
}

func foldName(d string) string { return strings.TrimSuffix(strings.ToLower(d), ".") }

// candidates: the stored names whose owners may receive a request with this Host. If some
// name that has an owner (in any lookup source) equals the Host's domain byte-for-byte, only
// byte-equal names count: `MyApp.x` and `myapp.x` are different names with different
// owners, and Host `MyApp.x` belongs to the first. Otherwise the case/trailing-dot folded
// matches are tolerated (an implementation may normalise a Host that matches nothing as is).
func (w *pWorld) candidates(h string) []int {
	exact, fold := hostDomains(h)
	has := func(i int) bool {
		_, r := w.regOwn[i]
		_, c := w.cldOwn[i]
		return w.owner[i] != nil || r || c
	}
	var ex, fo []int
	for i := range pNames {
		if !has(i) {
			continue
		}
		if exact[pFull(i)] {
			ex = append(ex, i)
		}
		if fold[foldName(pFull(i))] {
			fo = append(fo, i)
		}
	}
	if len(ex) > 0 {
		return ex
	}
	return fo
}

func plainSpelling(h string, name string) bool {
	if h == name {
		return true
	}
	if strings.HasPrefix(h, name+":") {
		p := h[len(name)+1:]
		if p == "" || len(p) > 5 {
			return false
		}
		for _, ch := range p {
			if ch < '0' || ch > '9' {
				return false
			}
		}
		return true
	}
	return false
}

type pResult struct {
	feats       map[string]int
	key, detail string
	routedN     int
	rejectedN   int
	requests    int
}

func (r *pResult) feat(f string) {
	if r.feats == nil {
		r.feats = map[string]int{}
	}
	r.feats[f]++
}

func runProxyCase(c PCase) pResult {
	var r pResult
	w, err := newPWorld(c)
	if err != nil {
		return pResult{key: "C19/harness/proxy-setup-failed", detail: err.Error()}
	}
	defer w.srv.Close()
	ctx := context.Background()
	fail := func(symptom, detail string, si int) {
		if r.key == "" {
			r.key = "C19/proxy/" + symptom
			b, _ := json.Marshal(c.Steps[:si+1])
			r.detail = fmt.Sprintf("step %d: %s; history: %s", si, detail, b)
		}
	}
	for si, st := range c.Steps {
		if r.key != "" {
			break
		}
		ni := ((st.Name % len(pNames)) + len(pNames)) % len(pNames)
		name := pFull(ni)
		client := clientIDs[((st.Client%len(clientIDs))+len(clientIDs))%len(clientIDs)]
		switch st.Do {
		case "wait":
			time.Sleep(time.Duration(c.CacheTTLms)*time.Millisecond*5/2 + 20*time.Millisecond)
			r.feat("time-passes-beyond-cache-ttl")
		case "offline":
			w.sess.offline[client] = true
		case "online":
			delete(w.sess.offline, client)
		case "create":
			cur := w.owner[ni]
			if st.Via == "command" {
				// the holder's lifetime is whatever the history made it: never expires (created
				// through the repository: ExpiresAt 0), future or past (update steps, command TTL)
				r.feat("claim-through-command-path")
				ad := appserver.NewHTTPDomainRepositoryAdapter(w.repo)
				h := command.NewHTTPDomainCreateHandler(ad, ad)
				body, _ := json.Marshal(packet.HTTPDomainCreateRequest{TargetURL: fmt.Sprintf("http://%s:%d", targetHost(client), targetPort(client)), Subdomain: pNames[ni].sub, BaseDomain: pNames[ni].base})
				resp, herr := h.Handle(&command.CommandContext{ConnectionID: "conn-h", ClientID: client, RequestBody: string(body)})
				okc := herr == nil && resp != nil && resp.Success
				switch {
				case okc && cur != nil && !cur.expired:
					got, _ := w.repo.LookupByDomain(ctx, name)
					fail("name-claimed-twice", fmt.Sprintf("HTTPDomainCreate(%s) by client %d was accepted while %s of client %d owns the name (status %s, not expired); the name now resolves to %+v", name, client, cur.id, cur.client, cur.status, got), si)
				case okc:
					// free name, or an expired holder that the implementation chose to reclaim
					got, lerr := w.repo.LookupByDomain(ctx, name)
					if lerr != nil || got.ClientID != client {
						fail("fresh-claim-does-not-route", fmt.Sprintf("HTTPDomainCreate(%s) by client %d accepted, lookup = %+v %v", name, client, got, lerr), si)
						break
					}
					if cur != nil {
						w.lastID[ni] = cur.id
					}
					w.owner[ni] = &pOwner{id: got.ID, client: client, host: got.TargetHost, port: got.TargetPort, status: got.Status, expired: got.ExpiresAt != 0 && got.ExpiresAt < time.Now().Unix()}
				}
				break
			}
			mp, err := w.repo.CreateMapping(ctx, client, pNames[ni].sub, pNames[ni].base, targetHost(client), targetPort(client))
			switch {
			case cur != nil && err == nil:
				fail("name-claimed-twice", fmt.Sprintf("CreateMapping(%s) by client %d succeeded (%s) while %s of client %d owns the name", name, client, mp.ID, cur.id, cur.client), si)
			case cur == nil && err != nil:
				fail("name-not-claimable", fmt.Sprintf("CreateMapping(%s) by client %d failed although no mapping owns the name: %v", name, client, err), si)
			case err == nil:
				w.owner[ni] = &pOwner{id: mp.ID, client: client, host: mp.TargetHost, port: mp.TargetPort, status: repos.HTTPDomainMappingStatusActive}
			}
		case "delete":
			cur := w.owner[ni]
			id := ""
			if cur != nil {
				id = cur.id
			}
			if st.Stale {
				id = w.lastID[ni]
			}
			if id == "" {
				continue
			}
			if st.Anon {
				client = 0
			}
			err := w.repo.DeleteMapping(ctx, id, client)
			switch {
			case cur != nil && id == cur.id && client != cur.client:
				if err == nil {
					fail("non-owner-delete-accepted", fmt.Sprintf("DeleteMapping(%s of client %d) by client %d returned nil", id, cur.client, client), si)
				}
			case cur != nil && id == cur.id:
				if err != nil {
					fail("owner-delete-failed", fmt.Sprintf("DeleteMapping(%s) by its owner %d: %v", id, client, err), si)
				}
				w.lastID[ni] = id
				delete(w.owner, ni)
			default:
				// stale id (already deleted): must not disturb the current owner — checked below
			}
		case "update":
			cur := w.owner[ni]
			if cur == nil {
				continue
			}
			mp, err := w.repo.GetMapping(ctx, cur.id)
			if err != nil {
				fail("owner-mapping-unreadable", fmt.Sprintf("GetMapping(%s): %v", cur.id, err), si)
				continue
			}
			switch st.Set {
			case "inactive":
				mp.Status = repos.HTTPDomainMappingStatusInactive
			case "active":
				mp.Status = repos.HTTPDomainMappingStatusActive
			case "expired":
				mp.ExpiresAt = time.Now().Unix() - 1000
			case "future":
				mp.ExpiresAt = time.Now().Unix() + 100000
			case "retarget":
				mp.TargetPort = cur.port + 100
			case "status-expired":
				// the status value "expired" with no (or a future) expiry time: only an ACTIVE mapping routes
				mp.Status = repos.HTTPDomainMappingStatusExpired
			case "status-unknown":
				mp.Status = repos.HTTPDomainMappingStatus("suspended")
			case "status-empty":
				mp.Status = ""
			}
			if err := w.repo.UpdateMapping(ctx, mp); err != nil {
				fail("owner-update-failed", fmt.Sprintf("UpdateMapping(%s): %v", cur.id, err), si)
				continue
			}
			cur.status, cur.port = mp.Status, mp.TargetPort
			cur.expired = mp.ExpiresAt != 0 && mp.ExpiresAt < time.Now().Unix()
		case "request":
			r.requests++
			w.request(st, si, &r, fail)
		}
		// after every step the repository agrees with the model for every name
		for i := range pNames {
			got, err := w.repo.LookupByDomain(ctx, pFull(i))
			cur := w.owner[i]
			switch {
			case cur == nil && err == nil:
				fail("unowned-name-resolves", fmt.Sprintf("LookupByDomain(%s) = %s of client %d but no mapping owns the name", pFull(i), got.ID, got.ClientID), si)
			case cur != nil && (err != nil || got.ID != cur.id || got.ClientID != cur.client || got.FullDomain != pFull(i)):
				fail("owned-name-does-not-resolve-to-owner", fmt.Sprintf("LookupByDomain(%s) = %+v, %v; owner is %s of client %d", pFull(i), got, err, cur.id, cur.client), si)
			}
		}
	}
	for _, c := range w.sess.calls {
		_ = c
	}
	return r
}

func (w *pWorld) request(st PStep, si int, r *pResult, fail func(string, string, int)) {
	req := httptest.NewRequest("GET", "http://placeholder/path/x?q=1", nil)
	switch st.Kind {
	case "large":
		req = httptest.NewRequest("POST", "http://placeholder/upload", strings.NewReader(strings.Repeat("x", 200)))
	case "websocket":
		req.Header.Set("Upgrade", "websocket")
		req.Header.Set("Connection", "Upgrade")
	}
	req.Host = st.Host
	rec := httptest.NewRecorder()
	before := len(w.sess.calls)
	func() {
		defer func() {
			if p := recover(); p != nil {
				fail("panic-in-servehttp", fmt.Sprintf("Host %q: %v", st.Host, p), si)
			}
		}()
		w.mod.ServeHTTP(rec, req)
	}()
	calls := w.sess.calls[before:]
	cands := w.candidates(st.Host)
	if len(calls) > 1 {
		fail("request-routed-more-than-once", fmt.Sprintf("Host %q: %+v", st.Host, calls), si)
		return
	}
	switch {
	case strings.HasPrefix(st.Host, "["):
		r.feat("host:ipv6-literal")
	case strings.Count(st.Host, ":") > 1:
		r.feat("host:several-colons")
	case strings.Contains(st.Host, ":"):
		r.feat("host:with-port")
	case st.Host == "":
		r.feat("host:empty")
	case st.Host != strings.ToLower(st.Host):
		r.feat("host:upper-or-mixed-case")
	}
	r.feat("request:" + st.Kind)
	if len(cands) > 0 {
		twins := 0
		_, fold := hostDomains(st.Host)
		for i := range pNames {
			if fold[foldName(pFull(i))] && (w.owner[i] != nil) {
				twins++
			}
		}
		if twins >= 2 {
			r.feat("host:matches-two-owned-names-differing-by-case")
		}
	}
	if len(calls) == 0 {
		r.rejectedN++
		for _, i := range cands {
			if cur := w.owner[i]; cur != nil && (cur.status != repos.HTTPDomainMappingStatusActive || cur.expired) {
				r.feat("rejected:inactive-or-expired-owner")
			}
		}
		// liveness for the plain spellings: name / name:port of a live, active, online repository mapping
		for i := range pNames {
			cur := w.owner[i]
			if cur != nil && plainSpelling(st.Host, pFull(i)) && cur.status == repos.HTTPDomainMappingStatusActive && !cur.expired && !w.sess.offline[cur.client] {
				fail("owner-not-routed", fmt.Sprintf("Host %q (%s request) was rejected with %d although %s of client %d is active and online", st.Host, st.Kind, rec.Code, cur.id, cur.client), si)
			}
		}
		return
	}
	r.routedN++
	call := calls[0]
	u, err := url.Parse(call.url)
	if err != nil {
		fail("routed-to-unparsable-target", call.url, si)
		return
	}
	// acceptable (client, target) pairs
	ok := false
	var why []string
	var dormant *pOwner
	for _, i := range cands {
		if cur := w.owner[i]; cur != nil {
			// the repository is authoritative for the name: only its owner, only while active and unexpired
			if cur.status != repos.HTTPDomainMappingStatusActive || cur.expired {
				dormant = cur
				why = append(why, fmt.Sprintf("repository mapping %s of %s is status=%s expired=%v: nobody", cur.id, pFull(i), cur.status, cur.expired))
				continue
			}
			if call.client == cur.client && u.Host == fmt.Sprintf("%s:%d", cur.host, cur.port) {
				ok = true
				r.feat("routed:repository-owner")
				if _, has := w.regOwn[i]; has {
					r.feat("routed:repository-owner-over-legacy-entry")
				}
				if pFull(i) != strings.ToLower(pFull(i)) {
					r.feat("routed:owner-of-mixed-case-name")
				}
			}
			why = append(why, fmt.Sprintf("repository owner of %s = client %d %s:%d", pFull(i), cur.client, cur.host, cur.port))
			continue
		}
		if cl, has := w.regOwn[i]; has {
			if call.client == cl && u.Host == fmt.Sprintf("%s:%d", targetHost(cl), regPort(cl)) {
				ok = true
				r.feat("routed:legacy-registry")
			}
			why = append(why, fmt.Sprintf("registry owner of %s = client %d", pFull(i), cl))
		}
		if cl, has := w.cldOwn[i]; has {
			if call.client == cl && u.Host == fmt.Sprintf("%s:%d", targetHost(cl), cloudPort(cl)) {
				ok = true
				r.feat("routed:cloud-control")
			}
			why = append(why, fmt.Sprintf("cloud-control owner of %s = client %d", pFull(i), cl))
		}
	}
	if !ok && dormant != nil && call.client == dormant.client {
		fail("inactive-or-expired-mapping-routed", fmt.Sprintf("Host %q routed to client %d %s although mapping %s is status=%s expired=%v", st.Host, call.client, call.url, dormant.id, dormant.status, dormant.expired), si)
		return
	}
	if !ok {
		fail("routed-to-non-owner", fmt.Sprintf("Host %q (%s request) was routed to client %d target %s; rightful: %v", st.Host, st.Kind, call.client, call.url, why), si)
		return
	}
	if w.sess.offline[call.client] {
		fail("routed-to-offline-client", fmt.Sprintf("Host %q -> client %d", st.Host, call.client), si)
	}
}

// ---------------------------------------------------------------------------
// Host spellings

var v6s = []string{"[::1]", "[2001:db8::1]", "[fe80::1%25eth0]", "[::ffff:10.0.0.1]"}

func spellings(name string, other string) []string {
	up := strings.ToUpper(name)
	low := strings.ToLower(name)
	mixed := strings.ToUpper(name[:1]) + name[1:]
	swapped := strings.Map(func(r rune) rune {
		switch {
		case r >= 'a' && r <= 'z':
			return r - 32
		case r >= 'A' && r <= 'Z':
			return r + 32
		}
		return r
	}, name)
	long := strings.Repeat("a", 300) + "." + name
	out := []string{
		name, name + ":80", name + ":8080", name + ":65535", name + ":0", name + ":",
		up, mixed, up + ":443", low, low + ":80", swapped, swapped + ":8080", other, other + ":80", strings.ToUpper(other), name + ".", name + ".:80",
		name + ":80:90", name + ":x", ":" + name, other + ":" + name, name + ":" + other, name + ":80:" + other,
		" " + name, name + " ", name + "\t", "x" + name, name + "x", "." + name, "www." + name, name + "/", name + "@" + other, other + "@" + name,
		strings.TrimSuffix(name, ".net"), long, long + ":80", "", ":", ":80", "::", "[" + name + "]", "[" + name + "]:80",
		name + ":80@" + other, other + ":80@" + name, name + "%00", name + "\x00" + other, name + "#" + other,
	}
	for _, v := range v6s {
		out = append(out, v, v+":80", v+":"+name, name+":"+v)
	}
	return out
}

func genHost(t *rapid.T, l string) string {
	a := rapid.SampledFrom(nameDraw).Draw(t, l+"a")
	b := rapid.SampledFrom(nameDraw).Draw(t, l+"b")
	sp := spellings(pFull(a), pFull(b))
	switch rapid.IntRange(0, 9).Draw(t, l+"mode") {
	case 0, 1, 2:
		return pFull(a)
	case 3:
		return pFull(a) + ":" + fmt.Sprint(rapid.IntRange(0, 70000).Draw(t, l+"port"))
	case 4:
		// random mutation of a name
		bs := []byte(pFull(a))
		i := rapid.IntRange(0, len(bs)-1).Draw(t, l+"i")
		bs[i] = rapid.SampledFrom([]byte{':', '.', 'A', 'x', '[', ']', ' ', '%', 0}).Draw(t, l+"ch")
		return string(bs)
	}
	return rapid.SampledFrom(sp).Draw(t, l+"sp")
}

func genPStep(t *rapid.T, l string) PStep {
	switch rapid.IntRange(0, 11).Draw(t, l+"do") {
	case 0, 1:
		return PStep{Do: "create", Name: rapid.SampledFrom(nameDraw).Draw(t, l+"n"), Client: rapid.IntRange(0, 2).Draw(t, l+"c"), Via: rapid.SampledFrom([]string{"", "", "command"}).Draw(t, l+"via")}
	case 2:
		return PStep{Do: "delete", Name: rapid.SampledFrom(nameDraw).Draw(t, l+"n"), Client: rapid.IntRange(0, 2).Draw(t, l+"c"), Stale: rapid.IntRange(0, 3).Draw(t, l+"stale") == 0, Anon: rapid.IntRange(0, 4).Draw(t, l+"anon") == 0}
	case 3:
		return PStep{Do: "update", Name: rapid.SampledFrom(nameDraw).Draw(t, l+"n"), Set: rapid.SampledFrom([]string{"inactive", "active", "expired", "future", "retarget", "status-expired", "status-unknown", "status-empty"}).Draw(t, l+"set")}
	case 4:
		if rapid.Bool().Draw(t, l+"on") {
			return PStep{Do: "online", Client: rapid.IntRange(0, 2).Draw(t, l+"c")}
		}
		return PStep{Do: "offline", Client: rapid.IntRange(0, 2).Draw(t, l+"c")}
	}
	return PStep{Do: "request", Host: genHost(t, l), Kind: rapid.SampledFrom([]string{"small", "small", "large", "websocket"}).Draw(t, l+"kind")}
}

func reportProxy(t vkit.TB, c PCase, r pResult, class string) {
	if r.key != "" {
		vkit.Violation(t, r.key, r.detail, c)
		vkit.Case("known:"+class, true, fmt.Sprintf("%+v", c))
		return
	}
	vkit.Case(class, r.routedN > 0 && r.rejectedN > 0, fmt.Sprintf("%+v", c))
	for f, n := range r.feats {
		for i := 0; i < n; i++ {
			vkit.Class("proxy-feat:" + f)
		}
	}
	vkit.AddExtra("proxy_requests", int64(r.requests))
	vkit.AddExtra("proxy_requests_routed", int64(r.routedN))
	vkit.AddExtra("proxy_requests_rejected", int64(r.rejectedN))
}

// TestProxyHistories: rapid state machine over create / update / delete (owner, non-owner,
// stale id) / expire orders with requests in every Host spelling in between.
func TestProxyHistories(t *testing.T) {
	vkit.Check(t, 12000, 100000, func(t *rapid.T) {
		c := PCase{}
		for i := range pNames {
			c.Registry = append(c.Registry, rapid.IntRange(-3, 2).Draw(t, fmt.Sprintf("reg%d", i)))
			c.Cloud = append(c.Cloud, rapid.IntRange(-3, 2).Draw(t, fmt.Sprintf("cloud%d", i)))
		}
		n := rapid.IntRange(1, 14).Draw(t, "n")
		for i := 0; i < n; i++ {
			c.Steps = append(c.Steps, genPStep(t, fmt.Sprintf("s%d", i)))
		}
		reportProxy(t, c, runProxyCase(c), "proxy/history")
	})
}

// TestProxyHistoriesTimePasses: the same state machine on a storage whose default cache TTL
// is 60 ms, with one or two waits that outlast it: an owned, unexpired mapping must still
// resolve and route to its owner and the name must stay unclaimable for others.
func TestProxyHistoriesTimePasses(t *testing.T) {
	vkit.Check(t, 200, 4000, func(t *rapid.T) {
		c := PCase{CacheTTLms: 60}
		for range pNames {
			c.Registry = append(c.Registry, -1)
			c.Cloud = append(c.Cloud, -1)
		}
		n := rapid.IntRange(3, 10).Draw(t, "n")
		waits := rapid.IntRange(1, 2).Draw(t, "waits")
		at := map[int]bool{}
		for i := 0; i < waits; i++ {
			at[rapid.IntRange(1, n-1).Draw(t, "waitAt")] = true
		}
		c.Steps = append(c.Steps, PStep{Do: "create", Name: rapid.SampledFrom(nameDraw).Draw(t, "n0"), Client: rapid.IntRange(0, 2).Draw(t, "c0")})
		for i := 1; i < n; i++ {
			if at[i] {
				c.Steps = append(c.Steps, PStep{Do: "wait"})
			}
			c.Steps = append(c.Steps, genPStep(t, fmt.Sprintf("s%d", i)))
		}
		reportProxy(t, c, runProxyCase(c), "proxy/history-time-passes")
	})
}

// TestHostSpellingProduct: the full spelling list x request kind x mapping state
// (active / inactive / expired / deleted / never created) x legacy sources, one name owned
// by client A and the other by client B.
func TestHostSpellingProduct(t *testing.T) {
	idx := 0
	states := []string{"active", "inactive", "expired", "status-expired", "status-unknown", "status-empty", "deleted", "none"}
	// (name under test, other name): all-lower-case names, and names that differ from the
	// other one only by case (the other always owned, active, by a different client)
	pairs := [][2]int{{0, 1}, {4, 5}, {5, 4}, {3, 0}, {6, 2}}
	for _, pair := range pairs {
		for _, state := range states {
			for _, legacy := range []int{0, 1, 2, 3} { // bit0: registry has the name for client C, bit1: cloud control has it for client C
				for _, kind := range []string{"small", "large", "websocket"} {
					idx++
					if !vkit.Mine(idx) {
						continue
					}
					c := PCase{}
					for range pNames {
						c.Registry = append(c.Registry, -1)
						c.Cloud = append(c.Cloud, -1)
					}
					if legacy&1 != 0 {
						c.Registry[pair[0]] = 2
					}
					if legacy&2 != 0 {
						c.Cloud[pair[0]] = 2
					}
					var pre []PStep
					pre = append(pre, PStep{Do: "create", Name: pair[1], Client: 1})
					switch state {
					case "active":
						pre = append(pre, PStep{Do: "create", Name: pair[0], Client: 0})
					case "inactive", "expired", "status-expired", "status-unknown", "status-empty":
						pre = append(pre, PStep{Do: "create", Name: pair[0], Client: 0}, PStep{Do: "update", Name: pair[0], Set: state})
					case "deleted":
						pre = append(pre, PStep{Do: "create", Name: pair[0], Client: 0}, PStep{Do: "delete", Name: pair[0], Client: 0})
					}
					c.Steps = pre
					for _, h := range spellings(pFull(pair[0]), pFull(pair[1])) {
						c.Steps = append(c.Steps, PStep{Do: "request", Host: h, Kind: kind})
					}
					r := runProxyCase(c)
					class := "proxy/spelling-product/" + state
					if foldName(pFull(pair[0])) == foldName(pFull(pair[1])) {
						class += "/case-twin-owned-by-other-client"
					}
					reportProxy(t, c, r, class)
				}
			}
		}
	}
	vkit.Exhaustive("host-spelling-product", true)
}

func replayProxy(t *testing.T, path string) {
	var c PCase
	if _, err := vkit.LoadReplay(path, &c); err != nil {
		t.Fatal(err)
	}
	reportProxy(t, c, runProxyCase(c), "proxy/replay")
}

var _ = http.StatusOK
