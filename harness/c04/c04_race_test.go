package c04

import (
	"context"
	"fmt"
	"strings"
	"testing"
	"time"

	"tunnox-core/internal/cloud/models"
	"tunnox-core/internal/core/storage/hybrid"
	"tunnox-core/internal/packet"
	"tunnox-core/internal/security"
	"tunnox-core/verif/vkit"
	"tunnox-core/verif/vkit/miniserver"
)

// ---------------------------------------------------------------------------
// TestStateChangeRace — "a revoked / deleted / deactivated mapping yields no attachment" against
// the server's own concurrent bookkeeping. T1 is a legitimate tunnel open of the listen client by
// mapping id (it validates the mapping and then records the mapping's usage); T2 takes the mapping
// out of service (revoke through the connection-code service, status -> inactive, delete). The
// storage under the whole server is gate-controlled; T2 is run to completion at every point k of
// T1's storage operations in turn (landing-point enumeration: exhaustive for two tasks where one is
// atomic w.r.t. the other's steps). After both have returned, the mapping must be out of service: a
// read shows it invalid/gone and a fresh tunnel open is refused.

type RaceCase struct {
	StateRace string `json:"state_race"` // revoke | deactivate | delete
	LandAt    int    `json:"land_at"`    // T2 runs once T1 has performed this many storage operations
}

var dbgRace = func(string, ...any) {}

type raceOutcome struct {
	key, detail string
	t1ops       int
	landed      bool
}

func runStateRace(c RaceCase) (raceOutcome, error) {
	var out raceOutcome
	g := vkit.NewGate()
	g.Grace = 800 * time.Microsecond
	g.Stall = 5 * time.Second // no lock is held across a storage operation here; a slow runnable task is not a blocked one
	cache := vkit.NewGateCache(g, "store")
	hc := hybrid.DefaultConfig()
	hc.EnablePersistent = false
	st := hybrid.NewWithSharedCache(context.Background(), cache, nil, nil, hc)
	defer st.Close()
	defer cache.Raw().Close()
	srv, err := miniserver.New(miniserver.Options{
		Storage:    st,
		BruteForce: &security.BruteForceConfig{MaxFailures: 100000, TimeWindow: time.Hour, BanDuration: time.Hour, PermanentBanAt: 1000000, CleanupInterval: time.Hour},
		IPRate:     &security.RateLimitConfig{Rate: 100000, Burst: 100000, TTL: time.Hour},
	})
	if err != nil {
		return out, err
	}
	defer srv.Close()
	// the state change is made on another node over the same storage (its own service stack: the
	// repositories coalesce concurrent reads of one key inside one process)
	srv2, err := miniserver.New(miniserver.Options{Storage: st, NodeID: "node-2", NoSecurityGate: true})
	if err != nil {
		return out, err
	}
	defer srv2.Close()
	defer g.Deactivate()
	l, err := srv.Cloud.GenerateAnonymousCredentials()
	if err != nil {
		return out, err
	}
	tg, err := srv.Cloud.GenerateAnonymousCredentials()
	if err != nil {
		return out, err
	}
	mp, err := srv.Cloud.CreatePortMapping(&models.PortMapping{ListenClientID: l.ID, TargetClientID: tg.ID, Protocol: models.ProtocolTCP,
		SourcePort: 17788, TargetHost: "127.0.0.1", TargetPort: 3306, SecretKey: "mapping-secret-0123456789abcdef", Status: models.MappingStatusActive})
	if err != nil {
		return out, err
	}
	cl, err := srv.Connect("5.5.5.1:1001")
	if err != nil {
		return out, err
	}
	if r, err := cl.Login(l.ID, l.SecretKeyPlaintext, "tunnel"); err != nil || r == nil || !r.Success {
		return out, fmt.Errorf("setup: listen client login failed: %+v %v", r, err)
	}
	cc := srv.SM.GetControlConnection(cl.ConnID)
	if cc == nil {
		return out, fmt.Errorf("setup: no connection object for the logged-in data connection")
	}
	time.Sleep(2 * time.Millisecond) // let the login's own asynchronous bookkeeping finish before gating starts

	var err1, err2 error
	g.Activate()
	g.Go("T1", func() {
		err1 = srv.Tunnel.HandleTunnelOpen(cc, &packet.TunnelOpenRequest{MappingID: mp.ID, TunnelID: "tcp-tunnel-race-1"})
	})
	g.Go("T2", func() {
		switch c.StateRace {
		case "revoke":
			err2 = srv2.ConnCode.RevokeMapping(mp.ID, l.ID, "owner")
		case "deactivate":
			cur, e := srv2.Cloud.GetPortMapping(mp.ID)
			if e != nil {
				err2 = e
				return
			}
			cur.Status = models.MappingStatusInactive
			err2 = srv2.Cloud.UpdatePortMapping(cur)
		case "delete":
			err2 = srv2.Cloud.DeletePortMapping(mp.ID)
		}
	})
	t2started := false
	log := g.Run(func(n int, desc []string) int {
		t1done := 0
		for _, s := range g.Log() {
			if s.Task == "T1" {
				t1done++
			}
		}
		want := "T1:"
		if t1done >= c.LandAt || t2started {
			want = "T2:"
		}
		for i, d := range desc {
			if strings.HasPrefix(d, want) {
				if want == "T2:" {
					t2started = true
				}
				return i
			}
		}
		return 0
	})
	g.Deactivate()
	if g.Aborted {
		return out, fmt.Errorf("schedule aborted: %s", vkit.StepsString(log))
	}
	dbgRace("err1=%v err2=%v log=%s", err1, err2, vkit.StepsString(log))
	firstT2 := -1
	for i, s := range log {
		if s.Task == "T1" {
			out.t1ops++
		}
		if s.Task == "T2" && firstT2 < 0 {
			firstT2 = i
		}
	}
	t1before := 0
	for i, s := range log {
		if s.Task == "T1" && i < firstT2 {
			t1before++
		}
	}
	out.landed = t1before > 0 && t1before < out.t1ops
	if err2 != nil {
		// the state change itself reported failure: nothing is promised about the mapping then
		return out, nil
	}
	// ---- oracle: the mapping is out of service now, whatever T1 was told
	after, gerr := srv.Cloud.GetPortMapping(mp.ID)
	still := gerr == nil && after != nil && after.IsValid()
	err3 := srv.Tunnel.HandleTunnelOpen(cc, &packet.TunnelOpenRequest{MappingID: mp.ID, TunnelID: "tcp-tunnel-race-2"})
	if still || err3 == nil {
		// how often the open had read the mapping record before the change landed is part of the root cause:
		// on the pinned tree only a change landing after the usage record's own (second) read is lost
		reads := 0
		for i, s := range log {
			if s.Task == "T1" && i < firstT2 && strings.HasSuffix(s.Op, ".Get") && strings.Contains(s.Key, "port_mapping") {
				reads++
			}
		}
		out.key = fmt.Sprintf("C04/state-change-undone-by-concurrent-tunnel-open/%s/mapping-reads-by-the-open-before-the-change=%d", c.StateRace, reads)
		out.detail = fmt.Sprintf("%s of mapping %s returned nil while a tunnel open of the listen client was in progress (T2 ran after %d of T1's %d storage operations); afterwards the mapping reads valid=%v and a fresh tunnel open returns %v (first open: %v); schedule: %s",
			c.StateRace, mp.ID, t1before, out.t1ops, still, err3, err1, vkit.StepsString(log))
	}
	return out, nil
}

func TestStateChangeRace(t *testing.T) {
	idx := 0
	for _, kind := range []string{"revoke", "deactivate", "delete"} {
		complete := true
		// length of T1 when nothing interferes (T2 runs after T1 has finished)
		dry, err := runStateRace(RaceCase{StateRace: kind, LandAt: 1 << 20})
		if err != nil {
			vkit.Violation(t, "C04/harness/state-race-setup", err.Error(), RaceCase{StateRace: kind, LandAt: 1 << 20})
			return
		}
		for k := 0; k <= dry.t1ops; k++ {
			idx++
			if !vkit.Mine(idx) {
				continue
			}
			c := RaceCase{StateRace: kind, LandAt: k}
			out, err := runStateRace(c)
			if err != nil {
				vkit.Violation(t, "C04/harness/state-race-setup", err.Error(), c)
				return
			}
			if out.key != "" {
				vkit.Violation(t, out.key, out.detail, c)
				vkit.Case("known:state-race/"+kind, out.landed, fmt.Sprint(kind, k))
				continue
			}
			vkit.Case("state-race/"+kind, out.landed, fmt.Sprint(kind, k))
		}
		vkit.Exhaustive("state-change-landing-points/"+kind, complete)
	}
}
