package c04

import (
	"context"
	"fmt"
	"strings"
	"sync"
	"testing"
	"time"

	"tunnox-core/internal/cloud/models"
	"tunnox-core/internal/core/storage/hybrid"
	"tunnox-core/internal/core/storage/memory"
	"tunnox-core/internal/packet"
	"tunnox-core/internal/security"
	"tunnox-core/verif/vkit"
	"tunnox-core/verif/vkit/miniserver"
)

// ---------------------------------------------------------------------------
// TestStateChangeRace — "a revoked / deleted / deactivated mapping yields no attachment" against
// the server's own concurrent bookkeeping. T1 is a legitimate tunnel open of the listen client by
// mapping id (it validates the mapping and then records the mapping's usage); T2 takes the mapping
// out of service (revoke through the connection-code service, status -> inactive, delete). The
// storage under the whole server is gate-controlled; T2 is run to completion at every point k of
// T1's storage operations in turn (landing-point enumeration: exhaustive for two tasks where one is
// atomic w.r.t. the other's steps). After both have returned, the mapping must be out of service: a
// read shows it invalid/gone and a fresh tunnel open is refused.

type RaceCase struct {
	StateRace string `json:"state_race"` // revoke | deactivate | delete
	LandAt    int    `json:"land_at"`    // T2 runs once T1 has performed this many storage operations
}

var dbgRace = func(string, ...any) {}

type raceOutcome struct {
	key, detail string
	t1ops       int
	landed      bool
}

func runStateRace(c RaceCase) (raceOutcome, error) {
	var out raceOutcome
	g := vkit.NewGate()
	g.Grace = 800 * time.Microsecond
	g.Stall = 5 * time.Second // no lock is held across a storage operation here; a slow runnable task is not a blocked one
	cache := vkit.NewGateCache(g, "store")
	hc := hybrid.DefaultConfig()
	hc.EnablePersistent = false
	st := hybrid.NewWithSharedCache(context.Background(), cache, nil, nil, hc)
	defer st.Close()
	defer cache.Raw().Close()
	srv, err := miniserver.New(miniserver.Options{
		Storage:    st,
		BruteForce: &security.BruteForceConfig{MaxFailures: 100000, TimeWindow: time.Hour, BanDuration: time.Hour, PermanentBanAt: 1000000, CleanupInterval: time.Hour},
		IPRate:     &security.RateLimitConfig{Rate: 100000, Burst: 100000, TTL: time.Hour},
	})
	if err != nil {
		return out, err
	}
	defer srv.Close()
	// the state change is made on another node over the same storage (its own service stack: the
	// repositories coalesce concurrent reads of one key inside one process)
	srv2, err := miniserver.New(miniserver.Options{Storage: st, NodeID: "node-2", NoSecurityGate: true})
	if err != nil {
		return out, err
	}
	defer srv2.Close()
	defer g.Deactivate()
	l, err := srv.Cloud.GenerateAnonymousCredentials()
	if err != nil {
		return out, err
	}
	tg, err := srv.Cloud.GenerateAnonymousCredentials()
	if err != nil {
		return out, err
	}
	mp, err := srv.Cloud.CreatePortMapping(&models.PortMapping{ListenClientID: l.ID, TargetClientID: tg.ID, Protocol: models.ProtocolTCP,
		SourcePort: 17788, TargetHost: "127.0.0.1", TargetPort: 3306, SecretKey: "mapping-secret-0123456789abcdef", Status: models.MappingStatusActive})
	if err != nil {
		return out, err
	}
	cl, err := srv.Connect("5.5.5.1:1001")
	if err != nil {
		return out, err
	}
	if r, err := cl.Login(l.ID, l.SecretKeyPlaintext, "tunnel"); err != nil || r == nil || !r.Success {
		return out, fmt.Errorf("setup: listen client login failed: %+v %v", r, err)
	}
	cc := srv.SM.GetControlConnection(cl.ConnID)
	if cc == nil {
		return out, fmt.Errorf("setup: no connection object for the logged-in data connection")
	}
	time.Sleep(2 * time.Millisecond) // let the login's own asynchronous bookkeeping finish before gating starts

	var err1, err2 error
	g.Activate()
	g.Go("T1", func() {
		err1 = srv.Tunnel.HandleTunnelOpen(cc, &packet.TunnelOpenRequest{MappingID: mp.ID, TunnelID: "tcp-tunnel-race-1"})
	})
	g.Go("T2", func() {
		switch c.StateRace {
		case "revoke":
			err2 = srv2.ConnCode.RevokeMapping(mp.ID, l.ID, "owner")
		case "deactivate":
			cur, e := srv2.Cloud.GetPortMapping(mp.ID)
			if e != nil {
				err2 = e
				return
			}
			cur.Status = models.MappingStatusInactive
			err2 = srv2.Cloud.UpdatePortMapping(cur)
		case "delete":
			err2 = srv2.Cloud.DeletePortMapping(mp.ID)
		}
	})
	t2started := false
	log := g.Run(func(n int, desc []string) int {
		t1done := 0
		for _, s := range g.Log() {
			if s.Task == "T1" {
				t1done++
			}
		}
		want := "T1:"
		if t1done >= c.LandAt || t2started {
			want = "T2:"
		}
		for i, d := range desc {
			if strings.HasPrefix(d, want) {
				if want == "T2:" {
					t2started = true
				}
				return i
			}
		}
		return 0
	})
	g.Deactivate()
	if g.Aborted {
		return out, fmt.Errorf("schedule aborted: %s", vkit.StepsString(log))
	}
	dbgRace("err1=%v err2=%v log=%s", err1, err2, vkit.StepsString(log))
	firstT2 := -1
	for i, s := range log {
		if s.Task == "T1" {
			out.t1ops++
		}
		if s.Task == "T2" && firstT2 < 0 {
			firstT2 = i
		}
	}
	t1before := 0
	for i, s := range log {
		if s.Task == "T1" && i < firstT2 {
			t1before++
		}
	}
	out.landed = t1before > 0 && t1before < out.t1ops
	if err2 != nil {
		// the state change itself reported failure: nothing is promised about the mapping then
		return out, nil
	}
	// ---- oracle: the mapping is out of service now, whatever T1 was told
	after, gerr := srv.Cloud.GetPortMapping(mp.ID)
	still := gerr == nil && after != nil && after.IsValid()
	err3 := srv.Tunnel.HandleTunnelOpen(cc, &packet.TunnelOpenRequest{MappingID: mp.ID, TunnelID: "tcp-tunnel-race-2"})
	if still || err3 == nil {
		// how often the open had read the mapping record before the change landed is part of the root cause:
		// on the pinned tree only a change landing after the usage record's own (second) read is lost
		reads := 0
		for i, s := range log {
			if s.Task == "T1" && i < firstT2 && strings.HasSuffix(s.Op, ".Get") && strings.Contains(s.Key, "port_mapping") {
				reads++
			}
		}
		out.key = fmt.Sprintf("C04/state-change-undone-by-concurrent-tunnel-open/%s/mapping-reads-by-the-open-before-the-change=%d", c.StateRace, reads)
		out.detail = fmt.Sprintf("%s of mapping %s returned nil while a tunnel open of the listen client was in progress (T2 ran after %d of T1's %d storage operations); afterwards the mapping reads valid=%v and a fresh tunnel open returns %v (first open: %v); schedule: %s",
			c.StateRace, mp.ID, t1before, out.t1ops, still, err3, err1, vkit.StepsString(log))
	}
	return out, nil
}

func TestStateChangeRace(t *testing.T) {
	idx := 0
	for _, kind := range []string{"revoke", "deactivate", "delete"} {
		complete := true
		// length of T1 when nothing interferes (T2 runs after T1 has finished)
		dry, err := runStateRace(RaceCase{StateRace: kind, LandAt: 1 << 20})
		if err != nil {
			vkit.Violation(t, "C04/harness/state-race-setup", err.Error(), RaceCase{StateRace: kind, LandAt: 1 << 20})
			return
		}
		for k := 0; k <= dry.t1ops; k++ {
			idx++
			if !vkit.Mine(idx) {
				continue
			}
			c := RaceCase{StateRace: kind, LandAt: k}
			out, err := runStateRace(c)
			if err != nil {
				vkit.Violation(t, "C04/harness/state-race-setup", err.Error(), c)
				return
			}
			if out.key != "" {
				vkit.Violation(t, out.key, out.detail, c)
				vkit.Case("known:state-race/"+kind, out.landed, fmt.Sprint(kind, k))
				continue
			}
			vkit.Case("state-race/"+kind, out.landed, fmt.Sprint(kind, k))
		}
		vkit.Exhaustive("state-change-landing-points/"+kind, complete)
	}
}

// ---------------------------------------------------------------------------
// TestTunnelIDReuseRace — "a connection is attached only to a tunnel of a mapping it is entitled to",
// against a tunnel id that changes hands while the request is being authorised. Tunnel ids are chosen
// by the listening client and any id that is currently free is accepted. The target client of mapping
// M1 asks to attach to tunnel id X (bridge B1 of M1 is waiting for it); at one of the mapping-record
// reads the server makes while handling that request, B1 ends, its table entry goes away, and the
// listening client of ANOTHER mapping M2 opens a tunnel under the same id X. The landing point is
// enumerated over every such read. Whatever the request is then told, the requester (entitled to M1
// only) must not end up attached to M2's tunnel and must not receive bytes M2's source writes.

type ReuseCase struct {
	IDReuse string `json:"tunnel_id_reuse"` // credential the requester presents: right-secret | mapping-id
	LandAt  int    `json:"land_at"`         // the swap happens at this read (0-based) of M1's record during the request
}

type hookCache struct {
	*memory.Storage
	mu    sync.Mutex
	match string
	seen  int
	at    int
	fn    func()
}

func (h *hookCache) Get(key string) (any, error) {
	h.mu.Lock()
	var run func()
	if h.fn != nil && h.match != "" && strings.Contains(key, h.match) {
		if h.seen == h.at {
			run, h.fn = h.fn, nil
		}
		h.seen++
	}
	h.mu.Unlock()
	if run != nil {
		run()
	}
	return h.Storage.Get(key)
}

type reuseOutcome struct {
	key, detail string
	reads       int
	swapped     bool
}

func runIDReuse(c ReuseCase) (reuseOutcome, error) {
	var out reuseOutcome
	hcache := &hookCache{Storage: memory.New(context.Background())}
	hc := hybrid.DefaultConfig()
	hc.EnablePersistent = false
	st := hybrid.NewWithSharedCache(context.Background(), hcache, nil, nil, hc)
	defer st.Close()
	srv, err := miniserver.New(miniserver.Options{
		Storage:    st,
		BruteForce: &security.BruteForceConfig{MaxFailures: 100000, TimeWindow: time.Hour, BanDuration: time.Hour, PermanentBanAt: 1000000, CleanupInterval: time.Hour},
		IPRate:     &security.RateLimitConfig{Rate: 100000, Burst: 100000, TTL: time.Hour},
	})
	if err != nil {
		return out, err
	}
	defer srv.Close()
	type cred struct {
		id     int64
		secret string
	}
	who := map[string]cred{}
	for _, n := range []string{"L1", "T1", "L2", "T2"} {
		cl, err := srv.Cloud.GenerateAnonymousCredentials()
		if err != nil {
			return out, err
		}
		who[n] = cred{cl.ID, cl.SecretKeyPlaintext}
	}
	mk := func(l, t string, port int, secret string) (*models.PortMapping, error) {
		return srv.Cloud.CreatePortMapping(&models.PortMapping{ListenClientID: who[l].id, TargetClientID: who[t].id, Protocol: models.ProtocolTCP,
			SourcePort: port, TargetHost: "127.0.0.1", TargetPort: 3306, SecretKey: secret, Status: models.MappingStatusActive})
	}
	m1, err := mk("L1", "T1", 17788, "mapping-one-secret-0123456789abcdef")
	if err != nil {
		return out, err
	}
	m2, err := mk("L2", "T2", 17789, "mapping-two-secret-fedcba9876543210")
	if err != nil {
		return out, err
	}
	login := func(addr, n string) (*miniserver.Client, error) {
		cl, err := srv.Connect(addr)
		if err != nil {
			return nil, err
		}
		if r, err := cl.Login(who[n].id, who[n].secret, "tunnel"); err != nil || r == nil || !r.Success {
			return nil, fmt.Errorf("setup: login of %s failed: %+v %v", n, r, err)
		}
		return cl, nil
	}
	src1, err := login("5.5.5.1:1001", "L1")
	if err != nil {
		return out, err
	}
	src2, err := login("5.5.5.2:1002", "L2")
	if err != nil {
		return out, err
	}
	rq, err := login("6.6.6.6:6006", "T1")
	if err != nil {
		return out, err
	}
	tid := "tcp-tunnel-1790000000000000001-17788"
	if ack, _, _ := tunnelOpen(src1, &packet.TunnelOpenRequest{MappingID: m1.ID, TunnelID: tid}, 2*time.Second); ack == nil || !ack.Success {
		return out, fmt.Errorf("setup: listening client of M1 could not open the tunnel: %+v", ack)
	}
	time.Sleep(2 * time.Millisecond)
	var swapErr error
	swap := func() {
		out.swapped = true
		b1 := srv.SM.GetTunnelBridgeByMappingID(m1.ID, 0)
		if b1 == nil {
			swapErr = fmt.Errorf("bridge of M1 not found")
			return
		}
		b1.Close() // end of tunnel B1
		deadline := time.Now().Add(3 * time.Second)
		for srv.SM.GetTunnelBridgeByMappingID(m1.ID, 0) != nil {
			if time.Now().After(deadline) {
				swapErr = fmt.Errorf("ended bridge of M1 still registered after 3s")
				return
			}
			time.Sleep(200 * time.Microsecond)
		}
		if ack, _, _ := tunnelOpen(src2, &packet.TunnelOpenRequest{MappingID: m2.ID, TunnelID: tid}, 2*time.Second); ack == nil || !ack.Success {
			swapErr = fmt.Errorf("listening client of M2 could not open a tunnel under the freed id: %+v", ack)
		}
	}
	hcache.mu.Lock()
	hcache.match, hcache.seen, hcache.at, hcache.fn = m1.ID, 0, c.LandAt, swap
	hcache.mu.Unlock()
	req := &packet.TunnelOpenRequest{MappingID: m1.ID, TunnelID: tid}
	if c.IDReuse == "right-secret" {
		req.SecretKey = m1.SecretKey
	}
	ack, perr, done := tunnelOpen(rq, req, 6*time.Second)
	select {
	case <-done:
	case <-time.After(6 * time.Second):
		return out, fmt.Errorf("the request did not return (swap error: %v)", swapErr)
	}
	hcache.mu.Lock()
	out.reads = hcache.seen
	hcache.fn = nil
	hcache.match = ""
	hcache.mu.Unlock()
	if swapErr != nil {
		return out, fmt.Errorf("swap: %v", swapErr)
	}
	if !out.swapped {
		return out, nil
	}
	// ---- oracle
	bad := ""
	if br := srv.SM.GetTunnelBridgeByConnectionID(rq.ConnID); br != nil && br.GetMappingID() == m2.ID {
		bad = "the requester's connection is attached to the tunnel of mapping M2"
	}
	if b2 := srv.SM.GetTunnelBridgeByMappingID(m2.ID, 0); bad == "" && b2 != nil && b2.GetTargetConnectionID() != "" {
		// nobody entitled to M2 has asked for its tunnel in this history
		bad = "the tunnel of mapping M2 has a target connection (" + b2.GetTargetConnectionID() + ") although only M1's target client asked to attach"
	}
	probe := []byte("PROBE-SECRET-FROM-SOURCE-OF-M2")
	src2.Near.Write(probe)
	wait := 25 * time.Millisecond
	if bad != "" || (ack != nil && ack.Success) {
		wait = 300 * time.Millisecond
	}
	deadline := time.Now().Add(wait)
	var got []byte
	for time.Now().Before(deadline) {
		buf := make([]byte, 256)
		n, _ := rq.Near.ReadWithTimeout(buf, time.Until(deadline))
		got = append(got, buf[:n]...)
		if strings.Contains(string(got), "PROBE-SECRET") {
			break
		}
	}
	if strings.Contains(string(got), "PROBE-SECRET") {
		if bad != "" {
			bad += "; "
		}
		bad += "the requester read bytes written by M2's source"
	}
	if bad != "" {
		out.key = "C04/attached-to-tunnel-of-other-mapping/tunnel-id-reused-during-authorisation/cred=" + c.IDReuse
		out.detail = fmt.Sprintf("target client of M1 asked to attach to tunnel id %q (cred %s); at read %d of M1's record the tunnel of M1 ended and the listening client of M2 opened a tunnel under the same id; then: %s (ack=%+v push error=%v)",
			tid, c.IDReuse, c.LandAt, bad, ack, perr)
	}
	return out, nil
}

func TestTunnelIDReuseRace(t *testing.T) {
	idx := 0
	for _, cr := range []string{"right-secret", "mapping-id"} {
		dry, err := runIDReuse(ReuseCase{IDReuse: cr, LandAt: 1 << 20})
		if err != nil {
			vkit.Violation(t, "C04/harness/id-reuse-setup", err.Error(), ReuseCase{IDReuse: cr, LandAt: 1 << 20})
			return
		}
		vkit.Extra("id_reuse_reads_of_mapping_record/"+cr, dry.reads)
		for k := 0; k < dry.reads; k++ {
			idx++
			if !vkit.Mine(idx) {
				continue
			}
			c := ReuseCase{IDReuse: cr, LandAt: k}
			out, err := runIDReuse(c)
			if err != nil {
				vkit.Violation(t, "C04/harness/id-reuse-setup", err.Error(), c)
				return
			}
			if out.key != "" {
				vkit.Violation(t, out.key, out.detail, c)
				vkit.Case("known:id-reuse/"+cr, true, fmt.Sprint(cr, k))
				continue
			}
			vkit.Case("id-reuse/"+cr, out.swapped, fmt.Sprint(cr, k))
		}
		vkit.Exhaustive("tunnel-id-reuse-landing-points/"+cr, true)
	}
}
