package c04

import (
	"context"
	"fmt"
	"net"
	"testing"
	"time"

	"tunnox-core/internal/cloud/models"
	"tunnox-core/internal/packet"
	"tunnox-core/internal/protocol/session"
	"tunnox-core/internal/protocol/session/crossnode"
	"tunnox-core/internal/security"
	"tunnox-core/verif/vkit"
	"tunnox-core/verif/vkit/miniserver"
)

// ---------------------------------------------------------------------------
// TestCrossNodeAttach — the source-node side of a cross-node tunnel (CrossNodeListener). Another node
// forwards a connection it authorised for tunnel X by sending a TargetReady frame that names X; the
// frame header only has room for the first 16 bytes of the id. A waiting tunnel Y of another mapping
// must never get that connection as its target end unless the message names exactly Y: Y's source
// bytes must not appear on it. (Positive control: a message naming Y is attached and receives them.)

type XNCell struct {
	CrossNode bool   `json:"cross_node_attach"`
	VictimID  string `json:"victim_tunnel_id"`
	FullID    string `json:"presented_full_id"`   // tunnel id in the message body
	HeaderID  string `json:"presented_header_id"` // what the 16-byte header field is built from
}

func runXN(c XNCell) (key, detail string, err error) {
	srv, err := miniserver.New(miniserver.Options{
		RoutingTTL: time.Hour,
		BruteForce: &security.BruteForceConfig{MaxFailures: 100000, TimeWindow: time.Hour, BanDuration: time.Hour, PermanentBanAt: 1000000, CleanupInterval: time.Hour},
		IPRate:     &security.RateLimitConfig{Rate: 100000, Burst: 100000, TTL: time.Hour},
	})
	if err != nil {
		return "", "", err
	}
	defer srv.Close()
	var ln *session.CrossNodeListener
	port := 0
	for try := 0; try < 20; try++ {
		l, e := net.Listen("tcp", "127.0.0.1:0")
		if e != nil {
			return "", "", e
		}
		port = l.Addr().(*net.TCPAddr).Port
		l.Close()
		ln = session.NewCrossNodeListener(srv.SM, port)
		if e := ln.Start(context.Background()); e == nil {
			break
		}
		ln = nil
	}
	if ln == nil {
		return "", "", fmt.Errorf("could not start the cross-node listener")
	}
	defer ln.Stop()
	l, err := srv.Cloud.GenerateAnonymousCredentials()
	if err != nil {
		return "", "", err
	}
	tg, err := srv.Cloud.GenerateAnonymousCredentials()
	if err != nil {
		return "", "", err
	}
	mp, err := srv.Cloud.CreatePortMapping(&models.PortMapping{ListenClientID: l.ID, TargetClientID: tg.ID, Protocol: models.ProtocolTCP,
		SourcePort: 17788, TargetHost: "127.0.0.1", TargetPort: 3306, SecretKey: "mapping-secret-0123456789abcdef", Status: models.MappingStatusActive})
	if err != nil {
		return "", "", err
	}
	src, err := srv.Connect("5.5.5.1:1001")
	if err != nil {
		return "", "", err
	}
	if r, err := src.Login(l.ID, l.SecretKeyPlaintext, "tunnel"); err != nil || r == nil || !r.Success {
		return "", "", fmt.Errorf("setup: source login failed: %+v %v", r, err)
	}
	ack, _, _ := tunnelOpen(src, &packet.TunnelOpenRequest{MappingID: mp.ID, TunnelID: c.VictimID}, 5*time.Second)
	if ack == nil || !ack.Success {
		return "", "", fmt.Errorf("setup: legitimate source could not open the victim tunnel: %+v", ack)
	}
	// the forwarded connection of "another node"
	conn, err := net.DialTimeout("tcp", fmt.Sprintf("127.0.0.1:%d", port), 5*time.Second)
	if err != nil {
		return "", "", err
	}
	defer conn.Close()
	hid, _ := crossnode.TunnelIDFromString(c.HeaderID)
	if len(c.HeaderID) > 16 {
		copy(hid[:], c.HeaderID[:16])
	}
	if err := crossnode.WriteFrame(conn.(*net.TCPConn), hid, crossnode.FrameTypeTargetReady, crossnode.EncodeTargetReadyMessage(c.FullID, "node-2")); err != nil {
		return "", "", err
	}
	// the victim's source sends: whoever is attached as the target end receives it
	payload := []byte("victim-source-bytes-0123456789")
	time.Sleep(20 * time.Millisecond)
	if _, err := src.Near.Write(payload); err != nil {
		return "", "", fmt.Errorf("setup: source write: %v", err)
	}
	entitled := c.FullID == c.VictimID
	wait := 400 * time.Millisecond
	if entitled {
		wait = 5 * time.Second
	}
	conn.SetReadDeadline(time.Now().Add(wait))
	buf := make([]byte, 256)
	n, _ := conn.Read(buf)
	got := string(buf[:n])
	switch {
	case !entitled && c.FullID != "" && n > 0:
		return "C04/cross-node/forwarded-connection-attached-to-another-tunnel", fmt.Sprintf("waiting tunnel %q; a TargetReady naming %q (header field %q) was attached to it and received its source bytes %q", c.VictimID, c.FullID, c.HeaderID, got), nil
	case entitled && n == 0:
		return "", "control-failed", nil
	}
	return "", "", nil
}

func TestCrossNodeAttach(t *testing.T) {
	victims := []string{"tcp-tunnel-00001", "tcp-tunnel-1", "tcp-tunnel-000000017-42"} // exactly 16 bytes, shorter, longer
	idx := 0
	for _, v := range victims {
		v16 := v
		if len(v16) > 16 {
			v16 = v16[:16]
		}
		type pres struct{ full, header string }
		ps := []pres{{v, v}, {v + "-x99", v + "-x99"}, {v + "-x99", v}, {v16 + "suffix-of-another-tunnel", v16 + "suffix-of-another-tunnel"}, {"other-tunnel-id", v}, {"other-tunnel-id", "other-tunnel-id"}, {v[:len(v)-1], v}, {v[:len(v)-1], v[:len(v)-1]}}
		for _, p := range ps {
			idx++
			if !vkit.Mine(idx) {
				continue
			}
			c := XNCell{CrossNode: true, VictimID: v, FullID: p.full, HeaderID: p.header}
			key, detail, err := runXN(c)
			if err != nil {
				vkit.Violation(t, "C04/harness/cross-node-setup", err.Error(), c)
				return
			}
			if key != "" {
				vkit.Violation(t, key, detail, c)
				continue
			}
			if detail == "control-failed" {
				vkit.Skipped(1)
				vkit.Class("cross-node-attach/positive-control-not-observed")
				continue
			}
			vkit.Case("cross-node-attach", p.full != v, fmt.Sprint(c))
		}
	}
	vkit.Exhaustive("cross-node TargetReady: victim id length x presented id", true)
}
