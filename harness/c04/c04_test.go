// C04 — tunnel data reaches only connections authorised for that mapping.
package c04

import (
	"context"
	"encoding/json"
	"fmt"
	"net"
	"os"
	"path/filepath"
	"strings"
	"sync"
	"sync/atomic"
	"testing"
	"time"

	"pgregory.net/rapid"

	"github.com/alicebob/miniredis/v2"

	"tunnox-core/internal/cloud/models"
	"tunnox-core/internal/core/storage"
	"tunnox-core/internal/core/storage/hybrid"
	jsonstorage "tunnox-core/internal/core/storage/json"
	"tunnox-core/internal/core/storage/memory"
	"tunnox-core/internal/packet"
	"tunnox-core/internal/protocol/session"
	"tunnox-core/internal/security"
	"tunnox-core/verif/vkit"
	"tunnox-core/verif/vkit/miniserver"
)

func TestMain(m *testing.M) { vkit.Main(m, "C04") }

// "X>L": the connection is (not) authenticated as X and additionally sent a bare phase-1 handshake
// naming the listen client L which it never answered (an unproven identity claim)
// "failed": the connection sent a handshake that FAILED (wrong response): a control-connection object exists
// for it, but it is not authenticated and carries client id 0
var identities = []string{"none", "L", "T", "S", "S>L", "none>L", "failed"}

// "other-mapping": the requester's own valid mapping (it is that mapping's listen client) and secret,
// together with the victim tunnel's id
var creds = []string{"mapping-id", "right-secret", "wrong-secret", "resume-garbage", "nothing", "other-mapping"}

// json = hybrid{memory cache, JSON-file persistent tier}: the stand-alone deployment with persistence; the cached
// copies of the mapping records are evicted after the mapping state is set up, so the decision is taken on
// what the persistent tier holds
// two-node = two servers, each hybrid{node-local memory cache, shared Redis}: the server under test has read the
// mapping record before ANOTHER node changes the mapping's state (revoke / expire / deactivate / delete)
// json-restart = the stand-alone deployment with its periodic save: the state change meets a window of failing saves,
// the disk recovers, and the server is restarted from its data file before the request arrives
var backends = []string{"memory", "redis", "json", "two-node", "json-restart"}

// "expired-seconds-ago": the expiry time passed two seconds before the request (the usual expired state is an hour past)
var mstates = []string{"active", "revoked", "expired", "inactive", "missing", "expired-seconds-ago"}

// "local-route": a routing record that names THIS node as the source while no bridge exists (a record that
// outlived its bridge, or a bridge that is about to be created)
var tstates = []string{"none", "waiting", "served", "remote", "local-route"}

type Cell struct {
	Identity       string `json:"identity"`
	Cred           string `json:"credential"`
	MState         string `json:"mapping_state"`
	TState         string `json:"tunnel_state"`
	EmptySecret    bool   `json:"mapping_has_empty_secret"` // mappings created through connection codes have no secret
	ConnType       string `json:"handshake_connection_type"`
	ServerListened bool   `json:"mapping_listened_by_server"` // ListenClientID == 0 (server-side ingress mapping)
	Backend        string `json:"storage_backend"`            // memory (hybrid over memory) | redis (hybrid over Redis/miniredis: records are JSON-serialised)
	TunnelID       string `json:"tunnel_id"`
	Compress       bool   `json:"-"`
}

// otherNode is the harness-owned "source node" for the cross-node state: it records
// every connection and every byte that the server under test forwards to it.
type otherNode struct {
	ln    net.Listener
	mu    sync.Mutex
	conns int
	bytes []byte
}

func newOtherNode() (*otherNode, error) {
	ln, err := net.Listen("tcp", "127.0.0.1:0")
	if err != nil {
		return nil, err
	}
	o := &otherNode{ln: ln}
	go func() {
		for {
			c, err := ln.Accept()
			if err != nil {
				return
			}
			o.mu.Lock()
			o.conns++
			o.mu.Unlock()
			go func() {
				defer c.Close()
				buf := make([]byte, 4096)
				for {
					n, err := c.Read(buf)
					if n > 0 {
						o.mu.Lock()
						o.bytes = append(o.bytes, buf[:n]...)
						o.mu.Unlock()
					}
					if err != nil {
						return
					}
				}
			}()
		}
	}()
	return o, nil
}

func (o *otherNode) contains(tid string) bool {
	o.mu.Lock()
	defer o.mu.Unlock()
	return strings.Contains(string(o.bytes), tid)
}

func (o *otherNode) seen() (int, int) {
	o.mu.Lock()
	defer o.mu.Unlock()
	return o.conns, len(o.bytes)
}

type outcome struct {
	acked     bool // an acknowledgement packet arrived
	success   bool // ... saying Success:true
	attached  bool // the requester became an end of a bridge on this node
	leaked    string
	remote    bool // the other node received a connection / TargetReady for it
	entitled  bool
	dontCare  bool
	ackErr    string
	pushErr   string
	setupNote string
}

func tunnelOpen(c *miniserver.Client, req *packet.TunnelOpenRequest, wait time.Duration) (ack *packet.TunnelOpenAckResponse, pushErr error, done chan struct{}) {
	b, _ := json.Marshal(req)
	done = make(chan struct{})
	var perr error
	go func() {
		defer close(done)
		perr = c.Push(&packet.TransferPacket{PacketType: packet.TunnelOpen, TunnelID: req.TunnelID, Payload: b})
	}()
	deadline := time.Now().Add(wait)
	for time.Now().Before(deadline) {
		p, err := c.Recv(time.Until(deadline))
		if err != nil {
			break
		}
		if p.PacketType&0x3F == packet.TunnelOpenAck {
			var a packet.TunnelOpenAckResponse
			if json.Unmarshal(p.Payload, &a) == nil {
				ack = &a
			}
			break
		}
	}
	select {
	case <-done:
		pushErr = perr
	case <-time.After(50 * time.Millisecond):
	}
	return
}

func runCell(c Cell) (outcome, error) {
	var out outcome
	var st storage.Storage
	if c.Backend == "redis" {
		mr, err := miniredis.Run()
		if err != nil {
			return out, err
		}
		defer mr.Close()
		f := storage.NewStorageFactory(context.Background())
		hc := &storage.HybridStorageConfig{CacheType: "redis", RedisConfig: &storage.RedisConfig{Addr: mr.Addr(), PoolSize: 4}, HybridConfig: storage.DefaultHybridConfig()}
		st, err = f.CreateStorage(hc)
		if err != nil {
			return out, err
		}
		defer st.Close()
	}
	var stAdmin storage.Storage
	if c.Backend == "two-node" {
		mr, err := miniredis.Run()
		if err != nil {
			return out, err
		}
		defer mr.Close()
		mk := func() (storage.Storage, error) {
			return storage.NewStorageFactory(context.Background()).CreateStorage(&storage.HybridStorageConfig{CacheType: "memory",
				SharedCacheConfig: &storage.RedisConfig{Addr: mr.Addr(), PoolSize: 4}, HybridConfig: storage.DefaultHybridConfig()})
		}
		if st, err = mk(); err != nil {
			return out, err
		}
		defer st.Close()
		if stAdmin, err = mk(); err != nil {
			return out, err
		}
		defer stAdmin.Close()
	}
	var jsonCache *memory.Storage
	var jsPers *jsonstorage.Storage
	var jsPath string
	if c.Backend == "json" || c.Backend == "json-restart" {
		dir, err := os.MkdirTemp("", "c04json")
		if err != nil {
			return out, err
		}
		defer os.RemoveAll(dir)
		jsPath = filepath.Join(dir, "data.json")
		cfg := &jsonstorage.Config{FilePath: jsPath, AutoSave: false}
		if c.Backend == "json-restart" {
			cfg.AutoSave, cfg.SaveInterval = true, 2*time.Millisecond // the periodic save of the stand-alone deployment
		}
		pers, err := jsonstorage.New(cfg)
		if err != nil {
			return out, err
		}
		jsPers = pers
		jsonCache = memory.New(context.Background())
		hc := hybrid.DefaultConfig()
		hc.EnablePersistent = true
		st = hybrid.NewWithSharedCache(context.Background(), jsonCache, nil, pers, hc)
		defer st.Close()
	}
	srv, err := miniserver.New(miniserver.Options{
		Storage:    st,
		RoutingTTL: time.Hour, // not the subject here; wall-clock lifetimes must not run out on a stalled machine
		BruteForce: &security.BruteForceConfig{MaxFailures: 100000, TimeWindow: time.Hour, BanDuration: time.Hour, PermanentBanAt: 1000000, CleanupInterval: time.Hour},
		IPRate:     &security.RateLimitConfig{Rate: 100000, Burst: 100000, TTL: time.Hour},
	})
	if err != nil {
		return out, err
	}
	defer srv.Close()
	admin := srv // the node through which the mapping's state is changed
	if stAdmin != nil {
		admin, err = miniserver.New(miniserver.Options{Storage: stAdmin, NodeID: "node-admin", NoSecurityGate: true})
		if err != nil {
			return out, err
		}
		defer admin.Close()
	}
	type cred struct {
		id     int64
		secret string
	}
	who := map[string]cred{}
	for _, n := range []string{"L", "T", "S"} {
		cl, err := srv.Cloud.GenerateAnonymousCredentials()
		if err != nil {
			return out, err
		}
		who[n] = cred{cl.ID, cl.SecretKeyPlaintext}
	}
	secret := "mapping-secret-0123456789abcdef"
	listenID := who["L"].id
	if c.ServerListened {
		listenID = 0
	}
	m := &models.PortMapping{ListenClientID: listenID, TargetClientID: who["T"].id, Protocol: models.ProtocolTCP,
		SourcePort: 17788, TargetHost: "127.0.0.1", TargetPort: 3306, SecretKey: secret, Status: models.MappingStatusActive}
	mp, err := srv.Cloud.CreatePortMapping(m)
	if err != nil {
		return out, fmt.Errorf("create mapping: %w", err)
	}
	if c.EmptySecret {
		mp.SecretKey = ""
		if err := srv.Cloud.UpdatePortMapping(mp); err != nil {
			return out, err
		}
	}
	mp, err = srv.Cloud.GetPortMapping(mp.ID)
	if err != nil {
		return out, err
	}
	right := mp.SecretKey
	tid := c.TunnelID
	if tid == "" {
		tid = "tcp-tunnel-1790000000000000001-17788"
	}
	// ---- tunnel state at arrival ------------------------------------------------
	var srcConn *miniserver.Client
	var other *otherNode
	switch c.TState {
	case "waiting", "served":
		srcConn, err = srv.Connect("5.5.5.1:1001")
		if err != nil {
			return out, err
		}
		if r, err := srcConn.Login(who["L"].id, who["L"].secret, "tunnel"); err != nil || !r.Success {
			return out, fmt.Errorf("setup: source login failed: %+v %v", r, err)
		}
		ack, _, _ := tunnelOpen(srcConn, &packet.TunnelOpenRequest{MappingID: mp.ID, TunnelID: tid}, 2*time.Second)
		if ack == nil || !ack.Success {
			return out, fmt.Errorf("setup: legitimate source could not open the tunnel: %+v", ack)
		}
		if c.TState == "served" {
			tc, err := srv.Connect("5.5.5.2:1002")
			if err != nil {
				return out, err
			}
			if r, err := tc.Login(who["T"].id, who["T"].secret, "tunnel"); err != nil || !r.Success {
				return out, fmt.Errorf("setup: target login failed")
			}
			ack, _, _ := tunnelOpen(tc, &packet.TunnelOpenRequest{MappingID: mp.ID, TunnelID: tid, SecretKey: right}, 2*time.Second)
			if ack == nil || !ack.Success {
				out.setupNote = "legitimate target could not attach"
			}
		}
	case "local-route":
		st := &session.TunnelWaitingState{TunnelID: tid, MappingID: mp.ID, SecretKey: right, SourceNodeID: srv.NodeID,
			SourceClientID: who["L"].id, TargetClientID: who["T"].id, TargetHost: "127.0.0.1", TargetPort: 3306}
		if err := srv.Routing.RegisterWaitingTunnel(context.Background(), st); err != nil {
			return out, err
		}
	case "remote":
		other, err = newOtherNode()
		if err != nil {
			return out, err
		}
		defer other.ln.Close()
		if err := srv.Routing.RegisterNodeAddress("node-2", other.ln.Addr().String()); err != nil {
			return out, err
		}
		st := &session.TunnelWaitingState{TunnelID: tid, MappingID: mp.ID, SecretKey: right, SourceNodeID: "node-2",
			SourceClientID: who["L"].id, TargetClientID: who["T"].id, TargetHost: "127.0.0.1", TargetPort: 3306}
		if err := srv.Routing.RegisterWaitingTunnel(context.Background(), st); err != nil {
			return out, err
		}
	}
	// ---- mapping state --------------------------------------------------------------
	// (the mapping record is also rewritten by the server's own usage/traffic bookkeeping, so the
	// change is re-applied until a read confirms it)
	if admin != srv {
		// the node under test has the mapping "in hand" (as after an earlier tunnel open) before the other node changes it
		if _, err := srv.Cloud.GetPortMapping(mp.ID); err != nil {
			return out, fmt.Errorf("setup: node under test cannot read the mapping: %w", err)
		}
	}
	jsBlocker := jsPath + ".tmp"
	if c.Backend == "json-restart" {
		// everything so far has reached the file; from here on the periodic save fails (its temp file cannot be
		// written: full or read-only disk) ...
		// (flushed explicitly: the data file exists as a regular file before the temp file's path is occupied, so a save
		// caught between writing and renaming its temp file cannot rename the blocker into the data file's place)
		if err := jsPers.Flush(); err != nil {
			return out, errSkipCell
		}
		os.Remove(jsBlocker)
		os.Mkdir(jsBlocker, 0o755)
	}
	for attempt := 0; ; attempt++ {
		cur, gerr := admin.Cloud.GetPortMapping(mp.ID)
		if gerr != nil {
			if c.MState == "missing" {
				break // already gone
			}
			return out, gerr
		}
		switch c.MState {
		case "revoked":
			cur.IsRevoked = true
			now := time.Now()
			cur.RevokedAt = &now
			err = admin.Cloud.UpdatePortMapping(cur)
		case "expired":
			past := time.Now().Add(-time.Hour)
			cur.ExpiresAt = &past
			err = admin.Cloud.UpdatePortMapping(cur)
		case "expired-seconds-ago":
			past := time.Now().Add(-2 * time.Second)
			cur.ExpiresAt = &past
			err = admin.Cloud.UpdatePortMapping(cur)
		case "inactive":
			cur.Status = models.MappingStatusInactive
			err = admin.Cloud.UpdatePortMapping(cur)
		case "missing":
			err = admin.Cloud.DeletePortMapping(mp.ID)
		}
		if err != nil {
			return out, fmt.Errorf("mapping state %s: %w", c.MState, err)
		}
		if c.MState == "missing" {
			if _, gerr := admin.Cloud.GetPortMapping(mp.ID); gerr != nil {
				break
			}
			if attempt >= 10 {
				break // the delete has returned ten times and the record is still served: the oracle below judges what follows
			}
		} else {
			time.Sleep(time.Millisecond)
			chk, gerr := admin.Cloud.GetPortMapping(mp.ID)
			if gerr != nil {
				return out, gerr
			}
			// (judged on the stored fields, not through the model's own validity helpers)
			stored := false
			switch c.MState {
			case "active":
				stored = true
			case "revoked":
				stored = chk.IsRevoked
			case "expired", "expired-seconds-ago":
				stored = chk.ExpiresAt != nil && time.Now().After(*chk.ExpiresAt)
			case "inactive":
				stored = chk.Status == models.MappingStatusInactive
			}
			if stored {
				break
			}
		}
		if attempt >= 10 {
			return out, fmt.Errorf("setup: mapping state %s not reflected after %d attempts", c.MState, attempt)
		}
	}
	if c.Backend == "json-restart" {
		// ... the state change above met failing saves; the disk recovers, nothing else is written, and the server is
		// shut down and started again from its data file
		time.Sleep(8 * time.Millisecond)
		os.Remove(jsBlocker)
		time.Sleep(8 * time.Millisecond)
		os.RemoveAll(jsBlocker)
		if err := jsPers.Close(); err != nil {
			return out, errSkipCell // the fault rig itself got in the way of the final save: nothing to judge
		}
		pers2, err := jsonstorage.New(&jsonstorage.Config{FilePath: jsPath, AutoSave: false})
		if err != nil {
			return out, err
		}
		hc := hybrid.DefaultConfig()
		hc.EnablePersistent = true
		st2 := hybrid.NewWithSharedCache(context.Background(), memory.New(context.Background()), nil, pers2, hc)
		defer st2.Close()
		srv2, err := miniserver.New(miniserver.Options{
			Storage:    st2,
			RoutingTTL: time.Hour, // not the subject here; wall-clock lifetimes must not run out on a stalled machine
			BruteForce: &security.BruteForceConfig{MaxFailures: 100000, TimeWindow: time.Hour, BanDuration: time.Hour, PermanentBanAt: 1000000, CleanupInterval: time.Hour},
			IPRate:     &security.RateLimitConfig{Rate: 100000, Burst: 100000, TTL: time.Hour},
		})
		if err != nil {
			return out, err
		}
		defer srv2.Close()
		srv, admin, jsonCache = srv2, srv2, nil
	}
	if jsonCache != nil {
		// the cache tier lets go of the mapping records (TTL expiry): the persistent tier decides
		if keys, err := jsonCache.QueryByPrefix("tunnox:port_mapping:", 0); err == nil {
			for k := range keys {
				jsonCache.Delete(k)
			}
		}
	}
	// ---- the requester ----------------------------------------------------------------
	rq, err := srv.Connect("6.6.6.6:6006")
	if err != nil {
		return out, err
	}
	authed := false
	base, claim := c.Identity, ""
	if i := strings.Index(c.Identity, ">"); i >= 0 {
		base, claim = c.Identity[:i], c.Identity[i+1:]
	}
	if base == "failed" {
		r, _ := rq.Login(who["S"].id, "not-the-secret-of-S", c.ConnType)
		if r != nil && r.Success {
			return out, fmt.Errorf("setup: login with a wrong secret succeeded")
		}
	} else if base != "none" {
		r, err := rq.Login(who[base].id, who[base].secret, c.ConnType)
		if err != nil || r == nil || !r.Success {
			return out, fmt.Errorf("setup: requester login failed: %+v %v", r, err)
		}
		authed = base != "failed"
	}
	if claim != "" {
		// an identity claim that is never proven: phase-1 for the victim, no answer to the challenge
		rq.Handshake(&packet.HandshakeRequest{ClientID: who[claim].id, Version: "2.0", Protocol: "tcp", ConnectionType: c.ConnType})
	}
	var own *models.PortMapping
	if c.Cred == "other-mapping" {
		lid := who["S"].id
		if base != "none" && base != "failed" {
			lid = who[base].id
		}
		own, err = srv.Cloud.CreatePortMapping(&models.PortMapping{ListenClientID: lid, TargetClientID: who["S"].id, Protocol: models.ProtocolTCP,
			SourcePort: 17799, TargetHost: "127.0.0.1", TargetPort: 8080, SecretKey: "own-mapping-secret-fedcba9876543210", Status: models.MappingStatusActive})
		if err != nil {
			return out, fmt.Errorf("create own mapping: %w", err)
		}
	}
	req := &packet.TunnelOpenRequest{TunnelID: tid}
	switch c.Cred {
	case "mapping-id":
		req.MappingID = mp.ID
	case "right-secret":
		req.MappingID, req.SecretKey = mp.ID, right
	case "wrong-secret":
		req.MappingID, req.SecretKey = mp.ID, "not-the-secret"
	case "resume-garbage":
		req.MappingID, req.ResumeToken = mp.ID, "Z2FyYmFnZQ.c2lnbmF0dXJl"
	case "other-mapping":
		req.MappingID, req.SecretKey = own.ID, own.SecretKey
	case "nothing":
	}
	ack, perr, _ := tunnelOpen(rq, req, 1500*time.Millisecond)
	if perr != nil {
		out.pushErr = perr.Error()
	}
	if ack != nil {
		out.acked, out.success, out.ackErr = true, ack.Success, ack.Error
	}
	// attached on this node?
	ownTunnel := false
	if br := srv.SM.GetTunnelBridgeByConnectionID(rq.ConnID); br != nil {
		out.attached = true
		// ... to a NEW bridge of the requester's own mapping (the server saw no tunnel under this id)?
		ownTunnel = own != nil && br.GetMappingID() == own.ID
	}
	if br := srv.SM.GetTunnelBridgeByConnectionID("6.6.6.6:6006"); br != nil {
		out.attached = true
		ownTunnel = ownTunnel || (own != nil && br.GetMappingID() == own.ID)
	}
	if out.attached && own != nil && srv.SM.GetTunnelBridgeByMappingID(own.ID, 0) != nil && srv.SM.GetTunnelBridgeByMappingID(mp.ID, 0) == nil {
		ownTunnel = true // the only bridge on this node belongs to the requester's own mapping
	}
	lastOwnTunnel.Store(ownTunnel)
	// does tunnel traffic reach the requester? the legitimate source writes a probe
	if srcConn != nil {
		probe := []byte("PROBE-SECRET-FROM-SOURCE-" + tid)
		srcConn.Near.Write(probe)
		wait := 25 * time.Millisecond
		if out.success || out.attached {
			wait = 300 * time.Millisecond
		}
		deadline := time.Now().Add(wait)
		var got []byte
		for time.Now().Before(deadline) {
			buf := make([]byte, 256)
			n, _ := rq.Near.ReadWithTimeout(buf, time.Until(deadline))
			got = append(got, buf[:n]...)
			if strings.Contains(string(got), "PROBE-SECRET") {
				break
			}
		}
		if strings.Contains(string(got), "PROBE-SECRET") {
			out.leaked = "requester read the source's bytes"
		}
	}
	if other != nil {
		// the server under test forwards by dialling the other node and sending a TargetReady frame that
		// names the tunnel id. Only that counts: a stray connection to the (reused) ephemeral port -
		// e.g. a lingering client of an earlier cell - is not a forward.
		deadline := time.Now().Add(20 * time.Millisecond)
		for {
			n, _ := other.seen()
			if other.contains(tid) {
				out.remote = true
				break
			}
			if n > 0 && time.Now().Before(deadline.Add(200*time.Millisecond)) {
				time.Sleep(5 * time.Millisecond)
				continue
			}
			if !time.Now().Before(deadline) {
				break
			}
			time.Sleep(5 * time.Millisecond)
		}
	}
	// ---- entitlement, literally from the statement -----------------------------------------
	valid := c.MState == "active"
	presentsSecret := c.Cred == "right-secret" || (c.EmptySecret && c.Cred == "mapping-id")
	switch {
	case c.Cred == "other-mapping" && c.TState == "none":
		// opening a fresh tunnel on one's own valid mapping is that mapping's business, not this one's
		out.dontCare = true
	case c.Cred == "other-mapping" && (c.TState == "remote" || c.TState == "local-route") && ownTunnel && !out.remote && out.leaked == "":
		// the routing record of the victim's tunnel was not seen when the request arrived (its lifetime is wall-clock time,
		// and a routing lookup that fails on an overloaded store is treated as "no such tunnel"): the server then treated
		// the request as what it also is, a fresh
		// tunnel on the requester's own mapping - as in the tunnel-state "none" case, that is not this mapping's business
		out.dontCare = true
		vkit.Class("routing-record-not-in-force: requester opened a tunnel of its own mapping")
	case c.Cred == "other-mapping":
		out.entitled = false
	case !authed || !valid:
		out.entitled = false
	case claim != "":
		// proven identity is `base`; evaluate it as such below (the claim must have no effect)
		switch {
		case base == "L" || base == "T":
			out.dontCare = true
		default:
			out.entitled = false
		}
	case c.ServerListened && base == "L":
		out.entitled = false // the mapping has no listening client; L is unrelated to it
	case c.Identity == "L" && (c.Cred == "mapping-id" || c.Cred == "right-secret"):
		out.entitled = true
	case c.Identity == "L" && (c.Cred == "wrong-secret" || c.Cred == "resume-garbage"):
		// the listening client did present the mapping id, together with a bad extra credential: either verdict is acceptable
		out.dontCare = true
	case c.Identity == "T" && presentsSecret:
		out.entitled = true
	case c.Identity == "T" && c.EmptySecret && c.Cred == "resume-garbage":
		// target client presenting the mapping id and the (empty) secret plus a bad extra credential
		out.dontCare = true
	default:
		out.entitled = false
	}
	return out, nil
}

func branch(t string) string {
	switch t {
	case "waiting", "served":
		return "existing-bridge"
	case "remote":
		return "cross-node"
	case "local-route":
		return "local-route-without-bridge"
	}
	return "new-bridge"
}

// lastOwnTunnel: whether the last cell's requester ended up on a bridge of its own mapping (self-check below)
var lastOwnTunnel atomic.Bool

// TestOwnTunnelRecognised: the harness's own recognition of "the requester opened a fresh tunnel of its OWN mapping"
// (used to classify the cells in which the victim tunnel's routing record was not seen) on cells where that is
// what happens by construction: credential other-mapping with no tunnel under the id.
func TestOwnTunnelRecognised(t *testing.T) {
	if vkit.Shard() != 0 {
		t.Skip("single shard")
	}
	for _, id := range []string{"L", "T", "S"} {
		c := Cell{Identity: id, Cred: "other-mapping", MState: "active", TState: "none", ConnType: "tunnel", Backend: "memory"}
		out, err := runCell(c)
		if err != nil {
			vkit.Violation(t, "C04/harness/setup-failed", err.Error(), c)
			return
		}
		if out.attached && !lastOwnTunnel.Load() {
			vkit.Violation(t, "C04/harness/own-tunnel-not-recognised", fmt.Sprintf("%+v: the requester is attached to a bridge, which can only be its own mapping's, and the harness does not recognise it", c), c)
			return
		}
		if !out.attached {
			vkit.Class("own-tunnel-self-check: requester not attached (" + id + ")")
		}
	}
}

// errSkipCell: the cell's rig could not be brought into the intended state for a reason of its own making
var errSkipCell = fmt.Errorf("cell skipped")

var (
	setupMu     sync.Mutex
	setupFailed []string
)

// reportSetupFailures turns remembered set-up failures into a harness error (inconclusive), once the
// enumeration has finished without a violation.
func reportSetupFailures(t vkit.TB) {
	setupMu.Lock()
	n, first := len(setupFailed), ""
	if n > 0 {
		first = setupFailed[0]
	}
	setupFailed = nil
	setupMu.Unlock()
	if n > 0 {
		vkit.Violation(t, "C04/harness/setup-failed", fmt.Sprintf("%d cells could not be set up; first: %s", n, first), nil)
	}
}

func check(t vkit.TB, c Cell) {
	out, err := runCell(c)
	for try := 0; err != nil && strings.Contains(err.Error(), "address already in use") && try < 40; try++ {
		// no free loopback port at this instant (many short-lived listeners and connections on a busy machine)
		time.Sleep(250 * time.Millisecond)
		out, err = runCell(c)
	}
	if err == errSkipCell {
		vkit.Skipped(1)
		vkit.Class("json-restart: fault rig collided with a save, cell skipped")
		return
	}
	if err != nil {
		// a cell that cannot be set up is remembered and the enumeration goes on: a change to the code under test
		// may break the set-up of some cells and the property in others (reported at the end of the test function)
		setupMu.Lock()
		setupFailed = append(setupFailed, fmt.Sprintf("%+v: %v", c, err))
		setupMu.Unlock()
		vkit.Class("cell-could-not-be-set-up")
		return
	}
	class := fmt.Sprintf("%s/%s", c.TState, c.Identity)
	sig := fmt.Sprintf("%+v", c)
	if out.entitled {
		vkit.Case("entitled:"+class, false, sig)
		if out.success {
			vkit.Class("entitled-and-acknowledged")
		} else {
			vkit.Class("entitled-but-refused(recorded, not asserted)")
		}
		return
	}
	if out.dontCare {
		vkit.Case("dont-care:"+class, false, sig)
		return
	}
	bad := ""
	switch {
	case out.leaked != "":
		bad = "tunnel-traffic-delivered"
	case out.remote:
		bad = "forwarded-to-source-node"
	case out.attached:
		bad = "attached"
	case out.success:
		bad = "acknowledged-success"
	}
	why := "mapping=" + c.MState
	if c.MState == "active" {
		why = "cred=" + c.Cred
		if c.EmptySecret {
			why += "(empty-secret-mapping)"
		}
	}
	if bad == "" && !out.acked {
		// "a refused request receives a failure acknowledgement"
		key := fmt.Sprintf("C04/refused-without-failure-ack/%s/identity=%s/%s", branch(c.TState), c.Identity, why)
		vkit.Violation(t, key, fmt.Sprintf("not entitled, nothing attached, but no TunnelOpenAck arrived within 1.5 s (dispatcher error: %q)", out.pushErr), c)
		vkit.Case("known:"+class, true, sig)
		return
	}
	if bad != "" {
		key := fmt.Sprintf("C04/attach-%s/identity=%s/%s", branch(c.TState), c.Identity, why)
		vkit.Violation(t, key, fmt.Sprintf("not entitled but %s (ack success=%v attached=%v leaked=%q remote=%v)", bad, out.success, out.attached, out.leaked, out.remote), c)
		vkit.Case("known:"+class, true, sig)
		return
	}
	vkit.Case("refused:"+class, c.TState != "none", sig)
	if c.TState != "none" {
		vkit.Sample(c.TState, map[string]any{"cell": c, "ack_error": out.ackErr})
	}
}

// TestMatrix enumerates the full product of the property's four dimensions (x secret-less mapping).
func TestMatrix(t *testing.T) {
	i := 0
	for _, es := range []bool{false, true} {
		for _, id := range identities {
			for _, cr := range creds {
				for _, ms := range mstates {
					for _, ts := range tstates {
						for _, be := range backends {
							if be == "redis" && (ts == "none" || ts == "served") {
								continue // the backend matters where records travel through the store
							}
							if (be == "json" || be == "two-node") && ts != "none" && ts != "waiting" {
								continue
							}
							if be == "json-restart" && (ts != "none" || cr == "resume-garbage" || cr == "nothing" || id == "none>L" || id == "failed") {
								continue // tunnels do not survive a restart; a reduced identity x credential product
							}
							i++
							if vkit.Mine(i) {
								check(t, Cell{Identity: id, Cred: cr, MState: ms, TState: ts, EmptySecret: es, ConnType: "tunnel", Backend: be})
							}
							if ts == "none" && be == "memory" {
								// the same cell for a mapping listened by the server itself (ListenClientID 0); its own index, so
								// that it is some shard's cell whatever the number of shards
								i++
								if vkit.Mine(i) {
									check(t, Cell{Identity: id, Cred: cr, MState: ms, TState: ts, EmptySecret: es, ConnType: "tunnel", Backend: be, ServerListened: true})
								}
							}
						}
					}
				}
			}
		}
	}
	vkit.Exhaustive("identity x credential x mapping-state x tunnel-state x secret-less", true)
	reportSetupFailures(t)
}

// TestRandomCells draws cells with generated tunnel ids and handshake connection types.
func TestRandomCells(t *testing.T) {
	vkit.Check(t, 160, 8000, func(t *rapid.T) {
		c := Cell{
			Identity:       rapid.SampledFrom(identities).Draw(t, "identity"),
			Cred:           rapid.SampledFrom(creds).Draw(t, "cred"),
			MState:         rapid.SampledFrom(mstates).Draw(t, "mstate"),
			TState:         rapid.SampledFrom([]string{"waiting", "waiting", "served", "remote", "none", "local-route"}).Draw(t, "tstate"),
			EmptySecret:    rapid.Bool().Draw(t, "emptySecret"),
			ConnType:       rapid.SampledFrom([]string{"tunnel", "control", ""}).Draw(t, "connType"),
			Backend:        rapid.SampledFrom(backends).Draw(t, "backend"),
			ServerListened: rapid.IntRange(0, 4).Draw(t, "serverListened") == 0,
			TunnelID:       rapid.StringMatching(`(tcp|udp|socks5)-tunnel-[0-9]{6,19}-[0-9]{2,5}`).Draw(t, "tid"),
		}
		if c.ServerListened {
			c.TState = "none" // nobody can legitimately open the source side of a server-listened mapping as a client
		}
		if c.Backend == "json-restart" {
			c.TState = "none" // tunnels do not survive the restart
		}
		check(t, c)
	})
	reportSetupFailures(t)
}

func TestReplay(t *testing.T) {
	path := vkit.Replaying()
	if path == "" {
		t.Skip("no VERIF_REPLAY")
	}
	var xc XNCell
	vkit.LoadReplay(path, &xc)
	if xc.CrossNode {
		key, detail, err := runXN(xc)
		if err != nil {
			t.Fatal(err)
		}
		if key != "" {
			vkit.Violation(t, key, detail, xc)
		}
		return
	}
	var rc RaceCase
	vkit.LoadReplay(path, &rc)
	if rc.StateRace != "" {
		out, err := runStateRace(rc)
		if err != nil {
			t.Fatal(err)
		}
		if out.key != "" {
			vkit.Violation(t, out.key, out.detail, rc)
		}
		return
	}
	var uc ReuseCase
	vkit.LoadReplay(path, &uc)
	if uc.IDReuse != "" {
		out, err := runIDReuse(uc)
		if err != nil {
			t.Fatal(err)
		}
		if out.key != "" {
			vkit.Violation(t, out.key, out.detail, uc)
		}
		return
	}
	var c Cell
	if _, err := vkit.LoadReplay(path, &c); err != nil {
		t.Fatal(err)
	}
	check(t, c)
}
