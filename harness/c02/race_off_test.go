//go:build !race

package c02

const raceEnabled = false
