package c02

// A copy loop of the bridge runs in goroutines of the code under test; when one of them panics the
// whole process dies (in production: the server, with every tunnel it carries) and no oracle in the
// same process can report it. The test binary therefore runs the tests in a child process; before
// each case the child stores the case in a file. If the child dies with a Go panic whose top frame
// is tunnox-core code, the parent reports it through vkit.Violation with the stored case as the
// replay unit. Everything else (test failures, timeouts, race reports, harness panics) is passed
// through unchanged.

import (
	"bytes"
	"encoding/json"
	"fmt"
	"io"
	"os"
	"os/exec"
	"path/filepath"
	"sort"
	"strings"
	"sync"
	"testing"

	"tunnox-core/verif/vkit"
)

const (
	envChild   = "C02_CHILD"
	envPending = "C02_PENDING"
	envCrash   = "C02_CRASH"
)

type crashReport struct {
	Key    string          `json:"key"`
	Detail string          `json:"detail"`
	Case   json.RawMessage `json:"case"`
}

func TestMain(m *testing.M) {
	if os.Getenv(envChild) == "" && os.Getenv(envCrash) == "" && os.Getenv("C02_NO_SUPERVISOR") == "" {
		if code, handled := supervise(); handled {
			os.Exit(code)
		}
		// a crash of the code under test was recorded in envCrash: run only the reporting test
		os.Args = append(os.Args, "-test.run=^TestCrashReport$")
	}
	vkit.Main(m, "C02")
}

type tailBuf struct {
	mu sync.Mutex
	bytes.Buffer
}

func (t *tailBuf) Write(p []byte) (int, error) {
	t.mu.Lock()
	defer t.mu.Unlock()
	if t.Len() < 4<<20 {
		t.Buffer.Write(p)
	}
	return len(p), nil
}

func supervise() (code int, handled bool) {
	dir := os.TempDir()
	if out := os.Getenv("VERIF_OUT"); out != "" {
		dir = filepath.Dir(out)
	}
	pending := filepath.Join(dir, fmt.Sprintf("c02-pending-%d.json", os.Getpid()))
	defer os.Remove(pending)
	cmd := exec.Command(os.Args[0], os.Args[1:]...)
	cmd.Env = append(os.Environ(), envChild+"=1", envPending+"="+pending)
	// Under -race a report would end the child (exit 66) at the first racy access of the code under
	// test and nothing else would be explored. Races are not C02 violations by themselves (their
	// consequences on the byte stream are what the oracle checks), so the child logs them and goes
	// on; the parent lists them in the evidence fragment.
	raceLog := ""
	if raceEnabled && os.Getenv("GORACE") == "" {
		raceLog = filepath.Join(dir, fmt.Sprintf("c02-race-%d", os.Getpid()))
		cmd.Env = append(cmd.Env, "GORACE=halt_on_error=0 exitcode=0 log_path="+raceLog)
	}
	defer func() {
		if raceLog != "" {
			reportRaces(raceLog)
		}
	}()
	var buf tailBuf
	cmd.Stdout = io.MultiWriter(os.Stdout, &buf)
	cmd.Stderr = io.MultiWriter(os.Stderr, &buf)
	err := cmd.Run()
	if err == nil {
		return 0, true
	}
	rc := 1
	if ee, ok := err.(*exec.ExitError); ok {
		rc = ee.ExitCode()
		if rc < 0 {
			rc = 2
		}
	}
	key, detail, ok := classifyCrash(buf.String())
	if !ok {
		if raceLog != "" && onlyRaceFailures(buf.String()) {
			// the testing package fails a test during which the detector reported a race, whatever
			// GORACE says; no oracle failed, no crash, no timeout: the races are listed, not judged
			return 0, true
		}
		return rc, true
	}
	rep := crashReport{Key: key, Detail: detail}
	if b, err := os.ReadFile(pending); err == nil && json.Valid(b) {
		rep.Case = b
	} else {
		rep.Case = json.RawMessage("null")
	}
	b, _ := json.Marshal(rep)
	os.Setenv(envCrash, string(b))
	return 0, false
}

// classifyCrash recognises a panic in a goroutine whose innermost module frame is tunnox-core's own
// code (not the harness, not a test timeout, not a race report).
func classifyCrash(out string) (key, detail string, ok bool) {
	i := strings.Index(out, "\npanic: ")
	if i < 0 {
		if strings.HasPrefix(out, "panic: ") {
			i = 0
		} else {
			return "", "", false
		}
	}
	dump := out[i:]
	if strings.HasPrefix(strings.TrimLeft(dump, "\n"), "panic: test timed out") {
		return "", "", false
	}
	lines := strings.Split(strings.TrimLeft(dump, "\n"), "\n")
	msg := lines[0]
	// the first goroutine block after the panic line is the panicking goroutine
	top := ""
	var frames []string
	inBlock := false
	for _, ln := range lines[1:] {
		if strings.HasPrefix(ln, "goroutine ") {
			if inBlock {
				break
			}
			inBlock = true
			continue
		}
		if !inBlock || strings.HasPrefix(ln, "\t") || ln == "" {
			if inBlock && ln == "" {
				break
			}
			continue
		}
		fn := ln
		if j := strings.LastIndex(ln, "("); j > 0 && !strings.HasPrefix(ln, "created by ") {
			fn = ln[:j] // "pkg/path.(*T).Method(args...)": the arguments never contain parentheses
		}
		if strings.HasPrefix(fn, "created by ") {
			frames = append(frames, fn)
			continue
		}
		if strings.HasPrefix(fn, "runtime.") || fn == "panic" {
			continue
		}
		if len(frames) < 6 {
			frames = append(frames, fn)
		}
		if top == "" && strings.HasPrefix(fn, "tunnox-core/") {
			top = fn
		}
	}
	if top == "" || !strings.HasPrefix(top, "tunnox-core/internal/") {
		return "", "", false
	}
	short := strings.TrimPrefix(top, "tunnox-core/internal/")
	if j := strings.LastIndex(short, "/"); j >= 0 {
		short = short[j+1:]
	}
	return "C02/server-panic/" + short, fmt.Sprintf("the server process died: %s; panicking goroutine: %s", msg, strings.Join(frames, " <- ")), true
}

// notePending stores the case about to run (child process only).
func notePending(c Case) {
	p := os.Getenv(envPending)
	if p == "" {
		return
	}
	b, err := json.Marshal(c)
	if err != nil {
		return
	}
	tmp := p + ".tmp"
	if os.WriteFile(tmp, b, 0o644) == nil {
		os.Rename(tmp, p)
	}
}

// TestCrashReport turns a crash of the code under test observed by the supervisor into a violation.
func TestCrashReport(t *testing.T) {
	raw := os.Getenv(envCrash)
	if raw == "" {
		t.Skip("no crash to report")
	}
	var rep crashReport
	if err := json.Unmarshal([]byte(raw), &rep); err != nil {
		t.Fatalf("bad crash report: %v", err)
	}
	var c any
	json.Unmarshal(rep.Case, &c)
	vkit.Violation(t, rep.Key, rep.Detail+" (crashes are schedule dependent: replaying the case may need several attempts)", c)
	vkit.Case("known:"+rep.Key, false, "")
}

// reportRaces summarises the race detector's log files of the child and adds the summary to the
// evidence fragment the child wrote.
func reportRaces(prefix string) {
	files, _ := filepath.Glob(prefix + ".*")
	counts := map[string]int{}
	for _, f := range files {
		b, err := os.ReadFile(f)
		if err != nil {
			continue
		}
		for _, blk := range strings.Split(string(b), "WARNING: DATA RACE")[1:] {
			if i := strings.Index(blk, "=================="); i >= 0 {
				blk = blk[:i]
			}
			var sides []string
			for _, part := range strings.Split(strings.TrimSpace(blk), "\n\n") {
				lines := strings.Split(part, "\n")
				if len(lines) < 2 || !(strings.Contains(lines[0], "rite at ") || strings.Contains(lines[0], "ead at ")) {
					continue
				}
				what := strings.Fields(lines[0])[0]
				if strings.HasPrefix(lines[0], "Previous") {
					what = "previous " + strings.Fields(lines[0])[1]
				}
				site := ""
				for i := 1; i+1 < len(lines); i += 2 {
					fn := strings.TrimSpace(lines[i])
					if j := strings.LastIndex(fn, "("); j > 0 {
						fn = fn[:j]
					}
					if strings.HasPrefix(fn, "tunnox-core/internal/") {
						loc := strings.Fields(strings.TrimSpace(lines[i+1]))
						site = strings.TrimPrefix(fn, "tunnox-core/internal/")
						if len(loc) > 0 {
							site += "@" + filepath.Base(loc[0])
						}
						break
					}
				}
				if site == "" {
					site = "(outside tunnox-core/internal)"
				}
				sides = append(sides, what+" "+site)
			}
			if len(sides) >= 2 {
				counts[sides[0]+" || "+sides[1]]++
			}
		}
		os.Remove(f)
	}
	if len(counts) == 0 {
		return
	}
	var list []string
	total := 0
	for k, n := range counts {
		list = append(list, fmt.Sprintf("%s (x%d)", k, n))
		total += n
	}
	sort.Strings(list)
	fmt.Printf("C02: the race detector reported %d data races (%d distinct) in this shard; not C02 violations by themselves:\n  %s\n", total, len(list), strings.Join(list, "\n  "))
	out := os.Getenv("VERIF_OUT")
	if out == "" {
		return
	}
	b, err := os.ReadFile(out)
	if err != nil {
		return
	}
	var frag map[string]any
	if json.Unmarshal(b, &frag) != nil {
		return
	}
	extra, _ := frag["extra"].(map[string]any)
	if extra == nil {
		extra = map[string]any{}
	}
	extra["data_race_reports"] = total
	extra["data_races_distinct_one_shard"] = list
	frag["extra"] = extra
	if nb, err := json.Marshal(frag); err == nil {
		os.WriteFile(out, nb, 0o644)
	}
}

// onlyRaceFailures reports whether every failing test of the child failed for no other reason than
// "race detected during execution of test".
func onlyRaceFailures(out string) bool {
	if strings.Contains(out, "panic:") || strings.Contains(out, "VIOLATION-KEY") || strings.Contains(out, "fatal error:") {
		return false
	}
	sawFail := false
	inFail := false
	for _, ln := range strings.Split(out, "\n") {
		t := strings.TrimSpace(ln)
		switch {
		case strings.HasPrefix(t, "--- FAIL:"):
			sawFail, inFail = true, true
		case strings.HasPrefix(t, "--- ") || strings.HasPrefix(t, "=== ") || t == "FAIL" || t == "PASS" || t == "" || strings.HasPrefix(t, "C02:"):
			inFail = false
		case inFail && strings.HasPrefix(ln, " "):
			if !strings.Contains(t, "race detected during execution of test") && !strings.Contains(t, "[rapid] OK, passed") {
				return false
			}
		}
	}
	return sawFail
}
