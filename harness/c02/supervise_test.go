package c02

// A copy loop of the bridge runs in goroutines of the code under test; when one of them panics the
// whole process dies (in production: the server, with every tunnel it carries) and no oracle in the
// same process can report it. The test binary therefore runs the tests in a child process; before
// each case the child stores the case in a file. If the child dies with a Go panic whose top frame
// is tunnox-core code, the parent reports it through vkit.Violation with the stored case as the
// replay unit. Everything else (test failures, timeouts, race reports, harness panics) is passed
// through unchanged.

import (
	"bytes"
	"encoding/json"
	"fmt"
	"io"
	"os"
	"os/exec"
	"path/filepath"
	"strings"
	"testing"

	"tunnox-core/verif/vkit"
)

const (
	envChild   = "C02_CHILD"
	envPending = "C02_PENDING"
	envCrash   = "C02_CRASH"
)

type crashReport struct {
	Key    string          `json:"key"`
	Detail string          `json:"detail"`
	Case   json.RawMessage `json:"case"`
}

func TestMain(m *testing.M) {
	if os.Getenv(envChild) == "" && os.Getenv(envCrash) == "" && os.Getenv("C02_NO_SUPERVISOR") == "" {
		if code, handled := supervise(); handled {
			os.Exit(code)
		}
		// a crash of the code under test was recorded in envCrash: run only the reporting test
		os.Args = append(os.Args, "-test.run=^TestCrashReport$")
	}
	vkit.Main(m, "C02")
}

type tailBuf struct {
	bytes.Buffer
}

func (t *tailBuf) Write(p []byte) (int, error) {
	if t.Len() < 4<<20 {
		t.Buffer.Write(p)
	}
	return len(p), nil
}

func supervise() (code int, handled bool) {
	dir := os.TempDir()
	if out := os.Getenv("VERIF_OUT"); out != "" {
		dir = filepath.Dir(out)
	}
	pending := filepath.Join(dir, fmt.Sprintf("c02-pending-%d.json", os.Getpid()))
	defer os.Remove(pending)
	cmd := exec.Command(os.Args[0], os.Args[1:]...)
	cmd.Env = append(os.Environ(), envChild+"=1", envPending+"="+pending)
	var buf tailBuf
	cmd.Stdout = io.MultiWriter(os.Stdout, &buf)
	cmd.Stderr = io.MultiWriter(os.Stderr, &buf)
	err := cmd.Run()
	if err == nil {
		return 0, true
	}
	rc := 1
	if ee, ok := err.(*exec.ExitError); ok {
		rc = ee.ExitCode()
		if rc < 0 {
			rc = 2
		}
	}
	key, detail, ok := classifyCrash(buf.String())
	if !ok {
		return rc, true
	}
	rep := crashReport{Key: key, Detail: detail}
	if b, err := os.ReadFile(pending); err == nil && json.Valid(b) {
		rep.Case = b
	} else {
		rep.Case = json.RawMessage("null")
	}
	b, _ := json.Marshal(rep)
	os.Setenv(envCrash, string(b))
	return 0, false
}

// classifyCrash recognises a panic in a goroutine whose innermost module frame is tunnox-core's own
// code (not the harness, not a test timeout, not a race report).
func classifyCrash(out string) (key, detail string, ok bool) {
	i := strings.Index(out, "\npanic: ")
	if i < 0 {
		if strings.HasPrefix(out, "panic: ") {
			i = 0
		} else {
			return "", "", false
		}
	}
	dump := out[i:]
	if strings.HasPrefix(strings.TrimLeft(dump, "\n"), "panic: test timed out") {
		return "", "", false
	}
	lines := strings.Split(strings.TrimLeft(dump, "\n"), "\n")
	msg := lines[0]
	// the first goroutine block after the panic line is the panicking goroutine
	top := ""
	var frames []string
	inBlock := false
	for _, ln := range lines[1:] {
		if strings.HasPrefix(ln, "goroutine ") {
			if inBlock {
				break
			}
			inBlock = true
			continue
		}
		if !inBlock || strings.HasPrefix(ln, "\t") || ln == "" {
			if inBlock && ln == "" {
				break
			}
			continue
		}
		fn := ln
		if j := strings.LastIndex(ln, "("); j > 0 && !strings.HasPrefix(ln, "created by ") {
			fn = ln[:j] // "pkg/path.(*T).Method(args...)": the arguments never contain parentheses
		}
		if strings.HasPrefix(fn, "created by ") {
			frames = append(frames, fn)
			continue
		}
		if strings.HasPrefix(fn, "runtime.") || fn == "panic" {
			continue
		}
		if len(frames) < 6 {
			frames = append(frames, fn)
		}
		if top == "" && strings.HasPrefix(fn, "tunnox-core/") {
			top = fn
		}
	}
	if top == "" || !strings.HasPrefix(top, "tunnox-core/internal/") {
		return "", "", false
	}
	short := strings.TrimPrefix(top, "tunnox-core/internal/")
	if j := strings.LastIndex(short, "/"); j >= 0 {
		short = short[j+1:]
	}
	return "C02/server-panic/" + short, fmt.Sprintf("the server process died: %s; panicking goroutine: %s", msg, strings.Join(frames, " <- ")), true
}

// notePending stores the case about to run (child process only).
func notePending(c Case) {
	p := os.Getenv(envPending)
	if p == "" {
		return
	}
	b, err := json.Marshal(c)
	if err != nil {
		return
	}
	tmp := p + ".tmp"
	if os.WriteFile(tmp, b, 0o644) == nil {
		os.Rename(tmp, p)
	}
}

// TestCrashReport turns a crash of the code under test observed by the supervisor into a violation.
func TestCrashReport(t *testing.T) {
	raw := os.Getenv(envCrash)
	if raw == "" {
		t.Skip("no crash to report")
	}
	var rep crashReport
	if err := json.Unmarshal([]byte(raw), &rep); err != nil {
		t.Fatalf("bad crash report: %v", err)
	}
	var c any
	json.Unmarshal(rep.Case, &c)
	vkit.Violation(t, rep.Key, rep.Detail+" (crashes are schedule dependent: replaying the case may need several attempts)", c)
	vkit.Case("known:"+rep.Key, false, "")
}
