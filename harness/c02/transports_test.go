package c02

// Other ways a tunnel end reaches the bridge than a plain stream connection handed to the session:
//   - the HTTP-service WebSocket transport (/_tunnox): the real WebSocketModule behind an httptest
//     server, dialled with a gorilla client; the client's BufConn is pumped into WebSocket messages;
//   - a target attached on another node: the real CrossNodeListener on loopback and a "remote node"
//     that sends the TargetReady frame together with the first bytes of the target in one write;
//   - a CloudControl double whose statistics calls hang (stats backend stalled at close time).

import (
	"bytes"
	"context"
	"fmt"
	"io"
	"net"
	"net/http/httptest"
	"strings"
	"sync"
	"time"

	"github.com/gorilla/mux"
	gws "github.com/gorilla/websocket"

	"tunnox-core/internal/cloud/models"
	"tunnox-core/internal/cloud/stats"
	"tunnox-core/internal/httpservice"
	wsmod "tunnox-core/internal/httpservice/modules/websocket"
	"tunnox-core/internal/protocol/session"
	"tunnox-core/verif/vkit"
)

// ---------------------------------------------------------------------------
// WebSocket transport

type wsLink struct {
	http *httptest.Server
	mod  *wsmod.WebSocketModule
	ws   *gws.Conn
	done sync.WaitGroup
	stop context.CancelFunc
}

// dialWS brings up the WebSocket module for sm and connects far (the server-side end of the client's
// BufConn pair) to it: bytes the client writes become binary messages, messages become bytes.
func dialWS(sm *session.SessionManager, far *vkit.BufConn) (*wsLink, error) {
	ctx, cancel := context.WithCancel(context.Background())
	l := &wsLink{stop: cancel}
	l.mod = wsmod.NewWebSocketModule(ctx, &httpservice.WebSocketModuleConfig{Enabled: true})
	l.mod.SetSession(sm)
	router := mux.NewRouter()
	l.mod.RegisterRoutes(router)
	l.http = httptest.NewServer(router)
	url := "ws" + strings.TrimPrefix(l.http.URL, "http") + "/_tunnox"
	d := gws.Dialer{HandshakeTimeout: 5 * time.Second}
	ws, _, err := d.Dial(url, nil)
	if err != nil {
		l.http.Close()
		cancel()
		return nil, err
	}
	l.ws = ws
	l.done.Add(2)
	var wmu sync.Mutex
	go func() { // client -> server
		defer l.done.Done()
		buf := make([]byte, 32*1024)
		for {
			n, err := far.Read(buf)
			if n > 0 {
				wmu.Lock()
				werr := ws.WriteMessage(gws.BinaryMessage, buf[:n])
				wmu.Unlock()
				if werr != nil {
					far.Close()
					return
				}
			}
			if err != nil {
				// the client closed: close the WebSocket the way a client library does
				wmu.Lock()
				ws.WriteControl(gws.CloseMessage, gws.FormatCloseMessage(gws.CloseNormalClosure, ""), time.Now().Add(time.Second))
				wmu.Unlock()
				ws.Close()
				return
			}
		}
	}()
	go func() { // server -> client
		defer l.done.Done()
		for {
			mt, data, err := ws.ReadMessage()
			if err != nil {
				far.Close() // the server closed the WebSocket: the client reads EOF
				return
			}
			if mt != gws.BinaryMessage {
				continue
			}
			if _, err := far.Write(data); err != nil {
				ws.Close()
				far.Close()
				return
			}
		}
	}()
	return l, nil
}

func (l *wsLink) close() {
	l.ws.Close()
	l.http.CloseClientConnections()
	l.http.Close()
	l.stop()
	waitGroupTimeout(&l.done, 5*time.Second)
}

func waitGroupTimeout(wg *sync.WaitGroup, d time.Duration) {
	ch := make(chan struct{})
	go func() { wg.Wait(); close(ch) }()
	select {
	case <-ch:
	case <-time.After(d):
	}
}

// ---------------------------------------------------------------------------
// target on another node

type crossLink struct {
	listener *session.CrossNodeListener
	tcp      *net.TCPConn
	done     sync.WaitGroup
	stop     context.CancelFunc
}

// startCrossNodeListener starts the real listener of the source node on a free loopback port.
func startCrossNodeListener(sm *session.SessionManager) (*crossLink, int, error) {
	var lastErr error
	for try := 0; try < 8; try++ {
		ln, err := net.Listen("tcp", "127.0.0.1:0")
		if err != nil {
			lastErr = err
			continue
		}
		port := ln.Addr().(*net.TCPAddr).Port
		ln.Close()
		ctx, cancel := context.WithCancel(context.Background())
		l := session.NewCrossNodeListener(sm, port)
		if err := l.Start(ctx); err != nil {
			cancel()
			lastErr = err
			continue
		}
		return &crossLink{listener: l, stop: cancel}, port, nil
	}
	return nil, 0, lastErr
}

// attachRemoteTarget plays the node that holds the target end: it dials the source node, and sends
// the TargetReady frame and whatever the target has already written in ONE write (one TCP segment,
// as when the target speaks first); from then on the connection is the raw tunnel stream.
// far is the server-side end of the target client's BufConn pair.
func (l *crossLink) attachRemoteTarget(port int, tunnelID string, far *vkit.BufConn) error {
	c, err := net.DialTimeout("tcp", fmt.Sprintf("127.0.0.1:%d", port), 5*time.Second)
	if err != nil {
		return err
	}
	l.tcp = c.(*net.TCPConn)
	var first bytes.Buffer
	tid, err := session.TunnelIDFromString(tunnelID)
	if err != nil {
		return err
	}
	if err := session.WriteFrameToWriter(&first, tid, session.FrameTypeTargetReady, session.EncodeTargetReadyMessage(tunnelID, "node-target")); err != nil {
		return err
	}
	first.Write(far.ReadAllAvailable())
	if _, err := l.tcp.Write(first.Bytes()); err != nil {
		return err
	}
	l.done.Add(2)
	go func() { // target -> source node
		defer l.done.Done()
		buf := make([]byte, 32*1024)
		for {
			n, err := far.Read(buf)
			if n > 0 {
				if _, werr := l.tcp.Write(buf[:n]); werr != nil {
					return
				}
			}
			if err != nil {
				l.tcp.CloseWrite()
				return
			}
		}
	}()
	go func() { // source node -> target
		defer l.done.Done()
		buf := make([]byte, 32*1024)
		for {
			n, err := l.tcp.Read(buf)
			if n > 0 {
				if _, werr := far.Write(buf[:n]); werr != nil {
					return
				}
			}
			if err != nil {
				far.CloseWrite() // what runCrossNodeDataForwardDedicated does towards a TCP target
				return
			}
		}
	}()
	go func() {
		l.done.Wait()
		l.tcp.Close()
		far.Close()
	}()
	return nil
}

func (l *crossLink) close() {
	if l.tcp != nil {
		l.tcp.Close()
	}
	l.listener.Stop()
	l.stop()
	waitGroupTimeout(&l.done, 5*time.Second)
}

// ---------------------------------------------------------------------------
// stats backend that hangs

// stallCloud is a tunnel.CloudControlAPI whose calls block until released.
type stallCloud struct {
	gate  chan struct{}
	once  sync.Once
	calls sync.Map
	n     int64
	mu    sync.Mutex
}

func newStallCloud() *stallCloud { return &stallCloud{gate: make(chan struct{})} }

func (s *stallCloud) release() { s.once.Do(func() { close(s.gate) }) }

func (s *stallCloud) hit() {
	s.mu.Lock()
	s.n++
	s.mu.Unlock()
	<-s.gate
}

func (s *stallCloud) hits() int64 { s.mu.Lock(); defer s.mu.Unlock(); return s.n }

func (s *stallCloud) GetPortMapping(id string) (*models.PortMapping, error) {
	s.hit()
	return &models.PortMapping{ID: id}, nil
}

func (s *stallCloud) UpdatePortMappingStats(id string, ts *stats.TrafficStats) error {
	s.hit()
	return nil
}

func (s *stallCloud) GetClientPortMappings(clientID int64) ([]*models.PortMapping, error) {
	return nil, nil
}

var _ = io.EOF

// faultCloud is a tunnel.CloudControlAPI whose first failFirst mapping lookups fail (a transient
// read fault of the control plane / state store); everything else works.
type faultCloud struct {
	mu        sync.Mutex
	failFirst int
	lookups   int
	failed    int
}

func (f *faultCloud) GetPortMapping(id string) (*models.PortMapping, error) {
	f.mu.Lock()
	defer f.mu.Unlock()
	f.lookups++
	if f.failed < f.failFirst {
		f.failed++
		return nil, fmt.Errorf("verif: transient read fault of the mapping store")
	}
	return &models.PortMapping{ID: id}, nil
}
func (f *faultCloud) UpdatePortMappingStats(id string, ts *stats.TrafficStats) error { return nil }
func (f *faultCloud) GetClientPortMappings(clientID int64) ([]*models.PortMapping, error) {
	return nil, nil
}
func (f *faultCloud) counts() (lookups, failed int) {
	f.mu.Lock()
	defer f.mu.Unlock()
	return f.lookups, f.failed
}
