// C02 — a tunnel is a transparent, ordered, loss-free byte pipe between its ends.
//
// A real tunnel.Bridge (built through session.NewTunnelBridge / session.CreateTunnelConnection,
// exactly as SessionManager.startSourceBridge and handleExistingBridge do) splices two in-memory
// client connections. rapid draws payloads, write/read chunkings, the bandwidth limit, the moment
// the target attaches and how the tunnel ends; both clients write concurrently.
package c02

import (
	"bytes"
	"context"
	"encoding/json"
	"fmt"
	"io"
	"os"
	"runtime"
	"strings"
	"sync"
	"sync/atomic"
	"testing"
	"time"

	"pgregory.net/rapid"

	corelog "tunnox-core/internal/core/log"

	"tunnox-core/verif/vkit"
)

// TestMain is in supervise_test.go.

const copyBuf = 32 * 1024 // constants.CopyBufferSize: the most one copy-loop Read can return

// ---------------------------------------------------------------------------
// case description (JSON-serialisable: it is the replay unit)

// Ending says how the tunnel ends.
//
//	drain-close-X   both directions fully delivered, then client X closes
//	flush-close-X   X closes right after its last write, having received everything the other end sent
//	                (the other direction is quiescent, X's bytes may still be in flight) — all of X's bytes must arrive
//	early-close-X   X closes after writing K bytes while the other direction may still be flowing
//	fail-read-srvX  the server's Read on X's connection fails once K bytes were read
//	fail-write-srvX the server's Write on X's connection fails once K bytes were written
//	bridge-close    Bridge.Close() is called by Closers goroutines at once after K bytes were delivered in total
//	stall-X-close-Y     X stops reading behind a pipe bounded to K bytes (back-pressure) while Y keeps writing until the
//	                    server's write towards X is blocked; then Y closes and X sends its remaining bytes
//	stall-X-halfclose-X same stall; then X, having sent everything, closes its sending side without draining
//	                    (in both: the server must let go of both connections and forget the tunnel while X still
//	                    does not read; afterwards X drains a prefix and sees EOF)
type Ending struct {
	Kind    string `json:"kind"`
	K       int    `json:"k"`
	Closers int    `json:"closers,omitempty"`
	// ErrKind is what an injected fail-* error looks like: "" a generic error, "timeout-forever" a
	// permanent error reporting Timeout()==true and Temporary()==false on every call (QUIC idle
	// timeout), "eof" a clean io.EOF.
	ErrKind string `json:"err_kind,omitempty"`
}

type Case struct {
	LenAB  int    `json:"len_ab"` // bytes the source client A sends to the target client B
	LenBA  int    `json:"len_ba"`
	SeedAB uint64 `json:"seed_ab"`
	SeedBA uint64 `json:"seed_ba"`
	// write sizes of the two clients (cycled); empty = one Write with everything
	WritesAB []int `json:"writes_ab,omitempty"`
	WritesBA []int `json:"writes_ba,omitempty"`
	Pace     int   `json:"pace"` // 0 none, 1 Gosched after every write, 2 100µs sleep every 16 writes
	// short reads: cap per Read on the server's end of A's / B's connection and on the clients' ends
	SrvReadCapA int    `json:"srv_read_cap_a"`
	SrvReadCapB int    `json:"srv_read_cap_b"`
	CliReadCapA int    `json:"cli_read_cap_a"`
	CliReadCapB int    `json:"cli_read_cap_b"`
	DataWithEOF bool   `json:"data_with_eof"`  // the server's conns return the last bytes together with io.EOF
	Limit       int64  `json:"limit"`          // BandwidthLimit, bytes/s, 0 = none
	Attach      string `json:"attach"`         // before-start | after-start | after-first-write
	Stream      bool   `json:"stream"`         // connections carry a StreamProcessor (TunnelOpen path) or are raw (StartServerTunnel path)
	Mini        bool   `json:"mini,omitempty"` // run through the mini-server: handshakes + TunnelOpen packets, bridge owned by SessionManager
	// SpreadMs > 0: both writers spread their writes evenly over this many milliseconds (a tunnel that lives)
	SpreadMs int `json:"spread_ms,omitempty"`
	// HeartbeatMs > 0 (session rig): SessionConfig.HeartbeatTimeout in ms, CleanupInterval = a quarter of it.
	// Tunnel connections carry raw bytes and never send heartbeats.
	HeartbeatMs int `json:"heartbeat_ms,omitempty"`
	// SameClient (session rig): the mapping's listen and target client are one client that opens both
	// tunnel connections (loopback mapping)
	SameClient bool `json:"same_client,omitempty"`
	// WSEnd "A"/"B" (session rig): that end's tunnel connection comes in through the HTTP service's
	// WebSocket transport (/_tunnox): real WebSocketModule + WebSocketServerConn over loopback
	WSEnd string `json:"ws_end,omitempty"`
	// CrossNode (session rig): the target is attached on another node which forwards it to this node's
	// CrossNodeListener; the TargetReady frame and the target's first bytes arrive in one TCP write
	CrossNode bool `json:"cross_node,omitempty"`
	// AdapterWS "A"/"B" (bridge rig): that end is attached through the WebSocket transport adapter
	// (internal/protocol/adapter wsServerConn over a loopback gorilla pair); one client Write = one message
	AdapterWS string `json:"adapter_ws,omitempty"`
	// RealEnd "A"/"B" (bridge rig): that end is a real RealProto ("tcp" / "quic") socket accepted by the
	// server's own transport adapter on loopback; a QUIC client finishes its stream right after its last write
	RealEnd   string `json:"real_end,omitempty"`
	RealProto string `json:"real_proto,omitempty"`
	// ReadPaceUs > 0: the end named by PauseEnd reads slowly: it sleeps this long per 16 KiB it has read
	// (behind the PausePipe-bounded pipe), PauseMs may be 0
	ReadPaceUs int `json:"read_pace_us,omitempty"`
	// StatsFault (bridge rig): traffic accounting is configured and the first mapping lookup of a traffic
	// report fails once (a transient read fault at a periodic report tick)
	StatsFault bool `json:"stats_fault,omitempty"`
	// StorageOutage (session rig): every storage operation fails from the moment both ends are attached
	StorageOutage bool `json:"storage_outage,omitempty"`
	// StatsStall (bridge rig): traffic accounting is configured and its backend (CloudControl) hangs
	// from the start until the harness has seen both ends closed
	StatsStall bool `json:"stats_stall,omitempty"`
	// PauseEnd "A"/"B": that end does not read for PauseMs behind a pipe bounded to PausePipe bytes, then
	// reads on (a slow consumer; nobody closes meanwhile)
	PauseEnd  string `json:"pause_end,omitempty"`
	PauseMs   int    `json:"pause_ms,omitempty"`
	PausePipe int    `json:"pause_pipe,omitempty"`
	Ending    Ending `json:"ending"`
}

func payload(n int, seed uint64) []byte {
	b := make([]byte, n)
	x := seed | 1
	for i := range b {
		x ^= x << 13
		x ^= x >> 7
		x ^= x << 17
		b[i] = byte(x >> 24)
	}
	return b
}

// expectedTransfer is the time the token bucket needs for all bytes of the case (both directions share it).
func (c Case) expectedTransfer() time.Duration {
	if c.ReadPaceUs > 0 {
		n := c.LenAB
		if c.PauseEnd == "A" {
			n = c.LenBA
		}
		// nominal time of the paced reader (sleeps overshoot on a busy machine: the bound uses 4x this)
		return time.Duration(n/16384+1) * time.Duration(c.ReadPaceUs) * time.Microsecond * 2
	}
	if c.Limit <= 0 {
		return 0
	}
	over := int64(c.LenAB+c.LenBA) - 2*c.Limit
	if over < 0 {
		over = 0
	}
	return time.Duration(float64(over) / float64(c.Limit) * float64(time.Second))
}

// ---------------------------------------------------------------------------
// fakes

// srvConn is the server's end of a client connection: a BufConn that records the largest Read
// and can hand out the final bytes together with io.EOF (legal io.Reader behaviour).
type srvConn struct {
	*vkit.BufConn
	maxRead     atomic.Int64
	reads       atomic.Int64
	dataWithEOF bool
	peerClosed  atomic.Bool // set by the harness after the client's Close returned
}

func (c *srvConn) Read(p []byte) (int, error) {
	n, err := c.BufConn.Read(p)
	c.reads.Add(1)
	if int64(n) > c.maxRead.Load() {
		c.maxRead.Store(int64(n))
	}
	if n > 0 && err == nil && c.dataWithEOF && c.peerClosed.Load() && c.BufConn.Pending() == 0 {
		return n, io.EOF
	}
	return n, err
}

// end is one client.
type end struct {
	name   string
	conn   *vkit.BufConn
	srv    *srvConn
	send   []byte
	expect []byte

	recv      atomic.Int64
	sent      atomic.Int64
	firstRecv atomic.Int64
	firstSent atomic.Int64
	lastRecv  atomic.Int64

	readDone   chan struct{}
	readErr    error
	doneAt     time.Time
	writeDone  chan struct{}
	firstWrite chan struct{}

	stall  chan struct{} // non-nil: the reader does not read until it is closed
	tail   int           // the writer holds its last tail bytes back until tailGo is closed
	tailGo chan struct{}
	gap    time.Duration // pause after every write
	pause  time.Duration // the reader starts reading only after this long
	pace   time.Duration // the reader sleeps this long per 16 KiB read
	abort  chan struct{} // closed at the end of the case
	// closeOnEOF: a client that closes its connection when it reads EOF (needed where the server only
	// half-closes towards it: cross-node forward)
	closeOnEOF bool

	mu  sync.Mutex
	bad string
}

func (e *end) reader() {
	defer close(e.readDone)
	if e.stall != nil {
		<-e.stall
	}
	if e.pause > 0 {
		select {
		case <-time.After(e.pause):
		case <-e.abort:
		}
	}
	buf := make([]byte, 64*1024)
	off := 0
	for {
		n, err := e.conn.Read(buf)
		if n > 0 {
			now := time.Now().UnixNano()
			if off == 0 {
				e.firstRecv.Store(now)
			}
			e.lastRecv.Store(now)
			e.mu.Lock()
			if e.bad == "" {
				if off+n > len(e.expect) {
					e.bad = fmt.Sprintf("end %s received %d bytes but only %d were sent", e.name, off+n, len(e.expect))
				} else if !bytes.Equal(buf[:n], e.expect[off:off+n]) {
					d := 0
					for d < n && buf[d] == e.expect[off+d] {
						d++
					}
					e.bad = fmt.Sprintf("end %s: received stream differs from the sent stream at offset %d (read of %d bytes at offset %d)", e.name, off+d, n, off)
				}
			}
			e.mu.Unlock()
			off += n
			e.recv.Store(int64(off))
			if e.pace > 0 {
				time.Sleep(e.pace * time.Duration(n+16383) / 16384)
			}
		}
		if err != nil {
			e.readErr = err
			e.doneAt = time.Now()
			if e.closeOnEOF {
				e.closeClient()
			}
			return
		}
	}
}

func (e *end) writer(sizes []int, upTo int, pace int, closeAfter bool) {
	defer close(e.writeDone)
	off, i, first := 0, 0, false
	held := e.tail > 0 && e.tail <= upTo
	for off < upTo {
		if held && off >= upTo-e.tail {
			<-e.tailGo
			held = false
		}
		sz := upTo - off
		if held && sz > upTo-e.tail-off {
			sz = upTo - e.tail - off
		}
		if len(sizes) > 0 {
			sz = sizes[i%len(sizes)]
			i++
			if sz < 1 {
				sz = 1
			}
			if sz > upTo-off {
				sz = upTo - off
			}
			if held && sz > upTo-e.tail-off {
				sz = upTo - e.tail - off
			}
		}
		n, err := e.conn.Write(e.send[off : off+sz])
		off += n
		e.sent.Store(int64(off))
		if !first {
			first = true
			if n > 0 {
				e.firstSent.Store(time.Now().UnixNano())
			}
			close(e.firstWrite)
		}
		if err != nil {
			return
		}
		if e.gap > 0 {
			time.Sleep(e.gap)
		}
		switch pace {
		case 1:
			runtime.Gosched()
		case 2:
			if i%16 == 0 {
				time.Sleep(100 * time.Microsecond)
			}
		}
	}
	if !first {
		close(e.firstWrite)
	}
	if closeAfter {
		e.closeClient()
	}
}

// spreadGap is the pause after each write that spreads a writer's writes over ms milliseconds.
func spreadGap(ms int, sizes []int, n int) time.Duration {
	writes := 1
	if len(sizes) > 0 && n > 0 {
		writes = 0
		for off, i := 0, 0; off < n; i++ {
			sz := sizes[i%len(sizes)]
			if sz < 1 {
				sz = 1
			}
			off += sz
			writes++
		}
	}
	return time.Duration(ms) * time.Millisecond / time.Duration(writes)
}

func bitsLen(n int) int {
	l := 0
	for n > 0 {
		l++
		n >>= 1
	}
	if l == 0 {
		l = 1
	}
	return l
}

func (e *end) closeClient() {
	e.conn.Close()
	e.srv.peerClosed.Store(true)
}

func isDone(ch chan struct{}) bool {
	select {
	case <-ch:
		return true
	default:
		return false
	}
}

func waitFor(d time.Duration, cond func() bool) bool {
	deadline := time.Now().Add(d)
	sleep := 20 * time.Microsecond
	for {
		if cond() {
			return true
		}
		if time.Now().After(deadline) {
			return cond()
		}
		time.Sleep(sleep)
		if sleep < 2*time.Millisecond {
			sleep *= 2
		}
	}
}

// ---------------------------------------------------------------------------
// execution + oracle

type failure struct {
	key, detail string
	timing      bool // a bounded-time expectation expired: re-run once before reporting
}

type obs struct {
	inconclusive bool
	overlap      bool
	maxReadA     int64
	maxReadB     int64
	readsA       int64
	readsB       int64
	recvA, recvB int64
	closeLatency time.Duration
	statsPending bool
}

func limClass(l int64) string { return fmt.Sprintf("limit=%d", l) }

func baseBound() time.Duration {
	return time.Duration(vkit.Pick(3, 6)) * time.Second
}

func runCase(c Case, boundScale int) (*failure, *obs) {
	o := &obs{}
	pAB, pBA := payload(c.LenAB, c.SeedAB), payload(c.LenBA, c.SeedBA)
	var r *rig
	var ferr *failure
	if c.Mini {
		r, ferr = newMiniRig(c)
	} else {
		r = newDirectRig(c)
	}
	if ferr != nil {
		return ferr, o
	}
	if r.setupErr != nil {
		r.aN.Close()
		r.bN.Close()
		r.aS.Close()
		r.bS.Close()
		r.cleanup()
		return r.setupErr, o
	}
	aN, bN, aS, bS := r.aN, r.bN, r.aS, r.bS
	A := &end{name: "A", conn: aN, srv: aS, send: pAB, expect: pBA, readDone: make(chan struct{}), writeDone: make(chan struct{}), firstWrite: make(chan struct{})}
	B := &end{name: "B", conn: bN, srv: bS, send: pBA, expect: pAB, readDone: make(chan struct{}), writeDone: make(chan struct{}), firstWrite: make(chan struct{})}
	var stallX, stallY *end // back-pressure endings: X stops reading, Y is the other end
	switch c.Ending.Kind {
	case "stall-A-close-B", "stall-A-halfclose-A":
		stallX, stallY = A, B
	case "stall-B-close-A", "stall-B-halfclose-B":
		stallX, stallY = B, A
	}
	halfClose := strings.Contains(c.Ending.Kind, "halfclose")
	stallReleased := false
	if stallX != nil {
		stallX.stall = make(chan struct{})
		if !halfClose {
			stallX.tail = len(stallX.send) / 2 // at least one byte goes out before the stall, at least one after
			stallX.tailGo = make(chan struct{})
		}
	}
	releaseStall := func() {
		if stallX != nil && !stallReleased {
			stallReleased = true
			close(stallX.stall)
			if stallX.tailGo != nil {
				select {
				case <-stallX.tailGo:
				default:
					close(stallX.tailGo)
				}
			}
		}
	}
	abort := make(chan struct{})
	A.abort, B.abort = abort, abort
	var pauseX *end
	switch c.PauseEnd {
	case "A":
		pauseX = A
	case "B":
		pauseX = B
	}
	if pauseX != nil {
		pauseX.pause = time.Duration(c.PauseMs) * time.Millisecond
		pauseX.pace = time.Duration(c.ReadPaceUs) * time.Microsecond
	}
	if c.CrossNode {
		A.closeOnEOF, B.closeOnEOF = true, true
	}
	if c.SpreadMs > 0 {
		A.gap = spreadGap(c.SpreadMs, c.WritesAB, c.LenAB)
		B.gap = spreadGap(c.SpreadMs, c.WritesBA, c.LenBA)
	}
	var bg sync.WaitGroup
	launched := false
	defer func() {
		// nothing of this case may outlive it
		releaseStall()
		close(abort)
		r.release()
		aN.Close()
		bN.Close()
		aS.Close()
		bS.Close()
		r.cleanup()
		if launched {
			waitFor(5*time.Second, func() bool {
				return isDone(A.readDone) && isDone(B.readDone) && isDone(A.writeDone) && isDone(B.writeDone)
			})
		}
		bg.Wait()
	}()

	earlyA, earlyB := c.Ending.Kind == "early-close-A", c.Ending.Kind == "early-close-B"
	upA, upB := c.LenAB, c.LenBA
	if earlyA {
		upA = c.Ending.K
	}
	if earlyB {
		upB = c.Ending.K
	}
	kind := c.Ending.Kind
	attach := c.Attach
	if c.Mini && attach == "before-start" {
		attach = "after-start" // the server starts the bridge when the source's TunnelOpen arrives
	}
	// Injected transport errors are armed before the bridge can touch the connection concerned: a
	// Read that is already blocked, or bytes that already went through, would never see them.
	// Offsets count tunnel bytes only; on the mini-server the handshake replies and the
	// TunnelOpenAck precede them on the wire (the server reads nothing from a tunnel connection
	// before the bridge does: packets are pushed to the dispatcher).
	switch kind {
	case "fail-read-srvA":
		aS.FailReadAfter.Store(int64(c.Ending.K))
	case "fail-read-srvB":
		bS.FailReadAfter.Store(int64(c.Ending.K))
	case "fail-write-srvA":
		if !c.Mini {
			aS.FailWriteAfter.Store(int64(c.Ending.K))
		}
	case "fail-write-srvB":
		if !c.Mini {
			bS.FailWriteAfter.Store(int64(c.Ending.K))
		}
	}
	// mini-server + failing writes towards B: nothing may flow towards B before the offset is known,
	// i.e. before B consumed its ack; A's writer waits for that
	delayA := c.Mini && kind == "fail-write-srvB"
	if delayA && attach == "after-first-write" {
		attach = "after-start"
	}
	if attach == "before-start" {
		if f := r.attach(); f != nil {
			return f, o
		}
	}
	if f := r.start(); f != nil {
		return f, o
	}
	// what a client consumed so far is exactly what the server wrote ahead of the tunnel bytes
	baseA, baseB := aN.BytesRead(), bN.BytesRead()
	if c.Mini && kind == "fail-write-srvA" {
		aS.FailWriteAfter.Store(baseA + int64(c.Ending.K)) // bytes towards A only exist once B is attached and writing
	}
	if stallX == A {
		aN.SetMaxBuffered(c.Ending.K) // the server's writes towards A block once K bytes are unread
	}
	if pauseX == A && c.PausePipe > 0 {
		aN.SetMaxBuffered(c.PausePipe)
	}
	pauseUntil := time.Now().Add(time.Duration(c.PauseMs)*time.Millisecond + 500*time.Millisecond)
	launched = true
	aWriter := false
	startAWriter := func() {
		aWriter = true
		go A.writer(c.WritesAB, upA, c.Pace, earlyA)
	}
	defer func() {
		if !aWriter {
			close(A.writeDone)
		}
	}()
	go A.reader()
	if !delayA {
		startAWriter()
	}
	startB := func() {
		baseB = bN.BytesRead()
		if c.Mini && kind == "fail-write-srvB" {
			bS.FailWriteAfter.Store(baseB + int64(c.Ending.K))
		}
		if stallX == B {
			bN.SetMaxBuffered(c.Ending.K)
		}
		if pauseX == B && c.PausePipe > 0 {
			bN.SetMaxBuffered(c.PausePipe)
		}
		if pauseX == B {
			pauseUntil = time.Now().Add(time.Duration(c.PauseMs)*time.Millisecond + 500*time.Millisecond)
		}
		go B.reader()
		go B.writer(c.WritesBA, upB, c.Pace, earlyB)
	}
	bFirst := !c.Mini || c.CrossNode
	if bFirst {
		startB() // bytes B sends before the server attaches it wait in its connection
	}
	if c.CrossNode && upB > 0 {
		// the target speaks first: its first bytes travel with the TargetReady frame
		select {
		case <-B.firstWrite:
		case <-time.After(20 * time.Second):
			return &failure{key: "C02/harness/first-write-never-happened", detail: kind}, o
		}
	}
	var af *failure
	switch attach {
	case "after-start":
		for i := 0; i < 20; i++ {
			runtime.Gosched()
		}
		af = r.attach()
	case "after-first-write":
		select {
		case <-A.firstWrite:
		case <-time.After(20 * time.Second):
			return &failure{key: "C02/harness/first-write-never-happened", detail: kind}, o
		}
		af = r.attach()
	}
	if !bFirst {
		startB() // B's TunnelOpenAck has to be consumed as a packet before raw bytes flow
	}
	if delayA {
		startAWriter()
	}
	if af != nil {
		return af, o
	}
	if c.StorageOutage {
		r.outage(true) // both ends are attached: from now on the state store is down
	}
	startDone := r.ended
	caseStart := time.Now()

	expT := c.expectedTransfer()
	bound := time.Duration(boundScale) * (baseBound() + 4*expT)
	fill := func() {
		o.maxReadA, o.maxReadB = aS.maxRead.Load(), bS.maxRead.Load()
		o.readsA, o.readsB = aS.reads.Load(), bS.reads.Load()
		o.recvA, o.recvB = A.recv.Load(), B.recv.Load()
		// a direction is in flight from its sender's first Write to its receiver's last Read
		fa, la, fb, lb := B.firstSent.Load(), A.lastRecv.Load(), A.firstSent.Load(), B.lastRecv.Load()
		if fa != 0 && fb != 0 && la != 0 && lb != 0 {
			lo, hi := fa, la
			if fb > lo {
				lo = fb
			}
			if lb < hi {
				hi = lb
			}
			o.overlap = lo <= hi
		}
	}
	// lossKey names the root cause of undelivered bytes as far as the case shows it.
	lossKey := func() string {
		fill()
		if c.Limit > 0 && 2*c.Limit < copyBuf && (o.maxReadA > 2*c.Limit || o.maxReadB > 2*c.Limit) {
			return "C02/loss/limiter-burst-smaller-than-read/" + limClass(c.Limit)
		}
		if c.Mini && c.HeartbeatMs > 0 && time.Since(caseStart) > time.Duration(c.HeartbeatMs)*time.Millisecond {
			return fmt.Sprintf("C02/session/healthy-tunnel-closed-by-server/older-than-heartbeat-timeout/%s", kind)
		}
		dir := ""
		if B.recv.Load() < int64(c.LenAB) {
			dir += "a->b"
		}
		if A.recv.Load() < int64(c.LenBA) {
			dir += "b->a"
		}
		l := "unlimited"
		if c.Limit > 0 {
			l = "limited"
		}
		if c.WSEnd != "" && kind == "flush-close-"+c.WSEnd {
			// the WebSocket end wrote everything and closed at once: WebSocketServerConn.Read checks
			// "closed" before the messages still queued in its stream channel
			return "C02/websocket/queued-data-dropped-when-the-ws-end-closes/end=" + c.WSEnd
		}
		ctxs := ""
		if c.WSEnd != "" {
			ctxs += "/websocket-end=" + c.WSEnd
			if c.PauseMs > 0 {
				ctxs += "/slow-consumer"
			}
		}
		if c.CrossNode {
			ctxs += "/cross-node-target"
		}
		if c.AdapterWS != "" {
			big := 0
			for _, w := range append(append([]int{}, c.WritesAB...), c.WritesBA...) {
				if w > big {
					big = w
				}
			}
			ctxs += "/adapter-websocket-end=" + c.AdapterWS
			if big > 64*1024 {
				ctxs += fmt.Sprintf("/message>%dKiB", 64*(1<<uint(bitsLen(big/65536)-1)))
			}
		}
		if c.StorageOutage {
			ctxs += "/storage-outage"
		}
		if c.StatsFault {
			if _, f := r.statsLookups(); f > 0 {
				ctxs += "/after-a-failed-mapping-lookup-of-a-traffic-report"
			}
		}
		if c.RealEnd != "" {
			ctxs += "/real-" + c.RealProto + "-end=" + c.RealEnd
			if c.ReadPaceUs > 0 {
				ctxs += "/slow-reader=" + c.PauseEnd
			}
		}
		return "C02/loss/" + kind + "/" + l + "/" + dir + ctxs
	}
	state := func() string {
		return fmt.Sprintf("A received %d/%d, B received %d/%d; server wrote %d to A, %d to B; server conns closed: A=%v B=%v; largest server read A=%d B=%d; A read err=%v, B read err=%v",
			A.recv.Load(), c.LenBA, B.recv.Load(), c.LenAB, aS.BytesWritten()-baseA, bS.BytesWritten()-baseB, aS.IsClosed(), bS.IsClosed(), aS.maxRead.Load(), bS.maxRead.Load(), rdErr(A), rdErr(B))
	}
	premature := func() bool { return isDone(A.readDone) || isDone(B.readDone) || startDone() }
	// waitPre waits for a precondition that must come true as long as nobody closed; a closure
	// observed before it is a loss, an expired deadline without closure is only slowness.
	// No byte moving anywhere for a whole bound while bytes are due and the tunnel is open is a
	// stall (a bounded-time expectation: re-run once), not slowness.
	waitPre := func(pre func() bool) (*failure, bool) {
		progress := func() int64 { return A.recv.Load() + B.recv.Load() + A.sent.Load() + B.sent.Load() }
		last, lastAt := progress(), time.Now()
		stalled := false
		overall := bound + 5*time.Second + time.Duration(c.SpreadMs+c.PauseMs)*time.Millisecond
		ok := waitFor(overall, func() bool {
			if pre() || premature() {
				return true
			}
			if p := progress(); p != last || time.Now().Before(pauseUntil) {
				last, lastAt = p, time.Now()
			} else if time.Since(lastAt) > bound {
				stalled = true
				return true
			}
			return false
		})
		if pre() {
			return nil, true
		}
		if stalled && !premature() && !aS.IsClosed() && !bS.IsClosed() {
			fill()
			dir := ""
			if B.recv.Load() < int64(upA) {
				dir += "a->b"
			}
			if A.recv.Load() < int64(upB) {
				dir += "b->a"
			}
			where := r.name
			if aS.reads.Load() == 0 && bS.reads.Load() == 0 && c.WSEnd == "" && c.AdapterWS == "" && c.RealEnd == "" && !c.CrossNode {
				where += "/bridge-never-read-either-end"
			}
			if c.CrossNode {
				where += "/cross-node-target"
			}
			if c.WSEnd != "" {
				where += "/websocket-end=" + c.WSEnd
			}
			return &failure{key: "C02/stalled/" + where + "/" + kind + "/" + dir, timing: true,
				detail: fmt.Sprintf("both ends are attached and nobody closed, yet no byte was delivered for %v: %s", bound, state())}, false
		}
		if premature() || aS.IsClosed() || bS.IsClosed() {
			// let the closure settle so the detail is complete
			waitFor(200*time.Millisecond, func() bool { return isDone(A.readDone) && isDone(B.readDone) })
			if pre() {
				return nil, true
			}
			return &failure{key: lossKey(), detail: "the bridge closed the tunnel although neither end had closed or failed: " + state()}, false
		}
		_ = ok
		o.inconclusive = true
		return nil, false
	}

	var t0 time.Time
	switch kind {
	case "drain-close-A", "drain-close-B", "drain-close-both":
		f, ok := waitPre(func() bool { return A.recv.Load() == int64(c.LenBA) && B.recv.Load() == int64(c.LenAB) })
		if !ok {
			return f, o
		}
		t0 = time.Now()
		switch kind {
		case "drain-close-A":
			A.closeClient()
		case "drain-close-B":
			B.closeClient()
		default:
			// delivery only: a transport without close signalling (KCP has no FIN) cannot show its client
			// that the server let go, nor the server that the client left
			A.closeClient()
			B.closeClient()
		}
	case "flush-close-A", "flush-close-B":
		X := A
		if kind == "flush-close-B" {
			X = B
		}
		f, ok := waitPre(func() bool { return isDone(X.writeDone) && X.recv.Load() == int64(len(X.expect)) })
		if !ok {
			return f, o
		}
		t0 = time.Now()
		X.closeClient()
	case "early-close-A", "early-close-B":
		X := A
		if earlyB {
			X = B
		}
		<-X.writeDone // writes never block
		t0 = time.Now()
	case "fail-read-srvA", "fail-read-srvB", "fail-write-srvA", "fail-write-srvB":
		<-A.writeDone
		<-B.writeDone
		t0 = time.Now()
	case "stall-A-close-B", "stall-B-close-A", "stall-A-halfclose-A", "stall-B-halfclose-B":
		X, Y := stallX, stallY
		// until the pipe towards X is full and everything else is written, nothing may close
		f, ok := waitPre(func() bool {
			if X.conn.Pending() < c.Ending.K || !isDone(Y.writeDone) {
				return false
			}
			if halfClose {
				return isDone(X.writeDone) && Y.recv.Load() == int64(len(X.send))
			}
			return X.sent.Load() == int64(len(X.send)-X.tail) && Y.recv.Load() == X.sent.Load()
		})
		if !ok {
			return f, o
		}
		time.Sleep(3 * time.Millisecond) // let the server's copy loop park in its Write towards X
		t0 = time.Now()
		if halfClose {
			X.conn.CloseWrite()
			X.srv.peerClosed.Store(true)
		} else {
			Y.closeClient()
			close(X.tailGo) // X sends on: the server's write to Y fails
		}
		// X is still not reading: the server must let go all the same
		if !waitFor(bound, func() bool { return aS.IsClosed() && bS.IsClosed() && startDone() }) {
			fill()
			return &failure{key: "C02/no-closure/" + kind + "/server-holds-on-while-write-is-back-pressured", timing: true,
				detail: fmt.Sprintf("%v after the event (end %s not reading, %d bytes unread in a %d-byte pipe) the server still holds connections or the tunnel: ended=%v; %s",
					time.Since(t0).Round(time.Millisecond), X.name, X.conn.Pending(), c.Ending.K, startDone(), state())}, o
		}
		releaseStall()
	case "bridge-close":
		f, ok := waitPre(func() bool { return A.recv.Load()+B.recv.Load() >= int64(c.Ending.K) })
		if !ok {
			return f, o
		}
		n := c.Ending.Closers
		if n < 1 {
			n = 1
		}
		var flag atomic.Bool
		var ready sync.WaitGroup
		for i := 0; i < n; i++ {
			bg.Add(1)
			ready.Add(1)
			go func() {
				defer bg.Done()
				ready.Done()
				for !flag.Load() {
				}
				r.closeBridge()
			}()
		}
		ready.Wait()
		t0 = time.Now()
		flag.Store(true)
	default:
		return &failure{key: "C02/harness/unknown-ending", detail: kind}, o
	}

	kindKey := kind
	if c.Ending.ErrKind != "" {
		kindKey += ":" + c.Ending.ErrKind
	}
	if c.Mini && c.SameClient {
		kindKey += "/same-client-mapping"
	}
	if c.StatsStall {
		kindKey += "/stats-backend-stalled"
	}
	if c.CrossNode {
		kindKey += "/cross-node-target"
	}
	if c.WSEnd != "" {
		kindKey += "/websocket-end=" + c.WSEnd
	}
	if c.AdapterWS != "" {
		kindKey += "/adapter-websocket-end=" + c.AdapterWS
	}
	if c.StorageOutage {
		kindKey += "/storage-outage-at-teardown"
	}
	if c.RealEnd != "" {
		kindKey += "/real-" + c.RealProto + "-end=" + c.RealEnd
	}
	// after the first close / failure: both ends observe closure within bounded time
	if !waitFor(bound, func() bool { return isDone(A.readDone) && isDone(B.readDone) }) {
		who := ""
		if !isDone(A.readDone) {
			who += "A"
		}
		if !isDone(B.readDone) {
			who += "B"
		}
		fill()
		return &failure{key: "C02/no-closure/" + kindKey + "/end=" + who, timing: true,
			detail: fmt.Sprintf("%v after the %s event end %s still has no EOF/error on Read: %s", time.Since(t0).Round(time.Millisecond), kind, who, state())}, o
	}
	last := A.doneAt
	if B.doneAt.After(last) {
		last = B.doneAt
	}
	if d := last.Sub(t0); d > 0 {
		o.closeLatency = d
	}
	if c.StatsStall {
		// the statistics backend is still hanging: the server must have let go of both connections
		// nevertheless; only then the backend answers and the run can end
		if !waitFor(bound, func() bool { return aS.IsClosed() && bS.IsClosed() }) {
			fill()
			return &failure{key: "C02/server-conn-left-open/" + kindKey, timing: true, detail: "while the statistics backend hangs: " + state()}, o
		}
		if r.statsHits() > 0 {
			o.statsPending = true
		}
		r.release()
	}
	// ... and the bridge run ends (runBridgeLifecycle forgets the tunnel when Start returns)
	if !waitFor(bound, startDone) {
		fill()
		return &failure{key: "C02/tunnel-not-forgotten/" + r.name + "/" + kindKey, timing: true,
			detail: fmt.Sprintf("%v after both ends saw closure %s: %s", time.Since(t0).Round(time.Millisecond), r.endedWhat, state())}, o
	}
	fill()
	// received == prefix of sent, checked on every read
	for _, e := range []*end{A, B} {
		e.mu.Lock()
		bad := e.bad
		e.mu.Unlock()
		if bad != "" {
			dir := "a->b"
			if e == A {
				dir = "b->a"
			}
			if c.CrossNode {
				dir += "/cross-node-target"
			}
			if c.WSEnd != "" {
				dir += "/websocket-end=" + c.WSEnd
			}
			return &failure{key: "C02/not-a-prefix/" + dir, detail: bad + "; " + state()}, o
		}
	}
	// completeness where nobody closed early
	switch kind {
	case "drain-close-A", "drain-close-B":
		// established before the close
	case "stall-A-halfclose-A", "stall-B-halfclose-B":
		if stallY.recv.Load() != int64(len(stallX.send)) {
			return &failure{key: lossKey(), detail: stallX.name + " sent everything and closed its sending side but the other end did not receive all of it: " + state()}, o
		}
	case "flush-close-A":
		if B.recv.Load() != int64(c.LenAB) {
			return &failure{key: lossKey(), detail: "A closed after its last write (nothing else in flight) but B did not receive all of A's bytes: " + state()}, o
		}
	case "flush-close-B":
		if A.recv.Load() != int64(c.LenBA) {
			return &failure{key: lossKey(), detail: "B closed after its last write (nothing else in flight) but A did not receive all of B's bytes: " + state()}, o
		}
	}
	// byte counters equal delivered byte counts
	sentCtr, recvCtr := r.counters()
	if r.noCounters {
		sentCtr, recvCtr = bS.BytesWritten()-baseB, aS.BytesWritten()-baseA
	}
	// towards a WebSocket end the harness only sees what the client-side relay handed on, not what the
	// server wrote into the socket
	if c.WSEnd == "A" || c.AdapterWS == "A" || c.RealEnd == "A" {
		recvCtr = aS.BytesWritten() - baseA
	}
	if c.WSEnd == "B" || c.AdapterWS == "B" || c.RealEnd == "B" {
		sentCtr = bS.BytesWritten() - baseB
	}
	if got, want := sentCtr, bS.BytesWritten()-baseB; got != want {
		return &failure{key: "C02/counter/bytes-sent", detail: fmt.Sprintf("GetBytesSent=%d but %d bytes were written to the target connection (%s)", got, want, kind)}, o
	}
	if got, want := recvCtr, aS.BytesWritten()-baseA; got != want {
		return &failure{key: "C02/counter/bytes-received", detail: fmt.Sprintf("GetBytesReceived=%d but %d bytes were written to the source connection (%s)", got, want, kind)}, o
	}
	// the server let go of both connections
	// (an end behind a relay - WebSocket client, remote node - learns it a moment after the relay does)
	grace := 10 * time.Millisecond
	if c.WSEnd != "" || c.CrossNode || c.AdapterWS != "" || c.RealEnd != "" {
		grace = bound
	}
	if !waitFor(grace, func() bool {
		return (aS.IsClosed() || (c.RealProto == "kcp" && c.RealEnd == "A")) && (bS.IsClosed() || (c.RealProto == "kcp" && c.RealEnd == "B"))
	}) {
		return &failure{key: "C02/server-conn-left-open/" + kindKey, detail: state()}, o
	}
	return nil, o
}

func rdErr(e *end) error {
	if isDone(e.readDone) {
		return e.readErr
	}
	return nil
}

// ---------------------------------------------------------------------------
// evidence

func sizeBucket(n int) string {
	switch {
	case n == 0:
		return "0"
	case n <= 64:
		return "<=64"
	case n <= 8192:
		return "<=8K"
	case n <= copyBuf:
		return "<=32K"
	case n <= 128*1024:
		return "<=128K"
	case n <= 1024*1024:
		return "<=1M"
	default:
		return ">1M"
	}
}

func capBucket(n int) string {
	switch {
	case n == 0:
		return "none"
	case n < 64:
		return "tiny"
	case n <= 8192:
		return "small"
	default:
		return "large"
	}
}

func caseSig(c Case) string {
	return fmt.Sprintf("%v|%s|%s|%d|%s|%s|%v|%s|%s|%d|%d|%v", fmt.Sprint(c.Mini, c.SameClient, c.HeartbeatMs > 0, c.WSEnd, c.CrossNode, c.StatsStall, c.PauseMs > 0, c.AdapterWS, c.StorageOutage, c.RealEnd, c.RealProto), sizeBucket(c.LenAB), sizeBucket(c.LenBA), c.Limit, c.Ending.Kind+c.Ending.ErrKind, c.Attach, c.Stream,
		capBucket(c.SrvReadCapA), capBucket(c.SrvReadCapB), len(c.WritesAB), len(c.WritesBA), c.DataWithEOF)
}

func summarize(c Case) any {
	s := c
	if len(s.WritesAB) > 8 {
		s.WritesAB = append(append([]int(nil), s.WritesAB[:8]...), -len(c.WritesAB))
	}
	if len(s.WritesBA) > 8 {
		s.WritesBA = append(append([]int(nil), s.WritesBA[:8]...), -len(c.WritesBA))
	}
	return s
}

var latMu sync.Mutex
var latencies []time.Duration

// rapid checks its shrink deadline only between blocks; minimising one block can take a hundred
// executions, and a rate-limited case that passes needs real time. Once the shrink budget since the
// first violation of the running property is spent, further candidates are not executed.
var firstViolation time.Time
var firstTiming bool

const shrinkBudget = 12 * time.Second

func property(t *testing.T, quick, thorough int, prop func(*rapid.T)) {
	if firstTiming && !vkit.Thorough() {
		// a bounded-time violation is already recorded; every further confirmation costs whole
		// bounds and the verdict of the run is decided
		t.Skip("a bounded-time violation was already reported by an earlier test")
	}
	firstViolation = time.Time{}
	vkit.Check(t, quick, thorough, prop)
	firstViolation = time.Time{}
}

func check(t vkit.TB, c Case) {
	if !firstViolation.IsZero() && time.Since(firstViolation) > shrinkBudget {
		return
	}
	if firstTiming && !firstViolation.IsZero() && time.Since(firstViolation) > shrinkBudget/3 {
		return // every failing candidate of a bounded-time violation costs the whole bound
	}
	notePending(c)
	t0 := time.Now()
	f, o := runCase(c, 1)
	if d := time.Since(t0); d > 2*time.Second+2*c.expectedTransfer() && os.Getenv("C02_DEBUG") != "" {
		b, _ := json.Marshal(c)
		fmt.Fprintf(os.Stderr, "C02_DEBUG slow case %v failure=%v inconclusive=%v: %s\n", d, f, o.inconclusive, b)
	}
	if f != nil && f.timing && firstViolation.IsZero() {
		// bounded-time expectations are re-run once before they are reported
		// (with three times the bound: a machine that starves the process must not look like a hang)
		vkit.Class("timing-rerun")
		first := f
		f, o = runCase(c, 3)
		if f == nil {
			vkit.Skipped(1)
			b, _ := json.Marshal(summarize(c))
			vkit.Extra("last_timing_rerun_that_passed", first.key+": "+first.detail+" case="+string(b))
		}
	}
	if c.Mini {
		sessionRuns.Add(1)
	}
	if f != nil && f.key == setupKey {
		// the tunnel could not be brought up (slow machine, or the handshake / TunnelOpen path is
		// broken): C02 speaks about attached tunnels only. Counted; TestZZSummary makes the run
		// inconclusive if this is the rule rather than the exception.
		sessionSetupFailures.Add(1)
		vkit.Skipped(1)
		vkit.Class("inconclusive:session-setup-failed")
		vkit.Extra("last_session_setup_failure", f.detail)
		return
	}
	if f != nil {
		if firstViolation.IsZero() && !vkit.IsKnown(f.key) {
			firstViolation = time.Now()
			firstTiming = f.timing
		}
		vkit.Violation(t, f.key, f.detail, c)
		vkit.Case("known:"+f.key, false, "")
		return
	}
	if o.inconclusive {
		// slow, not lossy: neither counted as held nor as violated
		vkit.Skipped(1)
		vkit.Class("inconclusive:deadline-without-closure")
		return
	}
	midClose := c.Ending.Kind[:5] == "early" || c.Ending.Kind[:4] == "fail" || c.Ending.Kind == "bridge-close" || strings.HasPrefix(c.Ending.Kind, "stall")
	nt := c.LenAB > 0 && c.LenBA > 0 && o.overlap && (c.LenAB > copyBuf || c.LenBA > copyBuf || c.Limit > 0 || midClose)
	class := c.Ending.Kind
	if c.Mini {
		class = "session:" + class
	}
	vkit.Case(class, nt, caseSig(c))
	vkit.Sample(class, summarize(c))
	if strings.HasPrefix(c.Ending.Kind, "fail-") {
		k := c.Ending.ErrKind
		if k == "" {
			k = "generic"
		}
		vkit.Class("feat:injected-error=" + k)
	}
	vkit.Class("feat:" + limClass(c.Limit))
	vkit.Class("feat:attach=" + c.Attach)
	if c.Stream {
		vkit.Class("feat:conn=stream-processor")
	} else {
		vkit.Class("feat:conn=raw")
	}
	if o.overlap {
		vkit.Class("feat:directions-overlap-in-time")
	}
	if c.LenAB > copyBuf || c.LenBA > copyBuf {
		vkit.Class("feat:payload>32KiB")
	}
	if c.LenAB > 1024*1024 || c.LenBA > 1024*1024 {
		vkit.Class("feat:payload>1MiB(batch counter crossed)")
	}
	if o.readsA >= 10000 || o.readsB >= 10000 {
		vkit.Class("feat:>=10000 copy iterations (context check crossed)")
	}
	if o.maxReadA == copyBuf || o.maxReadB == copyBuf {
		vkit.Class("feat:full 32KiB server read")
	}
	if c.Limit > 0 && (o.maxReadA > 2*c.Limit || o.maxReadB > 2*c.Limit) {
		vkit.Class("feat:server read larger than limiter burst")
	}
	if c.SrvReadCapA > 0 || c.SrvReadCapB > 0 {
		vkit.Class("feat:server short reads")
	}
	if c.DataWithEOF {
		vkit.Class("feat:data-with-EOF")
	}
	if c.SameClient {
		vkit.Class("feat:same-client (loopback) mapping")
	}
	if c.WSEnd != "" {
		vkit.Class("feat:websocket transport end=" + c.WSEnd)
	}
	if c.PauseMs > 0 {
		vkit.Class(fmt.Sprintf("feat:slow consumer pauses >=%ds", c.PauseMs/1000))
	}
	if c.CrossNode {
		vkit.Class("feat:target attached through the cross-node listener")
	}
	if c.AdapterWS != "" {
		vkit.Class("feat:adapter websocket end=" + c.AdapterWS)
	}
	if c.StorageOutage {
		vkit.Class("feat:storage outage at tear-down")
	}
	if c.RealEnd != "" {
		vkit.Class("feat:real " + c.RealProto + " end=" + c.RealEnd)
	}
	if c.StatsStall {
		vkit.Class("feat:stats backend hangs at close")
		if o.statsPending {
			vkit.Class("feat:stats call was pending while closure was observed")
		}
	}
	if c.HeartbeatMs > 0 {
		vkit.Class("feat:tunnel outlives the heartbeat timeout")
	}
	if o.closeLatency > 0 {
		latMu.Lock()
		latencies = append(latencies, o.closeLatency)
		latMu.Unlock()
	}
}

// ---------------------------------------------------------------------------
// generators

var endingKinds = []string{
	"drain-close-A", "drain-close-B",
	"flush-close-A", "flush-close-A", "flush-close-B", "flush-close-B",
	"early-close-A", "early-close-B", "early-close-A", "early-close-B",
	"fail-read-srvA", "fail-read-srvB", "fail-write-srvA", "fail-write-srvB",
	"bridge-close", "bridge-close",
}

// genLen draws a payload size <= budget. Ordinary classes stay <= max; the "batch counter" class
// goes just above 1 MiB in both tiers (constants.BatchUpdateThreshold).
func genLen(t *rapid.T, label string, max, budget int, limit int64) int {
	if budget <= 0 {
		return 0
	}
	if max > budget {
		max = budget
	}
	n := 0
	switch rapid.IntRange(0, 9).Draw(t, label+"Class") {
	case 0:
		n = 0
	case 1:
		n = rapid.IntRange(1, 200).Draw(t, label)
	case 2:
		n = copyBuf + rapid.IntRange(-1, 1).Draw(t, label)
	case 3:
		n = 2*copyBuf + rapid.IntRange(-1, 2000).Draw(t, label)
	case 4:
		if limit > 0 {
			n = int(2*limit) + rapid.IntRange(1, 3000).Draw(t, label) // just above the limiter's burst
		} else {
			n = rapid.IntRange(1, 20000).Draw(t, label)
		}
	case 5:
		n = 1024*1024 + rapid.IntRange(1, 70000).Draw(t, label) // crosses the 1 MiB batch-counter threshold
	case 6, 7:
		n = rapid.IntRange(1, max).Draw(t, label)
	default:
		n = rapid.IntRange(1, 40000).Draw(t, label)
	}
	if n > budget {
		n = budget
	}
	return n
}

func genWrites(t *rapid.T, label string, n, maxWrites int) []int {
	if n == 0 {
		return nil
	}
	floor := n/maxWrites + 1
	switch rapid.IntRange(0, 3).Draw(t, label+"Class") {
	case 0:
		return nil // one Write
	case 1:
		sz := rapid.SampledFrom([]int{1, 7, 100, 1460, 4096, 8192, 8193, 16384, copyBuf - 1, copyBuf, copyBuf + 1, 65536}).Draw(t, label+"Fixed")
		if sz < floor {
			sz = floor
		}
		return []int{sz}
	default:
		k := rapid.SampledFrom([]int{16, 1500, 9000, 70000}).Draw(t, label+"K")
		if k < 2*floor {
			k = 2 * floor
		}
		return rapid.SliceOfN(rapid.IntRange(floor, k), 1, 12).Draw(t, label)
	}
}

func genCap(t *rapid.T, label string, n, maxIter int) int {
	c := rapid.SampledFrom([]int{0, 0, 0, 0, 1, 7, 512, 4096, 8193, copyBuf - 1}).Draw(t, label)
	if c > 0 && n/c > maxIter {
		c = n/maxIter + 1
	}
	return c
}

func genCase(t *rapid.T, limits []int64) Case {
	maxLen := vkit.Pick(300*1024, 4*1024*1024)
	maxIter := vkit.Pick(30000, 100000)
	c := Case{Limit: rapid.SampledFrom(limits).Draw(t, "limit")}
	budget := 2 * vkit.Pick(1200*1024, 4*1024*1024)
	if c.Limit > 0 {
		// keep the token-bucket time of a case <= ~1.5 s (most far below)
		extra := rapid.SampledFrom([]int64{0, 100, 250, 500, 1500}).Draw(t, "limitMillis")
		if b := int(2*c.Limit + c.Limit*extra/1000); b < budget {
			budget = b
		}
	}
	if rapid.Bool().Draw(t, "abFirst") {
		c.LenAB = genLen(t, "lenAB", maxLen, budget, c.Limit)
		c.LenBA = genLen(t, "lenBA", maxLen, budget-c.LenAB, c.Limit)
	} else {
		c.LenBA = genLen(t, "lenBA", maxLen, budget, c.Limit)
		c.LenAB = genLen(t, "lenAB", maxLen, budget-c.LenBA, c.Limit)
	}
	c.SeedAB = uint64(rapid.IntRange(0, 65535).Draw(t, "seedAB"))
	c.SeedBA = uint64(rapid.IntRange(0, 65535).Draw(t, "seedBA"))
	c.WritesAB = genWrites(t, "writesAB", c.LenAB, 4000)
	c.WritesBA = genWrites(t, "writesBA", c.LenBA, 4000)
	c.Pace = rapid.SampledFrom([]int{0, 0, 1, 2}).Draw(t, "pace")
	c.SrvReadCapA = genCap(t, "srvCapA", c.LenAB, maxIter)
	c.SrvReadCapB = genCap(t, "srvCapB", c.LenBA, maxIter)
	c.CliReadCapA = genCap(t, "cliCapA", c.LenBA, maxIter)
	c.CliReadCapB = genCap(t, "cliCapB", c.LenAB, maxIter)
	c.DataWithEOF = rapid.IntRange(0, 3).Draw(t, "dataWithEOF") == 0
	c.Attach = rapid.SampledFrom([]string{"before-start", "after-start", "after-first-write"}).Draw(t, "attach")
	c.Stream = rapid.IntRange(0, 3).Draw(t, "stream") != 0
	c.Ending = genEnding(t, c)
	return c
}

func genEnding(t *rapid.T, c Case) Ending {
	e := Ending{Kind: rapid.SampledFrom(endingKinds).Draw(t, "ending")}
	switch e.Kind {
	case "early-close-A":
		e.K = rapid.IntRange(0, c.LenAB).Draw(t, "k")
	case "early-close-B":
		e.K = rapid.IntRange(0, c.LenBA).Draw(t, "k")
	case "fail-read-srvA":
		e.K = rapid.IntRange(0, c.LenAB).Draw(t, "k")
	case "fail-read-srvB":
		e.K = rapid.IntRange(0, c.LenBA).Draw(t, "k")
	case "fail-write-srvA": // a write only fails if more than K bytes are headed for A
		if c.LenBA == 0 {
			e.Kind = "flush-close-A"
		} else {
			e.K = rapid.IntRange(0, c.LenBA-1).Draw(t, "k")
		}
	case "fail-write-srvB":
		if c.LenAB == 0 {
			e.Kind = "flush-close-B"
		} else {
			e.K = rapid.IntRange(0, c.LenAB-1).Draw(t, "k")
		}
	case "bridge-close":
		e.K = rapid.IntRange(0, c.LenAB+c.LenBA).Draw(t, "k")
		e.Closers = rapid.IntRange(1, 3).Draw(t, "closers")
	}
	if strings.HasPrefix(e.Kind, "fail-") {
		e.ErrKind = rapid.SampledFrom([]string{"", "timeout-forever", "timeout-forever", "eof"}).Draw(t, "errKind")
	}
	return e
}

// ---------------------------------------------------------------------------
// tests

// yieldLogger is a log sink that takes its time: every call yields the processor, as a sink doing
// I/O would. It widens windows between a state change and the log line that follows it.
type yieldLogger struct{}

func yield() {
	runtime.Gosched()
	runtime.Gosched()
}
func (yieldLogger) Debug(args ...interface{})                          { yield() }
func (yieldLogger) Info(args ...interface{})                           { yield() }
func (yieldLogger) Warn(args ...interface{})                           { yield() }
func (yieldLogger) Error(args ...interface{})                          { yield() }
func (yieldLogger) Debugf(format string, args ...interface{})          { yield() }
func (yieldLogger) Infof(format string, args ...interface{})           { yield() }
func (yieldLogger) Warnf(format string, args ...interface{})           { yield() }
func (yieldLogger) Errorf(format string, args ...interface{})          { yield() }
func (l yieldLogger) WithField(string, interface{}) corelog.Logger     { return l }
func (l yieldLogger) WithFields(map[string]interface{}) corelog.Logger { return l }
func (l yieldLogger) WithError(error) corelog.Logger                   { return l }
func (l yieldLogger) WithContext(context.Context) corelog.Logger       { return l }

// Background scenarios: tunnels that need tens of seconds of real time. They are started by the first
// test, run beside everything else and are judged by TestZYBackground (the oracle is runCase's).
type bgScenario struct {
	name string
	c    Case
	done chan struct{}
	f    *failure
	o    *obs
}

var bgScenarios []*bgScenario

func backgroundCases() []*bgScenario {
	sh := vkit.Shard()
	var out []*bgScenario
	add := func(name string, c Case) {
		out = append(out, &bgScenario{name: name, c: c, done: make(chan struct{})})
	}
	// (a) a tunnel with traffic accounting that is alive at the 30 s periodic report tick with more than
	// 1 MiB copied, and the mapping lookup of that report fails once: nobody closed, so bytes keep
	// flowing and everything arrives
	flood := 2*1024*1024 + 4096*sh
	a := Case{StatsFault: true, Stream: sh%2 == 0, Attach: "before-start", SeedAB: uint64(300 + sh), SeedBA: uint64(400 + sh), SpreadMs: 33500,
		Ending: Ending{Kind: []string{"drain-close-A", "drain-close-B"}[sh%2]}}
	if sh%4 < 2 {
		a.LenAB, a.LenBA = flood, 3000
	} else {
		a.LenBA, a.LenAB = flood, 3000
	}
	a.WritesAB, a.WritesBA = []int{a.LenAB/60 + 1}, []int{a.LenBA/60 + 1}
	add("report-tick-with-failed-mapping-lookup", a)
	// (b) a KCP end that stops reading for 11 s with megabytes in flight towards it, then reads on
	k := Case{RealProto: "kcp", Stream: true, Attach: "before-start", SeedAB: uint64(500 + sh), SeedBA: uint64(600 + sh),
		PauseMs: 11000 + 200*(sh%3), PausePipe: 65536, Ending: Ending{Kind: "drain-close-both"}}
	big := 5*1024*1024 + 8192*sh
	if sh%2 == 0 {
		k.RealEnd, k.PauseEnd, k.LenAB, k.LenBA = "B", "B", big, 100
	} else {
		k.RealEnd, k.PauseEnd, k.LenBA, k.LenAB = "A", "A", big, 100
	}
	add("kcp-end-pauses-11s-with-megabytes-in-flight", k)
	// (c) thorough only (needs > 60 s): a one-way transfer towards an adapter-WebSocket end whose consumer
	// is slow enough for the transfer to take ~70 s; the end itself sends nothing
	if vkit.Thorough() && sh < 2 {
		w := Case{AdapterWS: "B", Stream: true, Attach: "before-start", SeedAB: uint64(700 + sh), LenAB: 24 * 1024 * 1024, LenBA: 0,
			PauseEnd: "B", PausePipe: 65536, ReadPaceUs: 46000, Ending: Ending{Kind: "drain-close-A"}}
		if sh == 1 {
			w.AdapterWS, w.PauseEnd, w.LenBA, w.LenAB, w.SeedBA = "A", "A", 24*1024*1024, 0, 701
			w.Ending.Kind = "drain-close-B"
		}
		add("one-way-transfer-towards-websocket-end-lasting-70s", w)
	}
	return out
}

// TestAABackgroundStart launches the background scenarios.
func TestAABackgroundStart(t *testing.T) {
	if vkit.Replaying() != "" || os.Getenv("C02_NO_BACKGROUND") != "" {
		t.Skip("no background scenarios")
	}
	bgScenarios = backgroundCases()
	for _, s := range bgScenarios {
		s := s
		go func() {
			defer close(s.done)
			s.f, s.o = runCase(s.c, 1)
			if s.f != nil && s.f.timing {
				s.f, s.o = runCase(s.c, 3)
			}
		}()
	}
}

// TestAttachRace: many small tunnels whose target attaches while Bridge.Start is already waiting for
// it (the normal order: the source creates the bridge), with a log sink that yields on every line.
// After the attach, bytes must flow both ways and the close of one end must reach the other.
func TestAttachRace(t *testing.T) {
	corelog.SetDefault(yieldLogger{})
	defer corelog.SetDefault(corelog.NewNopLogger())
	property(t, 2400, 24000, func(t *rapid.T) {
		c := Case{Attach: "after-start", Stream: rapid.Bool().Draw(t, "stream")}
		c.LenAB = rapid.IntRange(1, 3000).Draw(t, "lenAB")
		c.LenBA = rapid.IntRange(1, 3000).Draw(t, "lenBA")
		c.SeedAB = uint64(rapid.IntRange(0, 65535).Draw(t, "seedAB"))
		c.SeedBA = uint64(rapid.IntRange(0, 65535).Draw(t, "seedBA"))
		c.Pace = rapid.SampledFrom([]int{0, 1}).Draw(t, "pace")
		c.Ending = Ending{Kind: rapid.SampledFrom([]string{"drain-close-A", "drain-close-B", "flush-close-A", "flush-close-B"}).Draw(t, "ending")}
		check(t, c)
	})
}

// TestPipe: no limit or a limit far above the traffic — many cases, large payloads.
func TestPipe(t *testing.T) {
	property(t, 4000, 10000, func(t *rapid.T) {
		check(t, genCase(t, []int64{0, 0, 0, 10 * 1024 * 1024}))
	})
}

// TestPipeLimited: limits that actually pace (64 KiB/s) and limits whose burst is below the
// 32 KiB copy buffer (12 KiB/s, 4 KiB/s). Cases take real time; sizes are budgeted accordingly.
func TestPipeLimited(t *testing.T) {
	property(t, 560, 1400, func(t *rapid.T) {
		check(t, genCase(t, []int64{64 * 1024, 12 * 1024, 4096, 4096}))
	})
}

// TestLimiterBurstFamily: deterministic family around the limiter's burst: one Write of
// burst-1, burst, burst+1, 32 KiB bytes through a limited tunnel must arrive completely.
func TestLimiterBurstFamily(t *testing.T) {
	i := 0
	for _, limit := range []int64{1000, 4096, 12 * 1024, 16*1024 - 1, 16 * 1024} {
		for _, n := range []int{int(2*limit) - 1, int(2 * limit), int(2*limit) + 1, copyBuf} {
			for _, kind := range []string{"flush-close-A", "flush-close-B", "drain-close-B"} {
				i++
				if !vkit.Mine(i) {
					continue
				}
				if float64(n-int(2*limit))/float64(limit) > 1.6 && !vkit.Thorough() {
					continue // would take seconds of token-bucket time
				}
				c := Case{Limit: limit, SeedAB: 11, SeedBA: 12, Attach: "before-start", Stream: true, Ending: Ending{Kind: kind}}
				if kind == "flush-close-B" {
					c.LenBA = n
				} else {
					c.LenAB = n
				}
				check(t, c)
			}
		}
	}
	// the probe of DESIGN.md: BandwidthLimit=4096, one 20000-byte write (2.9 s of token-bucket time once all bytes are forwarded)
	if vkit.Shard() == 0 {
		check(t, Case{Limit: 4096, LenAB: 20000, SeedAB: 5, Attach: "before-start", Stream: true, Ending: Ending{Kind: "flush-close-A"}})
	}
}

// TestSession runs the same cases through the mini-server: control handshakes, a port mapping whose
// Config.BandwidthLimit is the drawn limit, the source's and the target's TunnelOpen packets; the
// bridge is created, run and removed by SessionManager (startSourceBridge / handleExistingBridge /
// runBridgeLifecycle). "The server forgets the tunnel" = GetTunnelBridgeByMappingID finds nothing
// and the routing table has no waiting record for the tunnel id.
func TestSession(t *testing.T) {
	property(t, 640, 2000, func(t *rapid.T) {
		c := genCase(t, []int64{0, 0, 0, 10 * 1024 * 1024, 64 * 1024, 4096})
		c.Mini = true
		c.Stream = true
		c.SameClient = rapid.IntRange(0, 3).Draw(t, "sameClient") == 0
		if rapid.Bool().Draw(t, "sourceSpeaksFirst") {
			c.Attach = "after-first-write" // bytes of the source are pending when the target attaches
		}
		check(t, c)
	})
}

// TestSessionLongLived: tunnels on the mini-server that stay open for several HeartbeatTimeouts with
// both ends trickling data and nobody closing: everything must arrive, the tunnel must still be there.
func TestSessionLongLived(t *testing.T) {
	property(t, 32, 96, func(t *rapid.T) {
		c := Case{Mini: true, Stream: true, HeartbeatMs: 150, SpreadMs: rapid.SampledFrom([]int{800, 1000}).Draw(t, "spread")}
		c.LenAB = rapid.IntRange(200, 60000).Draw(t, "lenAB")
		c.LenBA = rapid.IntRange(200, 60000).Draw(t, "lenBA")
		c.SeedAB = uint64(rapid.IntRange(0, 65535).Draw(t, "seedAB"))
		c.SeedBA = uint64(rapid.IntRange(0, 65535).Draw(t, "seedBA"))
		n := rapid.IntRange(20, 40).Draw(t, "writes")
		c.WritesAB, c.WritesBA = []int{c.LenAB/n + 1}, []int{c.LenBA/n + 1}
		c.Attach = rapid.SampledFrom([]string{"after-start", "after-first-write"}).Draw(t, "attach")
		c.SameClient = rapid.IntRange(0, 3).Draw(t, "sameClient") == 0
		c.Ending = Ending{Kind: rapid.SampledFrom([]string{"drain-close-A", "drain-close-B", "flush-close-A", "flush-close-B"}).Draw(t, "ending")}
		check(t, c)
	})
}

// TestBackPressure: one end stops reading behind a bounded pipe while the other floods it, so the
// server's copy loop is parked in a Write; then the other direction ends (peer closes and the
// stalled end sends on / the stalled end half-closes). The server must still let go of everything.
func TestBackPressure(t *testing.T) {
	property(t, 320, 1400, func(t *rapid.T) {
		c := Case{Stream: rapid.IntRange(0, 3).Draw(t, "stream") != 0, Mini: rapid.IntRange(0, 2).Draw(t, "mini") == 0}
		if c.Mini {
			c.Stream = true
			c.SameClient = rapid.IntRange(0, 3).Draw(t, "sameClient") == 0
		}
		kind := rapid.SampledFrom([]string{"stall-A-close-B", "stall-A-close-B", "stall-A-halfclose-A", "stall-A-halfclose-A", "stall-B-close-A", "stall-B-halfclose-B"}).Draw(t, "ending")
		pipe := rapid.SampledFrom([]int{4096, 65536, 65536, 200000}).Draw(t, "pipe")
		flood := pipe + 2*copyBuf + rapid.IntRange(1, 200000).Draw(t, "flood")
		other := rapid.IntRange(2, 50000).Draw(t, "other")
		if kind[6] == 'A' { // A stalls: B floods
			c.LenBA, c.LenAB = flood, other
		} else {
			c.LenAB, c.LenBA = flood, other
		}
		c.SeedAB = uint64(rapid.IntRange(0, 65535).Draw(t, "seedAB"))
		c.SeedBA = uint64(rapid.IntRange(0, 65535).Draw(t, "seedBA"))
		c.WritesAB = genWrites(t, "writesAB", c.LenAB, 2000)
		c.WritesBA = genWrites(t, "writesBA", c.LenBA, 2000)
		c.SrvReadCapA = genCap(t, "srvCapA", c.LenAB, 20000)
		c.SrvReadCapB = genCap(t, "srvCapB", c.LenBA, 20000)
		c.Limit = rapid.SampledFrom([]int64{0, 0, 10 * 1024 * 1024}).Draw(t, "limit")
		c.Attach = rapid.SampledFrom([]string{"before-start", "after-start", "after-first-write"}).Draw(t, "attach")
		c.Ending = Ending{Kind: kind, K: pipe}
		check(t, c)
	})
}

var closingKinds = []string{"drain-close-A", "drain-close-B", "flush-close-A", "flush-close-B", "early-close-A", "early-close-B",
	"fail-read-srvA", "fail-read-srvB", "fail-write-srvA", "fail-write-srvB", "bridge-close"}

// TestStatsStall: bridges with traffic accounting whose CloudControl backend hangs. Whatever ends the
// tunnel, both ends must see the closure and the server must let go of both connections while the
// final statistics call is still pending; the run ends once the backend answers.
func TestStatsStall(t *testing.T) {
	property(t, 240, 2400, func(t *rapid.T) {
		c := genCase(t, []int64{0, 0, 10 * 1024 * 1024})
		c.StatsStall = true
		if c.LenAB == 0 {
			c.LenAB = 1 + int(c.SeedAB%5000)
			c.WritesAB = nil
		}
		if c.LenBA == 0 {
			c.LenBA = 1 + int(c.SeedBA%5000)
			c.WritesBA = nil
		}
		c.Ending = genEnding(t, c)
		check(t, c)
	})
}

// TestSessionCrossNode: the source is attached on the mini-server, the target on "another node" that
// connects to this node's real CrossNodeListener; the target speaks first and its first bytes arrive
// in the same TCP write as the TargetReady frame.
func TestSessionCrossNode(t *testing.T) {
	property(t, 160, 1600, func(t *rapid.T) {
		c := Case{Mini: true, Stream: true, CrossNode: true, Attach: "after-start"}
		c.LenAB = genLen(t, "lenAB", 200000, 200000, 0)
		c.LenBA = 1 + genLen(t, "lenBA", 200000, 200000, 0)
		c.SeedAB = uint64(rapid.IntRange(0, 65535).Draw(t, "seedAB"))
		c.SeedBA = uint64(rapid.IntRange(0, 65535).Draw(t, "seedBA"))
		c.WritesAB = genWrites(t, "writesAB", c.LenAB, 2000)
		// the banner: what the target has written when its node sends TargetReady
		first := rapid.SampledFrom([]int{1, 28, 200, 1460, 4000, 4096, 9000}).Draw(t, "banner")
		c.WritesBA = []int{first, rapid.SampledFrom([]int{1460, 8192, 70000}).Draw(t, "restWrites")}
		c.Pace = rapid.SampledFrom([]int{0, 1, 2}).Draw(t, "pace")
		c.SrvReadCapA = genCap(t, "srvCapA", c.LenAB, 20000)
		c.Ending = Ending{Kind: rapid.SampledFrom([]string{"drain-close-A", "drain-close-B", "flush-close-A", "flush-close-B"}).Draw(t, "ending")}
		check(t, c)
	})
}

// wsEnds: which end may use the WebSocket transport. Until fix b2ec86a a WebSocket TARGET end crashed the
// process (the bridge was attached before the connection was in stream mode: concurrent gorilla readers);
// with the fix committed both ends are generated, and the child-process supervisor turns a crash of the
// shard into a violation if the defect ever returns.
func wsEnds() []string { return []string{"A", "B"} }

// TestSessionWebSocket: one end's tunnel connection comes in through the HTTP service's WebSocket
// transport (stream mode: StartStreamModeReader feeds PushStreamData, the bridge reads the channel).
func TestSessionWebSocket(t *testing.T) {
	property(t, 160, 1600, func(t *rapid.T) {
		c := Case{Mini: true, Stream: true, WSEnd: rapid.SampledFrom(wsEnds()).Draw(t, "wsEnd")}
		c.LenAB = genLen(t, "lenAB", 300000, 300000, 0)
		c.LenBA = genLen(t, "lenBA", 300000, 300000, 0)
		c.SeedAB = uint64(rapid.IntRange(0, 65535).Draw(t, "seedAB"))
		c.SeedBA = uint64(rapid.IntRange(0, 65535).Draw(t, "seedBA"))
		c.WritesAB = genWrites(t, "writesAB", c.LenAB, 2000)
		c.WritesBA = genWrites(t, "writesBA", c.LenBA, 2000)
		c.SrvReadCapA = genCap(t, "srvCapA", c.LenAB, 3000) // bounds the WebSocket message size of a WS end
		c.SrvReadCapB = genCap(t, "srvCapB", c.LenBA, 3000)
		c.Limit = rapid.SampledFrom([]int64{0, 0, 10 * 1024 * 1024}).Draw(t, "limit")
		c.Attach = rapid.SampledFrom([]string{"after-start", "after-first-write"}).Draw(t, "attach")
		c.SameClient = rapid.IntRange(0, 4).Draw(t, "sameClient") == 0
		if len(wsEnds()) == 1 {
			vkit.Excluded(1) // the WebSocket-target half of the space
		}
		c.Ending = Ending{Kind: rapid.SampledFrom([]string{"drain-close-A", "drain-close-B", "flush-close-A", "flush-close-B", "early-close-A", "early-close-B", "bridge-close"}).Draw(t, "ending")}
		switch c.Ending.Kind {
		case "early-close-A":
			c.Ending.K = rapid.IntRange(0, c.LenAB).Draw(t, "k")
		case "early-close-B":
			c.Ending.K = rapid.IntRange(0, c.LenBA).Draw(t, "k")
		case "bridge-close":
			c.Ending.K = rapid.IntRange(0, c.LenAB+c.LenBA).Draw(t, "k")
			c.Ending.Closers = 1
		}
		check(t, c)
	})
}

// TestSessionWebSocketSlowConsumer: the WebSocket end floods (hundreds of messages) while the other
// end does not read for more than five seconds behind a bounded pipe, so the bridge stops reading the
// WebSocket end, its 100-slot stream channel fills and the reader goroutine waits in PushStreamData.
// That is back-pressure, not a failure: when the consumer resumes, every byte must arrive and the
// server must not have closed the tunnel. One case per shard in quick (they take the pause).
func TestSessionWebSocketSlowConsumer(t *testing.T) {
	n := vkit.Pick(1, 3)
	for i := 0; i < n; i++ {
		if !firstViolation.IsZero() && firstTiming && !vkit.Thorough() {
			return
		}
		sh := vkit.Shard() + i*vkit.NShards()
		c := Case{Mini: true, Stream: true, Attach: "after-start", SeedAB: uint64(100 + sh), SeedBA: uint64(200 + sh)}
		c.PauseMs = 5500 + 300*(sh%4) + 2500*(i%3) // > 5 s in one stretch
		c.PausePipe = []int{65536, 16384, 200000}[sh%3]
		msg := []int{1024, 700, 4096}[(sh/3)%3]
		flood := c.PausePipe + copyBuf + 320*msg
		if sh%2 == 0 || len(wsEnds()) == 1 {
			c.WSEnd, c.PauseEnd = "A", "B"
			c.LenAB, c.LenBA = flood, 1000+sh
			c.WritesAB, c.SrvReadCapA = []int{msg}, msg
		} else {
			c.WSEnd, c.PauseEnd = "B", "A"
			c.LenBA, c.LenAB = flood, 1000+sh
			c.WritesBA, c.SrvReadCapB = []int{msg}, msg
		}
		c.SameClient = sh%5 == 4
		c.Ending = Ending{Kind: []string{"drain-close-A", "drain-close-B"}[(sh/2)%2]}
		check(t, c)
	}
}

// TestAdapterWebSocket: one end attached through the WebSocket transport adapter; its client writes
// single messages around 64 KiB, 256 KiB and 1 MiB.
func TestAdapterWebSocket(t *testing.T) {
	property(t, 160, 1600, func(t *rapid.T) {
		c := Case{Stream: rapid.Bool().Draw(t, "stream"), AdapterWS: rapid.SampledFrom([]string{"A", "B"}).Draw(t, "end")}
		big := rapid.SampledFrom([]int{65535, 65536, 65537, 262143, 262144, 262145, 300000, 524288, 1048576, 1048577}).Draw(t, "message")
		n := big*rapid.IntRange(1, 2).Draw(t, "messages") + rapid.IntRange(0, 5000).Draw(t, "tail")
		other := genLen(t, "other", 200000, 200000, 0)
		if c.AdapterWS == "A" {
			c.LenAB, c.LenBA, c.WritesAB = n, other, []int{big}
			c.WritesBA = genWrites(t, "writesBA", c.LenBA, 2000)
		} else {
			c.LenBA, c.LenAB, c.WritesBA = n, other, []int{big}
			c.WritesAB = genWrites(t, "writesAB", c.LenAB, 2000)
		}
		c.SeedAB = uint64(rapid.IntRange(0, 65535).Draw(t, "seedAB"))
		c.SeedBA = uint64(rapid.IntRange(0, 65535).Draw(t, "seedBA"))
		c.Limit = rapid.SampledFrom([]int64{0, 0, 10 * 1024 * 1024}).Draw(t, "limit")
		c.Attach = rapid.SampledFrom([]string{"before-start", "after-start", "after-first-write"}).Draw(t, "attach")
		c.Ending = Ending{Kind: rapid.SampledFrom([]string{"drain-close-A", "drain-close-B", "flush-close-A", "flush-close-B", "early-close-A", "early-close-B"}).Draw(t, "ending")}
		switch c.Ending.Kind {
		case "early-close-A":
			c.Ending.K = rapid.IntRange(0, c.LenAB).Draw(t, "k")
		case "early-close-B":
			c.Ending.K = rapid.IntRange(0, c.LenBA).Draw(t, "k")
		}
		check(t, c)
	})
}

// TestRealTransport: one end is a real socket accepted by the server's TcpAdapter / QuicAdapter.
// tcp: the other end sends megabytes and closes gracefully while the TCP end reads slowly, so the
// server's send queue towards it is full when the bridge closes that socket: everything must still
// arrive before EOF. quic: the QUIC end sends and finishes its stream right behind the last write
// (last bytes and FIN reach the server together): the last bytes must come out of the other end.
func TestRealTransport(t *testing.T) {
	property(t, 64, 480, func(t *rapid.T) {
		c := Case{Stream: rapid.Bool().Draw(t, "stream"), Attach: rapid.SampledFrom([]string{"before-start", "after-start"}).Draw(t, "attach")}
		c.RealProto = rapid.SampledFrom([]string{"tcp", "quic", "quic"}).Draw(t, "proto")
		c.RealEnd = rapid.SampledFrom([]string{"A", "B"}).Draw(t, "end")
		c.SeedAB = uint64(rapid.IntRange(0, 65535).Draw(t, "seedAB"))
		c.SeedBA = uint64(rapid.IntRange(0, 65535).Draw(t, "seedBA"))
		other := "B"
		if c.RealEnd == "B" {
			other = "A"
		}
		if c.RealProto == "tcp" {
			// the TCP end is the slow reader, the other end floods and closes gracefully
			flood := rapid.IntRange(2<<20, 6<<20).Draw(t, "flood")
			back := rapid.IntRange(0, 2000).Draw(t, "back")
			if c.RealEnd == "B" {
				c.LenAB, c.LenBA = flood, back
			} else {
				c.LenBA, c.LenAB = flood, back
			}
			c.PauseEnd, c.PausePipe = c.RealEnd, rapid.SampledFrom([]int{16384, 65536}).Draw(t, "pipe")
			c.ReadPaceUs = rapid.SampledFrom([]int{200, 500, 800}).Draw(t, "pace")
			c.Ending = Ending{Kind: rapid.SampledFrom([]string{"flush-close-" + other, "flush-close-" + other, "drain-close-" + other, "drain-close-" + c.RealEnd}).Draw(t, "ending")}
		} else {
			// the QUIC end writes and finishes; sometimes the other end is slow so that data and FIN queue up
			n := genLen(t, "len", 300000, 300000, 0) + 1
			back := rapid.IntRange(0, 5000).Draw(t, "back")
			if c.RealEnd == "A" {
				c.LenAB, c.LenBA = n, back
				c.WritesAB = genWrites(t, "writes", n, 2000)
			} else {
				c.LenBA, c.LenAB = n, back
				c.WritesBA = genWrites(t, "writes", n, 2000)
			}
			if rapid.Bool().Draw(t, "slowOther") {
				c.PauseEnd, c.PausePipe, c.ReadPaceUs = other, 16384, rapid.SampledFrom([]int{200, 1000}).Draw(t, "pace")
			}
			c.Limit = rapid.SampledFrom([]int64{0, 0, 10 * 1024 * 1024}).Draw(t, "limit")
			c.Ending = Ending{Kind: rapid.SampledFrom([]string{"flush-close-" + c.RealEnd, "flush-close-" + c.RealEnd, "drain-close-" + c.RealEnd, "drain-close-" + other}).Draw(t, "ending")}
		}
		check(t, c)
	})
}

// TestSessionStorageOutage: session-rig tunnels (routing table configured) whose state store goes
// down once both ends are attached: every ending must still close both ends and the server must
// forget the tunnel (bridge map) within the bound, whatever the storage answers at tear-down.
func TestSessionStorageOutage(t *testing.T) {
	property(t, 240, 2000, func(t *rapid.T) {
		c := genCase(t, []int64{0, 0, 0, 10 * 1024 * 1024})
		c.Mini, c.Stream, c.StorageOutage = true, true, true
		c.SameClient = rapid.IntRange(0, 4).Draw(t, "sameClient") == 0
		check(t, c)
	})
}

// TestCloseRace (E3): Bridge.Close() from 1..3 goroutines released by a spin flag while both copy
// loops are moving small payloads; the prefix / closure / counter oracle of runCase applies.
func TestCloseRace(t *testing.T) {
	property(t, 1200, 4000, func(t *rapid.T) {
		c := Case{
			LenAB: rapid.IntRange(0, 70000).Draw(t, "lenAB"), LenBA: rapid.IntRange(0, 70000).Draw(t, "lenBA"),
			SeedAB: uint64(rapid.IntRange(0, 65535).Draw(t, "seedAB")), SeedBA: uint64(rapid.IntRange(0, 65535).Draw(t, "seedBA")),
			Pace:   rapid.SampledFrom([]int{0, 1}).Draw(t, "pace"),
			Attach: rapid.SampledFrom([]string{"before-start", "after-start", "after-first-write"}).Draw(t, "attach"),
			Stream: rapid.Bool().Draw(t, "stream"),
			Limit:  rapid.SampledFrom([]int64{0, 0, 10 * 1024 * 1024}).Draw(t, "limit"),
		}
		c.WritesAB = genWrites(t, "writesAB", c.LenAB, 2000)
		c.WritesBA = genWrites(t, "writesBA", c.LenBA, 2000)
		c.SrvReadCapA = genCap(t, "srvCapA", c.LenAB, 20000)
		c.SrvReadCapB = genCap(t, "srvCapB", c.LenBA, 20000)
		c.Ending = Ending{Kind: "bridge-close", K: rapid.IntRange(0, c.LenAB+c.LenBA).Draw(t, "k"), Closers: rapid.IntRange(1, 3).Draw(t, "closers")}
		check(t, c)
	})
}

// TestZYBackground collects the background scenarios.
func TestZYBackground(t *testing.T) {
	for _, s := range bgScenarios {
		select {
		case <-s.done:
		case <-time.After(6 * time.Minute):
			t.Fatalf("inconclusive: background scenario %s did not finish", s.name)
		}
		class := "background:" + s.name
		switch {
		case s.f != nil && s.f.key == setupKey:
			vkit.Skipped(1)
			vkit.Class("inconclusive:" + class)
			vkit.Extra("last_session_setup_failure", s.f.detail)
		case s.f != nil:
			vkit.Violation(t, s.f.key, "["+s.name+"] "+s.f.detail, s.c)
			vkit.Case("known:"+s.f.key, false, "")
		case s.o.inconclusive:
			vkit.Skipped(1)
			vkit.Class("inconclusive:" + class)
		default:
			vkit.Case(class, true, caseSig(s.c)+s.name)
			vkit.Sample(class, summarize(s.c))
		}
	}
}

var sessionRuns, sessionSetupFailures atomic.Int64

// TestZZSummary records the observed close latencies and refuses to call the run conclusive when
// the session rig mostly failed to bring tunnels up.
func TestZZSummary(t *testing.T) {
	if r, f := sessionRuns.Load(), sessionSetupFailures.Load(); r >= 10 && f*5 > r {
		t.Fatalf("inconclusive: %d of %d mini-server cases could not establish the tunnel", f, r)
	}
	latMu.Lock()
	defer latMu.Unlock()
	if len(latencies) == 0 {
		return
	}
	max := time.Duration(0)
	for _, d := range latencies {
		if d > max {
			max = d
		}
	}
	vkit.Extra("close_latency_max_of_one_shard", max.Round(10*time.Microsecond).String())
	vkit.Extra("closure_bound_base", baseBound().String())
}

// TestReplay re-executes a saved JSON case (VERIF_REPLAY=path).
func TestReplay(t *testing.T) {
	path := vkit.Replaying()
	if path == "" {
		t.Skip("no VERIF_REPLAY")
	}
	var c Case
	if _, err := vkit.LoadReplay(path, &c); err != nil {
		t.Fatalf("bad replay file: %v", err)
	}
	// outcomes depend on goroutine schedules as well as on the case: repeat it
	for i := 0; i < 40; i++ {
		check(t, c)
	}
}
