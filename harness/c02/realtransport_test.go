package c02

// Tunnel ends that are real sockets accepted by the server's own transport adapters (TcpAdapter,
// QuicAdapter: Listen/Accept on loopback). The client keeps its BufConn; a relay moves bytes between
// it and a real client socket (net.Dial / bare quic-go client that finishes its stream right after
// the last write), so kernel send queues, FIN/RST and QUIC's "last bytes together with FIN" are the
// real thing.

import (
	"context"
	"crypto/tls"
	"encoding/binary"
	"fmt"
	"io"
	"net"
	"sync"
	"sync/atomic"
	"time"

	"github.com/quic-go/quic-go"

	"tunnox-core/internal/client/transport"
	"tunnox-core/internal/protocol/adapter"
	"tunnox-core/verif/vkit"
)

type acceptor interface {
	Listen(addr string) error
	Accept() (io.ReadWriteCloser, error)
}

var (
	rtMu    sync.Mutex
	rtSrv   = map[string]acceptor{}
	rtAddr  = map[string]string{}
	rtNonce atomic.Uint64
)

func rtFreePort(udp bool) int {
	if udp {
		c, err := net.ListenUDP("udp", &net.UDPAddr{IP: net.IPv4(127, 0, 0, 1)})
		if err != nil {
			return 0
		}
		defer c.Close()
		return c.LocalAddr().(*net.UDPAddr).Port
	}
	l, err := net.Listen("tcp", "127.0.0.1:0")
	if err != nil {
		return 0
	}
	defer l.Close()
	return l.Addr().(*net.TCPAddr).Port
}

// rtServer returns this process's adapter for proto (created on first use) and its address.
func rtServer(proto string) (acceptor, string, error) {
	rtMu.Lock()
	defer rtMu.Unlock()
	if a, ok := rtSrv[proto]; ok {
		return a, rtAddr[proto], nil
	}
	var lastErr error
	for try := 0; try < 20; try++ {
		var a acceptor
		switch proto {
		case "tcp":
			a = adapter.NewTcpAdapter(context.Background(), nil)
		case "quic":
			a = adapter.NewQuicAdapter(context.Background(), nil)
		case "kcp":
			a = adapter.NewKcpAdapter(context.Background(), nil)
		default:
			return nil, "", fmt.Errorf("unknown transport %q", proto)
		}
		addr := fmt.Sprintf("127.0.0.1:%d", rtFreePort(proto == "quic" || proto == "kcp"))
		if err := a.Listen(addr); err != nil {
			lastErr = err
			continue
		}
		rtSrv[proto], rtAddr[proto] = a, addr
		return a, addr, nil
	}
	return nil, "", lastErr
}

type realLink struct {
	closers []func()
	done    sync.WaitGroup
}

func (l *realLink) close() {
	for i := len(l.closers) - 1; i >= 0; i-- {
		l.closers[i]()
	}
	waitGroupTimeout(&l.done, 5*time.Second)
}

// dialReal connects far (server-side end of the client's BufConn pair) through a real proto socket to
// the server's adapter and returns the connection the adapter accepted.
func dialReal(proto string, far *vkit.BufConn) (*realLink, net.Conn, error) {
	srv, addr, err := rtServer(proto)
	if err != nil {
		return nil, nil, err
	}
	l := &realLink{}
	nonce := make([]byte, 8)
	binary.BigEndian.PutUint64(nonce, rtNonce.Add(1)<<16|uint64(time.Now().UnixNano()&0xffff))
	var cliW io.Writer
	var cliR io.Reader
	var finish func() // the client closed its BufConn
	var abort func()  // tear the client socket down
	switch proto {
	case "tcp":
		c, err := net.DialTimeout("tcp", addr, 5*time.Second)
		if err != nil {
			return nil, nil, err
		}
		tc := c.(*net.TCPConn)
		tc.SetReadBuffer(64 * 1024) // a client with an ordinary small receive buffer
		cliW, cliR = tc, tc
		finish = func() { tc.Close() } // graceful close: FIN behind the data
		abort = func() { tc.Close() }
	case "kcp":
		c, err := transport.DialKCP(context.Background(), addr) // the client's own KCP transport
		if err != nil {
			return nil, nil, err
		}
		cliW, cliR = c, c
		finish = func() { c.Close() }
		abort = func() { c.Close() }
	case "quic":
		ctx, cancel := context.WithTimeout(context.Background(), 5*time.Second)
		defer cancel()
		qc, err := quic.DialAddr(ctx, addr, &tls.Config{InsecureSkipVerify: true, NextProtos: []string{"tunnox-quic"}}, &quic.Config{MaxIdleTimeout: 30 * time.Second})
		if err != nil {
			return nil, nil, err
		}
		qs, err := qc.OpenStreamSync(ctx)
		if err != nil {
			qc.CloseWithError(0, "")
			return nil, nil, err
		}
		cliW, cliR = qs, qs
		finish = func() { qs.Close() } // FIN right behind the last write; the connection stays up
		abort = func() { qs.CancelRead(0); qs.Close(); qc.CloseWithError(0, "done") }
	}
	l.closers = append(l.closers, abort)
	if _, err := cliW.Write(nonce); err != nil {
		l.close()
		return nil, nil, err
	}
	// accept until the connection carrying our nonce shows up
	type acc struct {
		c   net.Conn
		err error
	}
	ch := make(chan acc, 1)
	go func() {
		for i := 0; i < 8; i++ {
			rwc, err := srv.Accept()
			if err != nil {
				ch <- acc{nil, err}
				return
			}
			nc, ok := rwc.(net.Conn)
			if !ok {
				rwc.Close()
				ch <- acc{nil, fmt.Errorf("accepted connection %T is not a net.Conn", rwc)}
				return
			}
			got := make([]byte, 8)
			nc.SetReadDeadline(time.Now().Add(3 * time.Second))
			_, err = io.ReadFull(nc, got)
			nc.SetReadDeadline(time.Time{})
			if err == nil && string(got) == string(nonce) {
				ch <- acc{nc, nil}
				return
			}
			nc.Close() // a leftover of an earlier case
		}
		ch <- acc{nil, fmt.Errorf("no accepted connection carried the nonce")}
	}()
	var sc net.Conn
	select {
	case a := <-ch:
		if a.err != nil {
			l.close()
			return nil, nil, a.err
		}
		sc = a.c
	case <-time.After(8 * time.Second):
		l.close()
		return nil, nil, fmt.Errorf("adapter did not accept the %s connection", proto)
	}
	l.done.Add(2)
	go func() { // client -> server
		defer l.done.Done()
		buf := make([]byte, 32*1024)
		for {
			n, err := far.Read(buf)
			if n > 0 {
				if _, werr := cliW.Write(buf[:n]); werr != nil {
					far.Close()
					return
				}
			}
			if err != nil {
				finish()
				return
			}
		}
	}()
	go func() { // server -> client
		defer l.done.Done()
		buf := make([]byte, 32*1024)
		for {
			n, err := cliR.Read(buf)
			if n > 0 {
				if _, werr := far.Write(buf[:n]); werr != nil {
					abort()
					far.Close()
					return
				}
			}
			if err != nil {
				far.Close() // the server ended the stream / closed the socket: the client reads EOF
				return
			}
		}
	}()
	return l, sc, nil
}
