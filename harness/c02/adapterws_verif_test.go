//go:build verif

package c02

import (
	"fmt"
	"net"
	"net/http"
	"net/http/httptest"
	"strings"
	"sync"
	"time"

	gws "github.com/gorilla/websocket"

	"tunnox-core/internal/protocol/adapter"
	"tunnox-core/verif/vkit"
)

// adapterWSLink: a tunnel end attached through the WebSocket transport ADAPTER (internal/protocol/
// adapter): the server-side connection is the real wsServerConn (verif hook VerifNewWSServerConn)
// over a loopback gorilla pair. The client keeps its BufConn; a relay sends what one Read of the
// relay returns as ONE binary message (its buffer is larger than any single client Write, so a
// client Write of n bytes never becomes a message smaller than n).
type adapterWSLink struct {
	http *httptest.Server
	ws   *gws.Conn
	done sync.WaitGroup
}

func dialAdapterWS(far *vkit.BufConn) (interface{ close() }, net.Conn, error) {
	l := &adapterWSLink{}
	ch := make(chan net.Conn, 1)
	up := gws.Upgrader{CheckOrigin: func(r *http.Request) bool { return true }}
	l.http = httptest.NewServer(http.HandlerFunc(func(w http.ResponseWriter, r *http.Request) {
		conn, err := up.Upgrade(w, r, nil)
		if err != nil {
			return
		}
		ch <- adapter.VerifNewWSServerConn(conn, r.RemoteAddr)
	}))
	d := gws.Dialer{HandshakeTimeout: 5 * time.Second}
	ws, _, err := d.Dial("ws"+strings.TrimPrefix(l.http.URL, "http"), nil)
	if err != nil {
		l.http.Close()
		return nil, nil, err
	}
	l.ws = ws
	var srv net.Conn
	select {
	case srv = <-ch:
	case <-time.After(5 * time.Second):
		ws.Close()
		l.http.Close()
		return nil, nil, fmt.Errorf("server side of the WebSocket pair did not come up")
	}
	l.done.Add(2)
	var wmu sync.Mutex
	go func() { // client -> server
		defer l.done.Done()
		buf := make([]byte, 4<<20)
		for {
			n, err := far.Read(buf)
			if n > 0 {
				wmu.Lock()
				werr := ws.WriteMessage(gws.BinaryMessage, buf[:n])
				wmu.Unlock()
				if werr != nil {
					far.Close()
					return
				}
			}
			if err != nil {
				wmu.Lock()
				ws.WriteControl(gws.CloseMessage, gws.FormatCloseMessage(gws.CloseNormalClosure, ""), time.Now().Add(time.Second))
				wmu.Unlock()
				ws.Close()
				return
			}
		}
	}()
	go func() { // server -> client
		defer l.done.Done()
		for {
			mt, data, err := ws.ReadMessage()
			if err != nil {
				far.Close()
				return
			}
			if mt != gws.BinaryMessage {
				continue
			}
			if _, err := far.Write(data); err != nil {
				ws.Close()
				far.Close()
				return
			}
		}
	}()
	return l, srv, nil
}

func (l *adapterWSLink) close() {
	l.ws.Close()
	l.http.CloseClientConnections()
	l.http.Close()
	waitGroupTimeout(&l.done, 5*time.Second)
}
