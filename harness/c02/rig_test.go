package c02

import (
	"context"
	"encoding/json"
	"fmt"
	"sync/atomic"
	"time"

	"tunnox-core/internal/cloud/configs"
	"tunnox-core/internal/cloud/models"
	"tunnox-core/internal/packet"
	"tunnox-core/internal/protocol/session"
	"tunnox-core/internal/stream"
	"tunnox-core/verif/vkit"
	"tunnox-core/verif/vkit/miniserver"
)

// rig is the server side of one case: either a bare bridge built the way startSourceBridge /
// handleExistingBridge build it ("bridge"), or the mini-server driven with handshakes and
// TunnelOpen packets, where SessionManager owns the bridge ("session").
type rig struct {
	name           string
	aN, bN         *vkit.BufConn
	aS, bS         *srvConn
	start          func() *failure // source side up, bridge running
	attach         func() *failure // target attached
	closeBridge    func()
	ended          func() bool // bridge run over and, for the session rig, tunnel unknown to the session
	endedWhat      string
	counters       func() (sent, received int64)
	cleanup        func()
}

func newConns(c Case) (aN, bN *vkit.BufConn, aS, bS *srvConn) {
	aN, aRaw := vkit.NewBufConnPair("10.1.0.1:40001", "10.0.0.1:8000")
	bN, bRaw := vkit.NewBufConnPair("10.2.0.1:40002", "10.0.0.1:8000")
	aS = &srvConn{BufConn: aRaw, dataWithEOF: c.DataWithEOF}
	bS = &srvConn{BufConn: bRaw, dataWithEOF: c.DataWithEOF}
	aS.ReadCap.Store(int32(c.SrvReadCapA))
	bS.ReadCap.Store(int32(c.SrvReadCapB))
	aN.ReadCap.Store(int32(c.CliReadCapA))
	bN.ReadCap.Store(int32(c.CliReadCapB))
	return
}

// ---------------------------------------------------------------------------

func newDirectRig(c Case) *rig {
	r := &rig{name: "bridge", endedWhat: "Bridge.Start is still running"}
	r.aN, r.bN, r.aS, r.bS = newConns(c)
	ctx, cancel := context.WithCancel(context.Background())
	var spA, spB stream.PackageStreamer
	if c.Stream {
		spA = stream.NewStreamProcessor(r.aS, r.aS, ctx)
		spB = stream.NewStreamProcessor(r.bS, r.bS, ctx)
	}
	const tunnelID, mappingID = "tun-c02", "pm-c02"
	src := session.CreateTunnelConnection("conn-src", r.aS, spA, 101, mappingID, tunnelID)
	br := session.NewTunnelBridge(ctx, &session.TunnelBridgeConfig{
		TunnelID: tunnelID, MappingID: mappingID,
		SourceTunnelConn: src, SourceConn: r.aS, SourceStream: spA,
		BandwidthLimit: c.Limit,
	})
	tgt := session.CreateTunnelConnection("conn-tgt", r.bS, spB, 202, mappingID, tunnelID)
	startDone := make(chan struct{})
	started := false
	r.start = func() *failure {
		started = true
		go func() { br.Start(); close(startDone) }()
		return nil
	}
	r.attach = func() *failure { br.SetTargetConnection(tgt); return nil }
	r.closeBridge = func() { br.Close() }
	r.ended = func() bool { return isDone(startDone) }
	r.counters = func() (int64, int64) { return br.GetBytesSent(), br.GetBytesReceived() }
	r.cleanup = func() {
		br.Close()
		cancel()
		if started {
			waitFor(5*time.Second, func() bool { return isDone(startDone) })
		}
	}
	return r
}

// ---------------------------------------------------------------------------

var miniSeq atomic.Int64

const setupKey = "C02/harness/mini-setup"

func harnessFail(what string, err error) *failure {
	return &failure{key: setupKey, detail: fmt.Sprintf("%s: %v", what, err)}
}

// connectWith accepts a connection on the mini-server whose server-side end is far (so that the
// fake's read caps / fault injection / recording apply to what the bridge later reads).
func connectWith(srv *miniserver.Server, near *vkit.BufConn, far *srvConn) (*miniserver.Client, error) {
	sc, err := srv.SM.AcceptConnection(far, far)
	if err != nil {
		return nil, err
	}
	return &miniserver.Client{Srv: srv, ConnID: sc.ID, Near: near, Far: far.BufConn, SP: stream.NewStreamProcessor(near, near, context.Background())}, nil
}

func tunnelOpen(cl *miniserver.Client, req *packet.TunnelOpenRequest) error {
	b, _ := json.Marshal(req)
	// the dispatcher answers with a "switch to stream mode" error on success; the ack tells
	cl.Push(&packet.TransferPacket{PacketType: packet.TunnelOpen, Payload: b})
	deadline := time.Now().Add(3 * time.Second)
	for {
		p, err := cl.Recv(time.Until(deadline))
		if err != nil {
			return fmt.Errorf("no TunnelOpenAck: %v", err)
		}
		if p.PacketType&0x3F != packet.TunnelOpenAck {
			continue
		}
		var ack packet.TunnelOpenAckResponse
		if err := json.Unmarshal(p.Payload, &ack); err != nil {
			return err
		}
		if !ack.Success {
			return fmt.Errorf("TunnelOpen refused: %s", ack.Error)
		}
		return nil
	}
}

func newMiniRig(c Case) (*rig, *failure) {
	r := &rig{name: "session", endedWhat: "the SessionManager still knows the tunnel (bridge map / routing record)"}
	r.aN, r.bN, r.aS, r.bS = newConns(c)
	// the handshake must not be disturbed by the case's short reads on the client side
	capA, capB := r.aN.ReadCap.Load(), r.bN.ReadCap.Load()
	r.aN.ReadCap.Store(0)
	r.bN.ReadCap.Store(0)
	srv, err := miniserver.New(miniserver.Options{RoutingTTL: 30 * time.Second, NoSecurityGate: true})
	if err != nil {
		return nil, harnessFail("miniserver.New", err)
	}
	r.cleanup = func() { srv.Close() }
	r.start = func() *failure { return nil }
	fail := func(what string, err error) (*rig, *failure) {
		r.aN.Close()
		r.bN.Close()
		r.aS.Close()
		r.bS.Close()
		srv.Close()
		return nil, harnessFail(what, err)
	}
	ctlA, err := srv.Connect("10.1.0.1:30001")
	if err != nil {
		return fail("connect control A", err)
	}
	ctlB, err := srv.Connect("10.2.0.1:30002")
	if err != nil {
		return fail("connect control B", err)
	}
	ra, err := ctlA.HandshakeNew("control")
	if err != nil || ra == nil || !ra.Success {
		return fail("handshake control A", fmt.Errorf("%v %+v", err, ra))
	}
	rb, err := ctlB.HandshakeNew("control")
	if err != nil || rb == nil || !rb.Success {
		return fail("handshake control B", fmt.Errorf("%v %+v", err, rb))
	}
	// The control connections are only needed to register the two clients. They are closed before
	// the mapping exists: handleHandshake starts pushConfigToClient in a goroutine which writes to
	// the control stream only if the client has mappings; closing a stream while that write is in
	// flight crashes the server in StreamProcessor.WritePacket (nil writer) — a defect outside C02
	// that this rig must not trip over.
	ctlA.CloseByPeer()
	ctlB.CloseByPeer()
	const secret = "sk-c02-mapping-secret"
	m, err := srv.Cloud.CreatePortMapping(&models.PortMapping{
		ListenClientID: ctlA.ClientID, TargetClientID: ctlB.ClientID,
		Protocol: models.ProtocolTCP, SourcePort: 17000, TargetHost: "127.0.0.1", TargetPort: 8080,
		SecretKey: secret, Status: models.MappingStatusActive,
		Config: configs.MappingConfig{BandwidthLimit: c.Limit, MaxConnections: 100, Timeout: 30},
	})
	if err != nil {
		return fail("create mapping", err)
	}
	tunnelID := fmt.Sprintf("tun-c02-%d", miniSeq.Add(1))
	tunA, err := connectWith(srv, r.aN, r.aS)
	if err != nil {
		return fail("connect tunnel A", err)
	}
	tunB, err := connectWith(srv, r.bN, r.bS)
	if err != nil {
		return fail("connect tunnel B", err)
	}
	if resp, err := tunA.Login(ctlA.ClientID, ctlA.Secret, "tunnel"); err != nil || resp == nil || !resp.Success {
		return fail("login tunnel A", fmt.Errorf("%v %+v", err, resp))
	}
	if resp, err := tunB.Login(ctlB.ClientID, ctlB.Secret, "tunnel"); err != nil || resp == nil || !resp.Success {
		return fail("login tunnel B", fmt.Errorf("%v %+v", err, resp))
	}
	req := &packet.TunnelOpenRequest{MappingID: m.ID, TunnelID: tunnelID, SecretKey: secret}
	var br *session.TunnelBridge
	known := func() bool {
		if srv.SM.GetTunnelBridgeByMappingID(m.ID, 0) != nil {
			return true
		}
		if srv.Routing != nil {
			if _, err := srv.Routing.LookupWaitingTunnel(srv.Ctx, tunnelID); err == nil {
				return true
			}
		}
		return false
	}
	r.start = func() *failure {
		if err := tunnelOpen(tunA, req); err != nil {
			return harnessFail("source TunnelOpen", err)
		}
		acc := srv.SM.GetTunnelBridgeByMappingID(m.ID, 0)
		b, ok := acc.(*session.TunnelBridge)
		if acc == nil || !ok || b == nil {
			return harnessFail("source TunnelOpen", fmt.Errorf("session has no bridge for mapping %s after a successful TunnelOpen", m.ID))
		}
		br = b
		r.aN.ReadCap.Store(capA)
		return nil
	}
	r.attach = func() *failure {
		if err := tunnelOpen(tunB, req); err != nil {
			return harnessFail("target TunnelOpen", err)
		}
		r.bN.ReadCap.Store(capB)
		return nil
	}
	r.closeBridge = func() { br.Close() }
	r.ended = func() bool { return !known() }
	r.counters = func() (int64, int64) { return br.GetBytesSent(), br.GetBytesReceived() }
	r.cleanup = func() {
		if br != nil {
			br.Close()
		}
		tunA.SP.Close()
		tunB.SP.Close()
		waitFor(5*time.Second, func() bool { return !known() })
		srv.Close()
	}
	return r, nil
}
