package c02

import (
	"bytes"
	"compress/gzip"
	"context"
	"encoding/binary"
	"encoding/json"
	"fmt"
	"io"
	"net"
	"sync/atomic"
	"time"

	"tunnox-core/internal/cloud/configs"
	"tunnox-core/internal/cloud/models"
	"tunnox-core/internal/core/storage/hybrid"
	"tunnox-core/internal/core/storage/memory"
	"tunnox-core/internal/packet"
	"tunnox-core/internal/protocol/session"
	"tunnox-core/internal/stream"
	"tunnox-core/verif/vkit"
	"tunnox-core/verif/vkit/miniserver"
)

// rig is the server side of one case: either a bare bridge built the way startSourceBridge /
// handleExistingBridge build it ("bridge"), or the mini-server driven with handshakes and
// TunnelOpen packets, where SessionManager owns the bridge ("session").
type rig struct {
	name         string
	aN, bN       *vkit.BufConn
	aS, bS       *srvConn
	start        func() *failure // source side up, bridge running
	attach       func() *failure // target attached
	closeBridge  func()
	ended        func() bool // bridge run over and, for the session rig, tunnel unknown to the session
	endedWhat    string
	counters     func() (sent, received int64)
	cleanup      func()
	release      func()       // lets a stalled statistics backend go on (no-op otherwise)
	statsHits    func() int64 // calls that reached the stalled backend
	noCounters   bool         // the cross-node forward copies outside CopyWithControl: counters stay 0
	setupErr     *failure     // the rig could not be built (inconclusive)
	statsLookups func() (lookups, failed int)
	outage       func(on bool) // session rig with a fault-injecting store: switch the storage outage
}

func newConns(c Case) (aN, bN *vkit.BufConn, aS, bS *srvConn) {
	aN, aRaw := vkit.NewBufConnPair("10.1.0.1:40001", "10.0.0.1:8000")
	bN, bRaw := vkit.NewBufConnPair("10.2.0.1:40002", "10.0.0.1:8000")
	aS = &srvConn{BufConn: aRaw, dataWithEOF: c.DataWithEOF}
	bS = &srvConn{BufConn: bRaw, dataWithEOF: c.DataWithEOF}
	aS.ReadCap.Store(int32(c.SrvReadCapA))
	bS.ReadCap.Store(int32(c.SrvReadCapB))
	aN.ReadCap.Store(int32(c.CliReadCapA))
	bN.ReadCap.Store(int32(c.CliReadCapB))
	// the kind of the injected transport error (set before the conns are used)
	switch c.Ending.ErrKind {
	case "timeout-forever": // permanent error with Timeout()==true, Temporary()==false (QUIC idle timeout)
		aRaw.FailErr, bRaw.FailErr = vkit.TimeoutForever, vkit.TimeoutForever
	case "eof": // the transport reports a clean end of stream
		aRaw.FailErr, bRaw.FailErr = io.EOF, io.EOF
	}
	return
}

// ---------------------------------------------------------------------------

func newDirectRig(c Case) *rig {
	r := &rig{name: "bridge", endedWhat: "Bridge.Start is still running"}
	r.aN, r.bN, r.aS, r.bS = newConns(c)
	ctx, cancel := context.WithCancel(context.Background())
	// what the server holds for each end: the fake's server-side end, or the adapter's WebSocket
	// connection wrapper with the fake behind a relay
	var connA, connB net.Conn = r.aS, r.bS
	var links []interface{ close() }
	r.setupErr = nil
	if c.RealEnd == "A" || c.RealEnd == "B" {
		far := r.aS.BufConn
		if c.RealEnd == "B" {
			far = r.bS.BufConn
		}
		l, sc, err := dialReal(c.RealProto, far)
		if err != nil {
			r.setupErr = harnessFail("real "+c.RealProto+" end", err)
		} else {
			links = append(links, l)
			if c.RealEnd == "A" {
				connA = sc
			} else {
				connB = sc
			}
		}
	}
	if c.AdapterWS == "A" || c.AdapterWS == "B" {
		far := r.aS.BufConn
		if c.AdapterWS == "B" {
			far = r.bS.BufConn
		}
		l, sc, err := dialAdapterWS(far)
		if err != nil {
			r.setupErr = harnessFail("adapter WebSocket pair", err)
		} else {
			links = append(links, l)
			if c.AdapterWS == "A" {
				connA = sc
			} else {
				connB = sc
			}
		}
	}
	var spA, spB stream.PackageStreamer
	if c.Stream {
		spA = stream.NewStreamProcessor(connA, connA, ctx)
		spB = stream.NewStreamProcessor(connB, connB, ctx)
	}
	const tunnelID, mappingID = "tun-c02", "pm-c02"
	src := session.CreateTunnelConnection("conn-src", connA, spA, 101, mappingID, tunnelID)
	cfg := &session.TunnelBridgeConfig{
		TunnelID: tunnelID, MappingID: mappingID,
		SourceTunnelConn: src, SourceConn: connA, SourceStream: spA,
		BandwidthLimit: c.Limit,
	}
	r.release = func() {}
	r.outage = func(bool) {}
	r.statsHits = func() int64 { return 0 }
	if c.StatsStall {
		// traffic accounting is on and its backend hangs: the final report at close time never returns
		// until the harness lets it
		sc := newStallCloud()
		cfg.CloudControl = sc
		r.release = sc.release
		r.statsHits = sc.hits
	}
	r.statsLookups = func() (int, int) { return 0, 0 }
	if c.StatsFault {
		// traffic accounting is on; the first mapping lookup of a report (the periodic tick) fails once
		fc := &faultCloud{failFirst: 1}
		cfg.CloudControl = fc
		r.statsLookups = fc.counts
	}
	br := session.NewTunnelBridge(ctx, cfg)
	tgt := session.CreateTunnelConnection("conn-tgt", connB, spB, 202, mappingID, tunnelID)
	startDone := make(chan struct{})
	started := false
	r.start = func() *failure {
		started = true
		go func() { br.Start(); close(startDone) }()
		return nil
	}
	r.attach = func() *failure { br.SetTargetConnection(tgt); return nil }
	r.closeBridge = func() { br.Close() }
	r.ended = func() bool { return isDone(startDone) }
	r.counters = func() (int64, int64) { return br.GetBytesSent(), br.GetBytesReceived() }
	r.cleanup = func() {
		r.release()
		br.Close()
		cancel()
		if started {
			waitFor(5*time.Second, func() bool { return isDone(startDone) })
		}
		connA.Close()
		connB.Close()
		for _, l := range links {
			l.close()
		}
	}
	return r
}

// ---------------------------------------------------------------------------

var miniSeq atomic.Int64

const setupKey = "C02/harness/mini-setup"

func harnessFail(what string, err error) *failure {
	return &failure{key: setupKey, detail: fmt.Sprintf("%s: %v", what, err)}
}

// connectWith accepts a connection on the mini-server whose server-side end is far (so that the
// fake's read caps / fault injection / recording apply to what the bridge later reads).
func connectWith(srv *miniserver.Server, near *vkit.BufConn, far *srvConn) (*miniserver.Client, error) {
	sc, err := srv.SM.AcceptConnection(far, far)
	if err != nil {
		return nil, err
	}
	return &miniserver.Client{Srv: srv, ConnID: sc.ID, Near: near, Far: far.BufConn, SP: stream.NewStreamProcessor(near, near, context.Background())}, nil
}

// peer is one tunnel connection of a client: its packets are either handed to the dispatcher (what
// the TCP adapter's read loop does) or really written on the wire (WebSocket transport: the module's
// own loop reads them).
type peer struct {
	cl   *miniserver.Client
	wire bool
}

func (p *peer) send(pkt *packet.TransferPacket) error {
	if p.wire {
		_, err := p.cl.SP.WritePacket(pkt, false, 0)
		return err
	}
	p.cl.Push(pkt) // a "switch to stream mode" error is the success answer for TunnelOpen
	return nil
}

func (p *peer) handshake(req *packet.HandshakeRequest) (*packet.HandshakeResponse, error) {
	b, _ := json.Marshal(req)
	if err := p.send(&packet.TransferPacket{PacketType: packet.Handshake, Payload: b}); err != nil {
		return nil, err
	}
	return p.cl.RecvHandshakeResp(3 * time.Second)
}

// login is the two-phase challenge-response handshake of a "tunnel" connection.
func (p *peer) login(id int64, secret string) error {
	r1, err := p.handshake(&packet.HandshakeRequest{ClientID: id, Version: "2.0", Protocol: "tcp", ConnectionType: "tunnel"})
	if err != nil {
		return err
	}
	if r1.NeedResponse && r1.Challenge != "" {
		r1, err = p.handshake(&packet.HandshakeRequest{ClientID: id, Version: "2.0", Protocol: "tcp", ConnectionType: "tunnel",
			ChallengeResponse: miniserver.ComputeResponse(secret, r1.Challenge)})
		if err != nil {
			return err
		}
	}
	if !r1.Success {
		return fmt.Errorf("login refused: %+v", r1)
	}
	return nil
}

func tunnelOpen(p *peer, req *packet.TunnelOpenRequest) error {
	cl := p.cl
	b, _ := json.Marshal(req)
	if err := p.send(&packet.TransferPacket{PacketType: packet.TunnelOpen, Payload: b}); err != nil {
		return err
	}
	deadline := time.Now().Add(3 * time.Second)
	for {
		p, err := cl.Recv(time.Until(deadline))
		if err != nil {
			return fmt.Errorf("no TunnelOpenAck: %v", err)
		}
		if p.PacketType&0x3F != packet.TunnelOpenAck {
			continue
		}
		var ack packet.TunnelOpenAckResponse
		if err := json.Unmarshal(p.Payload, &ack); err != nil {
			return err
		}
		if !ack.Success {
			return fmt.Errorf("TunnelOpen refused: %s", ack.Error)
		}
		return nil
	}
}

const ackKey = "C02/session/tunnel-bytes-before-or-inside-attach-ack"

// readFullBy reads len(p) bytes from the client's end or gives up at the deadline.
func readFullBy(near *vkit.BufConn, p []byte, deadline time.Time) (int, error) {
	near.SetReadDeadline(deadline)
	defer near.SetReadDeadline(time.Time{})
	return io.ReadFull(near, p)
}

var definedTypes = map[byte]bool{0x01: true, 0x02: true, 0x03: true, 0x10: true, 0x11: true, 0x20: true, 0x21: true, 0x22: true, 0x23: true, 0x24: true}

// awaitTargetAck consumes, byte by byte exactly, what the server writes to the target's tunnel
// connection up to and including the TunnelOpenAck. The target learns from the ack that the raw
// tunnel stream starts right behind it, so every byte up to the end of the ack must belong to a
// well-formed packet: a tunnel byte in front of or inside the ack (the ack is several Writes) is
// delivered to the wrong place - it is neither a packet nor part of the stream the target reads.
// Returns nil (attached), a setup failure (nothing arrived / clean refusal) or the violation.
func awaitTargetAck(near *vkit.BufConn, tunnelID string) *failure {
	deadline := time.Now().Add(3 * time.Second)
	var seen []byte
	garbage := func(why string) *failure {
		// show what else is there
		extra := near.ReadAllAvailable()
		if len(extra) > 48 {
			extra = extra[:48]
		}
		return &failure{key: ackKey, detail: fmt.Sprintf("%s; bytes received on the target connection after the handshake: % x | then % x ... (a well-formed ack starts with 61|21, a 4-byte length and a gzip/JSON body)", why, seen, extra)}
	}
	for pkts := 0; pkts < 8; pkts++ {
		hdr := make([]byte, 1)
		if n, err := readFullBy(near, hdr, deadline); n == 0 {
			if len(seen) == 0 {
				return harnessFail("target TunnelOpen", fmt.Errorf("nothing arrived on the target connection: %v", err))
			}
			return harnessFail("target TunnelOpen", fmt.Errorf("no ack after %d well-formed bytes: %v", len(seen), err))
		}
		seen = append(seen, hdr[0])
		typ := hdr[0]
		if typ&0x80 != 0 || !definedTypes[typ&0x3F] {
			return garbage(fmt.Sprintf("byte %#02x where a packet type was due", typ))
		}
		if typ&0x3F == 0x03 {
			continue // heartbeat: no body
		}
		lb := make([]byte, 4)
		if n, err := readFullBy(near, lb, deadline); n < 4 {
			return harnessFail("target TunnelOpen", fmt.Errorf("packet length incomplete (%d/4 bytes): %v", n, err))
		}
		seen = append(seen, lb...)
		ln := binary.BigEndian.Uint32(lb)
		if ln > 64*1024 {
			return garbage(fmt.Sprintf("packet of type %#02x announces a body of %d bytes", typ, ln))
		}
		body := make([]byte, ln)
		if n, err := readFullBy(near, body, deadline); n < int(ln) {
			return harnessFail("target TunnelOpen", fmt.Errorf("packet body incomplete (%d/%d bytes): %v", n, ln, err))
		}
		if len(seen) < 64 {
			k := len(body)
			if k > 40 {
				k = 40
			}
			seen = append(seen, body[:k]...)
		}
		plain := body
		if typ&0x40 != 0 {
			zr, err := gzip.NewReader(bytes.NewReader(body))
			if err != nil {
				return garbage(fmt.Sprintf("body of the type %#02x packet is not gzip (%v)", typ, err))
			}
			plain, err = io.ReadAll(zr)
			if err != nil {
				return garbage(fmt.Sprintf("body of the type %#02x packet does not inflate (%v)", typ, err))
			}
		}
		if typ&0x3F != 0x21 {
			continue // some other well-formed packet ahead of the ack
		}
		var ack packet.TunnelOpenAckResponse
		if err := json.Unmarshal(plain, &ack); err != nil {
			return garbage(fmt.Sprintf("TunnelOpenAck body is not JSON (%v)", err))
		}
		if !ack.Success {
			return harnessFail("target TunnelOpen", fmt.Errorf("refused: %s", ack.Error))
		}
		if ack.TunnelID != tunnelID {
			return garbage(fmt.Sprintf("TunnelOpenAck for tunnel %q, expected %q", ack.TunnelID, tunnelID))
		}
		return nil
	}
	return harnessFail("target TunnelOpen", fmt.Errorf("8 packets and no ack"))
}

func newMiniRig(c Case) (*rig, *failure) {
	r := &rig{name: "session", endedWhat: "the SessionManager still knows the tunnel (bridge map / routing record)"}
	if c.SameClient {
		r.name = "session/same-client-mapping"
	}
	r.aN, r.bN, r.aS, r.bS = newConns(c)
	// the handshake must not be disturbed by the case's short reads on the client side
	capA, capB := r.aN.ReadCap.Load(), r.bN.ReadCap.Load()
	r.aN.ReadCap.Store(0)
	r.bN.ReadCap.Store(0)
	opts := miniserver.Options{RoutingTTL: 30 * time.Second, NoSecurityGate: true}
	if c.HeartbeatMs > 0 {
		// a tunnel connection carries raw bytes and never sends a heartbeat: the stale-connection
		// sweeper must not know it any more once it switched to stream mode
		sc := session.DefaultSessionConfig()
		sc.HeartbeatTimeout = time.Duration(c.HeartbeatMs) * time.Millisecond
		sc.CleanupInterval = sc.HeartbeatTimeout / 4
		opts.Session = sc
	}
	r.outage = func(bool) {}
	if c.StorageOutage {
		// the storage the server builds (hybrid facade over memory) with a switchable outage
		hc := hybrid.DefaultConfig()
		hc.EnablePersistent = false
		st := vkit.NewOutageStore(hybrid.NewWithSharedCache(context.Background(), memory.New(context.Background()), nil, nil, hc))
		opts.Storage = st
		r.outage = func(on bool) { st.Down.Store(on) }
	}
	srv, err := miniserver.New(opts)
	if err != nil {
		return nil, harnessFail("miniserver.New", err)
	}
	r.cleanup = func() { srv.Close() }
	r.start = func() *failure { return nil }
	r.release = func() {}
	r.statsHits = func() int64 { return 0 }
	r.statsLookups = func() (int, int) { return 0, 0 }
	fail := func(what string, err error) (*rig, *failure) {
		r.aN.Close()
		r.bN.Close()
		r.aS.Close()
		r.bS.Close()
		srv.Close()
		return nil, harnessFail(what, err)
	}
	ctlA, err := srv.Connect("10.1.0.1:30001")
	if err != nil {
		return fail("connect control A", err)
	}
	ra, err := ctlA.HandshakeNew("control")
	if err != nil || ra == nil || !ra.Success {
		return fail("handshake control A", fmt.Errorf("%v %+v", err, ra))
	}
	// the target client: a second client, or (loopback mapping) the same client again
	ctlB := ctlA
	if !c.SameClient {
		ctlB, err = srv.Connect("10.2.0.1:30002")
		if err != nil {
			return fail("connect control B", err)
		}
		rb, err := ctlB.HandshakeNew("control")
		if err != nil || rb == nil || !rb.Success {
			return fail("handshake control B", fmt.Errorf("%v %+v", err, rb))
		}
	}
	// The control connections are only needed to register the two clients. They are closed before
	// the mapping exists: handleHandshake starts pushConfigToClient in a goroutine which writes to
	// the control stream only if the client has mappings; closing a stream while that write is in
	// flight crashes the server in StreamProcessor.WritePacket (nil writer) — a defect outside C02
	// that this rig must not trip over.
	ctlA.CloseByPeer()
	if ctlB != ctlA {
		ctlB.CloseByPeer()
	}
	const secret = "sk-c02-mapping-secret"
	m, err := srv.Cloud.CreatePortMapping(&models.PortMapping{
		ListenClientID: ctlA.ClientID, TargetClientID: ctlB.ClientID,
		Protocol: models.ProtocolTCP, SourcePort: 17000, TargetHost: "127.0.0.1", TargetPort: 8080,
		SecretKey: secret, Status: models.MappingStatusActive,
		Config: configs.MappingConfig{BandwidthLimit: c.Limit, MaxConnections: 100, Timeout: 30},
	})
	if err != nil {
		return fail("create mapping", err)
	}
	tunnelID := fmt.Sprintf("tc02-%d", miniSeq.Add(1)) // <= 16 bytes: the cross-node frame header truncates longer ids
	// a tunnel connection is accepted by the session directly (stream transport), or arrives through
	// the HTTP service's WebSocket module, or (target only) is attached on another node
	var links []interface{ close() }
	closeLinks := func() {
		for _, l := range links {
			l.close()
		}
	}
	mkPeer := func(which string, near *vkit.BufConn, far *srvConn) (*peer, error) {
		if c.WSEnd == which {
			l, err := dialWS(srv.SM, far.BufConn)
			if err != nil {
				return nil, err
			}
			links = append(links, l)
			return &peer{wire: true, cl: &miniserver.Client{Srv: srv, Near: near, Far: far.BufConn, SP: stream.NewStreamProcessor(near, near, context.Background())}}, nil
		}
		cl, err := connectWith(srv, near, far)
		if err != nil {
			return nil, err
		}
		return &peer{cl: cl}, nil
	}
	var tunA, tunB *peer
	var xl *crossLink
	xport := 0
	if c.CrossNode {
		r.noCounters = true
		xl, xport, err = startCrossNodeListener(srv.SM)
		if err != nil {
			return fail("cross-node listener", err)
		}
		links = append(links, xl)
	}
	req := &packet.TunnelOpenRequest{MappingID: m.ID, TunnelID: tunnelID, SecretKey: secret}
	var br *session.TunnelBridge
	known := func() bool {
		if srv.SM.GetTunnelBridgeByMappingID(m.ID, 0) != nil {
			return true
		}
		if srv.Routing != nil {
			if _, err := srv.Routing.LookupWaitingTunnel(srv.Ctx, tunnelID); err == nil {
				return true
			}
		}
		return false
	}
	r.start = func() *failure {
		// as a client does: tunnel-type handshake and TunnelOpen back to back on a fresh connection
		var err error
		if tunA, err = mkPeer("A", r.aN, r.aS); err != nil {
			return harnessFail("connect tunnel A", err)
		}
		if err := tunA.login(ctlA.ClientID, ctlA.Secret); err != nil {
			return harnessFail("login tunnel A", err)
		}
		if err := tunnelOpen(tunA, req); err != nil {
			return harnessFail("source TunnelOpen", err)
		}
		// (over a real transport the ack is on the wire before the handler has registered the bridge)
		waitFor(3*time.Second, func() bool { return srv.SM.GetTunnelBridgeByMappingID(m.ID, 0) != nil })
		acc := srv.SM.GetTunnelBridgeByMappingID(m.ID, 0)
		b, ok := acc.(*session.TunnelBridge)
		if acc == nil || !ok || b == nil {
			return harnessFail("source TunnelOpen", fmt.Errorf("session has no bridge for mapping %s after a successful TunnelOpen", m.ID))
		}
		br = b
		r.aN.ReadCap.Store(capA)
		return nil
	}
	r.attach = func() *failure {
		if c.CrossNode {
			// the target is attached on another node, which forwards it to this node's listener
			if err := xl.attachRemoteTarget(xport, tunnelID, r.bS.BufConn); err != nil {
				return harnessFail("cross-node attach", err)
			}
			r.bN.ReadCap.Store(capB)
			return nil
		}
		var err error
		if tunB, err = mkPeer("B", r.bN, r.bS); err != nil {
			return harnessFail("connect tunnel B", err)
		}
		if err := tunB.login(ctlB.ClientID, ctlB.Secret); err != nil {
			return harnessFail("login tunnel B", err)
		}
		b, _ := json.Marshal(req)
		if err := tunB.send(&packet.TransferPacket{PacketType: packet.TunnelOpen, Payload: b}); err != nil {
			return harnessFail("target TunnelOpen", err)
		}
		if f := awaitTargetAck(r.bN, tunnelID); f != nil {
			return f
		}
		r.bN.ReadCap.Store(capB)
		return nil
	}
	r.closeBridge = func() { br.Close() }
	r.ended = func() bool { return !known() }
	r.counters = func() (int64, int64) { return br.GetBytesSent(), br.GetBytesReceived() }
	r.cleanup = func() {
		if br != nil {
			br.Close()
		}
		if tunA != nil {
			tunA.cl.SP.Close()
		}
		if tunB != nil {
			tunB.cl.SP.Close()
		}
		r.outage(false)
		if c.StorageOutage && srv.Routing != nil {
			// the record could not be deleted while the store was down (it has a TTL); not the subject here
			srv.Routing.RemoveWaitingTunnel(srv.Ctx, tunnelID)
		}
		waitFor(5*time.Second, func() bool { return !known() })
		closeLinks()
		srv.Close()
	}
	return r, nil
}
