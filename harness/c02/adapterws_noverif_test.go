//go:build !verif

package c02

import (
	"errors"
	"net"

	"tunnox-core/verif/vkit"
)

// without the verif hook the adapter's connection wrapper cannot be constructed from outside
func dialAdapterWS(far *vkit.BufConn) (interface{ close() }, net.Conn, error) {
	return nil, nil, errors.New("built without -tags verif: adapter.VerifNewWSServerConn is not available")
}
