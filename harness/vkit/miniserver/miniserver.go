// Package miniserver assembles "the real tunnox server minus sockets" from the exported
// constructors, in the order internal/app/server/components_*.go wires them.
package miniserver

import (
	"context"
	"crypto/hmac"
	"crypto/sha256"
	"encoding/base64"
	"encoding/hex"
	"encoding/json"
	"fmt"
	"net"
	"time"

	appserver "tunnox-core/internal/app/server"
	"tunnox-core/internal/cloud/factories"
	"tunnox-core/internal/cloud/managers"
	"tunnox-core/internal/cloud/repos"
	"tunnox-core/internal/cloud/services"
	"tunnox-core/internal/command"
	"tunnox-core/internal/core/idgen"
	"tunnox-core/internal/core/storage"
	coretypes "tunnox-core/internal/core/types"
	"tunnox-core/internal/packet"
	"tunnox-core/internal/protocol/session"
	"tunnox-core/internal/security"
	"tunnox-core/internal/stream"
	"tunnox-core/verif/vkit"
)

// Options selects the parts and limits of the mini-server.
type Options struct {
	Storage        storage.Storage // nil: what createMemoryStorage builds (hybrid facade over memory, no persistence)
	NodeID         string
	Session        *session.SessionConfig
	BruteForce     *security.BruteForceConfig
	IPRate         *security.RateLimitConfig
	ConnCode       *services.ConnectionCodeServiceConfig
	ConnStateTTL   time.Duration // >0: install a ConnectionStateStore with this ttl
	RoutingTTL     time.Duration // >0: install a TunnelRoutingTable with this ttl
	NoCommands     bool
	NoSecurityGate bool // leave brute force / ip manager / rate limiter nil
}

// Server is the assembled server.
type Server struct {
	Ctx      context.Context
	Cancel   context.CancelFunc
	Storage  storage.Storage
	Repo     *repos.Repository
	Cloud    *managers.BuiltinCloudControl
	IDM      *idgen.IDManager
	SM       *session.SessionManager
	Brute    *security.BruteForceProtector
	IPM      *security.IPManager
	RL       *security.RateLimiter
	SKM      *security.SecretKeyManager
	ConnCode *services.ConnectionCodeService
	Auth     *appserver.ServerAuthHandler
	Tunnel   *appserver.ServerTunnelHandler
	Domains  *repos.HTTPDomainMappingRepository
	Routing  *session.TunnelRoutingTable
	State    *session.ConnectionStateStore
	Registry *command.CommandRegistry
	NodeID   string
}

// MasterKey is the fixed base64 master key used for SecretKey encryption.
var MasterKey = base64.StdEncoding.EncodeToString([]byte("0123456789abcdef0123456789abcdef"))

// New builds a server. It never opens a listener.
func New(o Options) (*Server, error) {
	ctx, cancel := context.WithCancel(context.Background())
	s := &Server{Ctx: ctx, Cancel: cancel, NodeID: o.NodeID}
	if s.NodeID == "" {
		s.NodeID = "node-1"
	}
	if o.Storage != nil {
		s.Storage = o.Storage
	} else {
		f := storage.NewStorageFactory(ctx)
		hc := &storage.HybridStorageConfig{CacheType: "memory", EnablePersistent: false, HybridConfig: storage.DefaultHybridConfig()}
		hc.HybridConfig.EnablePersistent = false
		st, err := f.CreateStorage(hc)
		if err != nil {
			cancel()
			return nil, err
		}
		s.Storage = st
	}
	s.IDM = idgen.NewIDManager(s.Storage, ctx)
	s.Repo = repos.NewRepository(s.Storage)
	cc := managers.DefaultConfig()
	cc.NodeID = s.NodeID
	s.Cloud = factories.NewBuiltinCloudControlWithRepo(ctx, cc, s.Storage, s.Repo)
	s.SM = session.NewSessionManagerWithConfig(s.IDM, ctx, o.Session)
	if !o.NoSecurityGate {
		s.Brute = security.NewBruteForceProtector(o.BruteForce, ctx)
		s.IPM = security.NewIPManager(s.Storage, ctx)
		s.RL = security.NewRateLimiter(o.IPRate, nil, ctx)
	}
	skm, err := security.NewSecretKeyManager(&security.SecretKeyConfig{MasterKey: MasterKey})
	if err != nil {
		cancel()
		return nil, err
	}
	s.SKM = skm
	s.Cloud.SetSecretKeyManager(skm)
	rtm := security.NewReconnectTokenManager(&security.ReconnectTokenConfig{SecretKey: "verif-reconnect-secret-0123456789", TTL: 30 * time.Second}, s.Storage)
	s.SM.SetReconnectTokenManager(rtm)

	connCodeRepo := repos.NewConnectionCodeRepository(s.Repo)
	pms := s.Cloud.GetPortMappingService()
	pmr := repos.NewPortMappingRepo(s.Repo)
	s.Domains = repos.NewHTTPDomainMappingRepository(s.Repo, []string{"tunnox.net", "tunnel.test.local"})
	s.ConnCode = services.NewConnectionCodeService(connCodeRepo, pms, pmr, o.ConnCode, ctx)
	s.Auth = appserver.NewServerAuthHandler(s.Cloud, s.SM, s.Brute, s.IPM, s.RL, s.SKM)
	s.Tunnel = appserver.NewServerTunnelHandler(s.Cloud, s.ConnCode)
	s.SM.SetAuthHandler(s.Auth)
	s.SM.SetTunnelHandler(s.Tunnel)
	s.SM.SetCloudControl(session.NewCloudControlAdapter(s.Cloud))
	s.SM.SetNodeID(s.NodeID)
	tsm := session.NewTunnelStateManager(s.Storage, "")
	s.SM.SetTunnelStateManager(tsm)
	s.SM.SetMigrationManager(session.NewTunnelMigrationManager(tsm, s.SM))
	if o.RoutingTTL > 0 {
		s.Routing = session.NewTunnelRoutingTable(s.Storage, o.RoutingTTL)
		s.SM.SetTunnelRoutingTable(s.Routing)
		// dedicated cross-node connections, as components_session.go installs them
		s.SM.SetTunnelConnectionManager(session.NewTunnelConnectionManager(s.Routing.GetNodeAddress, session.DefaultTunnelConnectionManagerConfig()))
	}
	if o.ConnStateTTL > 0 {
		s.State = session.NewConnectionStateStore(s.Storage, s.NodeID, o.ConnStateTTL)
		s.SM.SetConnectionStateStore(s.State)
	}
	if !o.NoCommands {
		reg := command.NewCommandRegistry(ctx)
		ex := command.NewCommandExecutor(reg, ctx)
		ex.SetSession(s.SM)
		if err := s.SM.SetCommandExecutor(ex); err != nil {
			cancel()
			return nil, err
		}
		s.Registry = reg
		if err := appserver.NewConnectionCodeCommandHandlers(s.ConnCode, s.SM).RegisterHandlers(reg); err != nil {
			cancel()
			return nil, err
		}
		if err := appserver.NewConfigCommandHandlers(s.Auth, s.SM).RegisterHandlers(reg); err != nil {
			cancel()
			return nil, err
		}
		if err := appserver.NewMappingCommandHandlers(s.ConnCode, s.SM).RegisterHandlers(reg); err != nil {
			cancel()
			return nil, err
		}
		if err := appserver.NewHTTPDomainCommandHandlers(s.SM, s.Domains).RegisterHandlers(reg); err != nil {
			cancel()
			return nil, err
		}
	}
	return s, nil
}

// Close shuts the server down.
func (s *Server) Close() {
	s.SM.Close()
	s.Cancel()
}

// Client is the harness side of one accepted connection.
type Client struct {
	Srv    *Server
	ConnID string
	Near   *vkit.BufConn // the client's end
	Far    *vkit.BufConn // the end handed to the server
	SP     *stream.StreamProcessor
	// credentials learnt by HandshakeNew
	ClientID int64
	Secret   string
}

// Connect accepts a new in-memory connection whose RemoteAddr (as the server sees it) is remote ("ip:port").
func (s *Server) Connect(remote string) (*Client, error) { return s.ConnectFrom(remote, nil) }

// ConnectFrom is Connect with the peer address given as a net.Addr value (when a is not nil).
func (s *Server) ConnectFrom(remote string, a net.Addr) (*Client, error) {
	near, far := vkit.NewBufConnPair(remote, "10.0.0.1:8000")
	if a != nil {
		far.SetRemoteAddr(a)
	}
	sc, err := s.SM.AcceptConnection(far, far)
	if err != nil {
		near.Close()
		far.Close()
		return nil, err
	}
	c := &Client{Srv: s, ConnID: sc.ID, Near: near, Far: far}
	c.SP = stream.NewStreamProcessor(near, near, context.Background())
	return c, nil
}

// Push hands one packet to the session dispatcher for this connection, as
// adapter.connectionReadLoop does after decoding it.
func (c *Client) Push(p *packet.TransferPacket) error {
	return c.Srv.SM.HandlePacket(&coretypes.StreamPacket{ConnectionID: c.ConnID, Packet: p, Timestamp: time.Now()})
}

// Recv decodes the next packet the server wrote to this client, waiting at most d.
func (c *Client) Recv(d time.Duration) (*packet.TransferPacket, error) {
	c.Near.SetReadDeadline(time.Now().Add(d))
	defer c.Near.SetReadDeadline(time.Time{})
	p, _, err := c.SP.ReadPacket()
	return p, err
}

// RecvHandshakeResp reads packets until a HandshakeResp arrives (config pushes are skipped).
func (c *Client) RecvHandshakeResp(d time.Duration) (*packet.HandshakeResponse, error) {
	deadline := time.Now().Add(d)
	for {
		p, err := c.Recv(time.Until(deadline))
		if err != nil {
			return nil, err
		}
		if p.PacketType&0x3F == packet.HandshakeResp {
			var r packet.HandshakeResponse
			if err := json.Unmarshal(p.Payload, &r); err != nil {
				return nil, err
			}
			return &r, nil
		}
	}
}

// Handshake pushes a handshake request and returns the response the server wrote and the dispatcher's error.
func (c *Client) Handshake(req *packet.HandshakeRequest) (*packet.HandshakeResponse, error, error) {
	b, _ := json.Marshal(req)
	herr := c.Push(&packet.TransferPacket{PacketType: packet.Handshake, Payload: b})
	resp, rerr := c.RecvHandshakeResp(15 * time.Second)
	return resp, herr, rerr
}

// HandshakeNew registers a brand-new anonymous client on this connection.
func (c *Client) HandshakeNew(connType string) (*packet.HandshakeResponse, error) {
	resp, herr, rerr := c.Handshake(&packet.HandshakeRequest{ClientID: 0, Token: "new-client", Version: "2.0", Protocol: "tcp", ConnectionType: connType})
	if rerr != nil {
		return nil, fmt.Errorf("no handshake response: %v (dispatcher: %v)", rerr, herr)
	}
	if resp.Success {
		c.ClientID, c.Secret = resp.ClientID, resp.SecretKey
	}
	return resp, herr
}

// ComputeResponse is HMAC-SHA256(secret, challenge) in hex, computed independently of SecretKeyManager.
func ComputeResponse(secret, challenge string) string {
	m := hmac.New(sha256.New, []byte(secret))
	m.Write([]byte(challenge))
	return hex.EncodeToString(m.Sum(nil))
}

// Login performs the two-phase challenge-response handshake for (id, secret).
func (c *Client) Login(id int64, secret, connType string) (*packet.HandshakeResponse, error) {
	r1, _, rerr := c.Handshake(&packet.HandshakeRequest{ClientID: id, Version: "2.0", Protocol: "tcp", ConnectionType: connType})
	if rerr != nil {
		return nil, rerr
	}
	if !r1.NeedResponse || r1.Challenge == "" {
		return r1, nil
	}
	r2, _, rerr := c.Handshake(&packet.HandshakeRequest{ClientID: id, Version: "2.0", Protocol: "tcp", ConnectionType: connType,
		ChallengeResponse: ComputeResponse(secret, r1.Challenge)})
	if rerr != nil {
		return nil, rerr
	}
	if r2.Success {
		c.ClientID, c.Secret = id, secret
	}
	return r2, nil
}

// CloseByPeer closes the client's end and performs what the adapter's read loop does
// when the transport fails: SessionManager.CloseConnection + close of the transport.
func (c *Client) CloseByPeer() {
	c.Near.Close()
	c.Srv.SM.CloseConnection(c.ConnID)
	c.Far.Close()
	c.SP.Close()
}

// Drain discards everything buffered for the client.
func (c *Client) Drain() { c.Near.ReadAllAvailable() }
