package miniserver

import (
	"testing"
	"time"

	"tunnox-core/verif/vkit"
)

func TestSmoke(t *testing.T) {
	vkit.SilenceLogs()
	t0 := time.Now()
	s, err := New(Options{ConnStateTTL: time.Minute, RoutingTTL: time.Minute})
	if err != nil {
		t.Fatal(err)
	}
	defer s.Close()
	t.Logf("built in %v", time.Since(t0))
	c, err := s.Connect("1.2.3.4:5555")
	if err != nil {
		t.Fatal(err)
	}
	r, err := c.HandshakeNew("control")
	if err != nil || !r.Success {
		t.Fatalf("new: %+v %v", r, err)
	}
	t.Logf("client %d secret %q", c.ClientID, c.Secret)
	c2, _ := s.Connect("1.2.3.4:5556")
	r2, err := c2.Login(c.ClientID, c.Secret, "control")
	if err != nil || !r2.Success {
		t.Fatalf("login: %+v %v", r2, err)
	}
	cc := s.SM.GetControlConnectionByClientID(c.ClientID)
	if cc == nil || cc.GetConnID() != c2.ConnID {
		t.Fatalf("lookup: %v", cc)
	}
	r3, _ := c2.Login(c.ClientID, "wrong", "control")
	if r3.Success {
		t.Fatal("wrong secret accepted")
	}
}
