package vkit

import (
	"errors"
	"sync/atomic"
	"time"

	"tunnox-core/internal/core/storage/hybrid"
)

// ErrOutage is returned by every data operation of an OutageStore while the outage is switched on.
var ErrOutage = errors.New("vkit: injected storage outage")

// OutageStore is the server's storage facade (hybrid.Storage, embedded so that every optional
// interface and hybrid-specific method keeps working) whose data operations can be made to fail
// for a while: a state-store outage at a chosen moment of a history.
type OutageStore struct {
	*hybrid.Storage
	Down  atomic.Bool
	Fails atomic.Int64
}

func NewOutageStore(h *hybrid.Storage) *OutageStore { return &OutageStore{Storage: h} }

func (o *OutageStore) down() bool {
	if o.Down.Load() {
		o.Fails.Add(1)
		return true
	}
	return false
}

func (o *OutageStore) Set(k string, v any, ttl time.Duration) error {
	if o.down() {
		return ErrOutage
	}
	return o.Storage.Set(k, v, ttl)
}
func (o *OutageStore) Get(k string) (any, error) {
	if o.down() {
		return nil, ErrOutage
	}
	return o.Storage.Get(k)
}
func (o *OutageStore) Delete(k string) error {
	if o.down() {
		return ErrOutage
	}
	return o.Storage.Delete(k)
}
func (o *OutageStore) Exists(k string) (bool, error) {
	if o.down() {
		return false, ErrOutage
	}
	return o.Storage.Exists(k)
}
func (o *OutageStore) SetNX(k string, v any, ttl time.Duration) (bool, error) {
	if o.down() {
		return false, ErrOutage
	}
	return o.Storage.SetNX(k, v, ttl)
}
func (o *OutageStore) SetList(k string, v []any, ttl time.Duration) error {
	if o.down() {
		return ErrOutage
	}
	return o.Storage.SetList(k, v, ttl)
}
func (o *OutageStore) GetList(k string) ([]any, error) {
	if o.down() {
		return nil, ErrOutage
	}
	return o.Storage.GetList(k)
}
func (o *OutageStore) AppendToList(k string, v any) error {
	if o.down() {
		return ErrOutage
	}
	return o.Storage.AppendToList(k, v)
}
func (o *OutageStore) RemoveFromList(k string, v any) error {
	if o.down() {
		return ErrOutage
	}
	return o.Storage.RemoveFromList(k, v)
}
func (o *OutageStore) SetHash(k, f string, v any) error {
	if o.down() {
		return ErrOutage
	}
	return o.Storage.SetHash(k, f, v)
}
func (o *OutageStore) GetHash(k, f string) (any, error) {
	if o.down() {
		return nil, ErrOutage
	}
	return o.Storage.GetHash(k, f)
}
func (o *OutageStore) Incr(k string) (int64, error) {
	if o.down() {
		return 0, ErrOutage
	}
	return o.Storage.Incr(k)
}
func (o *OutageStore) SetExpiration(k string, ttl time.Duration) error {
	if o.down() {
		return ErrOutage
	}
	return o.Storage.SetExpiration(k, ttl)
}
