package vkit

import (
	"context"
	"fmt"
	"sort"
	"strings"
	"sync"
	"time"

	"tunnox-core/internal/core/storage/memory"
	stypes "tunnox-core/internal/core/storage/types"
)

// GateCache is the real in-memory backend with every operation parked on a Gate first.
// It can serve as the cache / shared cache tier under hybrid.Storage or as a storage on its own.
type GateCache struct {
	*memory.Storage
	G     *Gate
	Tier  string
	mu    sync.Mutex
	Touch map[string]map[string]int // key -> op -> count (tier-class oracle)
}

func NewGateCache(g *Gate, tier string) *GateCache {
	return &GateCache{Storage: memory.New(context.Background()), G: g, Tier: tier, Touch: map[string]map[string]int{}}
}

func (c *GateCache) enter(op, key string, write bool) error {
	c.mu.Lock()
	m := c.Touch[key]
	if m == nil {
		m = map[string]int{}
		c.Touch[key] = m
	}
	m[op]++
	c.mu.Unlock()
	if c.G == nil {
		return nil
	}
	return c.G.Enter(c.Tier+"."+op, key, write)
}

// Touched reports the operations seen for key (sorted).
func (c *GateCache) Touched(key string) []string {
	c.mu.Lock()
	defer c.mu.Unlock()
	var out []string
	for op := range c.Touch[key] {
		out = append(out, op)
	}
	sort.Strings(out)
	return out
}

func (c *GateCache) Set(key string, value any, ttl time.Duration) error {
	if err := c.enter("Set", key, true); err != nil {
		return err
	}
	return c.Storage.Set(key, value, ttl)
}
func (c *GateCache) Get(key string) (any, error) {
	if err := c.enter("Get", key, false); err != nil {
		return nil, err
	}
	return c.Storage.Get(key)
}
func (c *GateCache) Delete(key string) error {
	if err := c.enter("Delete", key, true); err != nil {
		return err
	}
	return c.Storage.Delete(key)
}
func (c *GateCache) Exists(key string) (bool, error) {
	if err := c.enter("Exists", key, false); err != nil {
		return false, err
	}
	return c.Storage.Exists(key)
}
func (c *GateCache) SetNX(key string, value any, ttl time.Duration) (bool, error) {
	if err := c.enter("SetNX", key, true); err != nil {
		return false, err
	}
	return c.Storage.SetNX(key, value, ttl)
}
func (c *GateCache) CompareAndSwap(key string, o, n any, ttl time.Duration) (bool, error) {
	if err := c.enter("CompareAndSwap", key, true); err != nil {
		return false, err
	}
	return c.Storage.CompareAndSwap(key, o, n, ttl)
}
func (c *GateCache) SetList(key string, v []any, ttl time.Duration) error {
	if err := c.enter("SetList", key, true); err != nil {
		return err
	}
	return c.Storage.SetList(key, v, ttl)
}
func (c *GateCache) GetList(key string) ([]any, error) {
	if err := c.enter("GetList", key, false); err != nil {
		return nil, err
	}
	return c.Storage.GetList(key)
}
func (c *GateCache) AppendToList(key string, v any) error {
	if err := c.enter("AppendToList", key, true); err != nil {
		return err
	}
	return c.Storage.AppendToList(key, v)
}
func (c *GateCache) RemoveFromList(key string, v any) error {
	if err := c.enter("RemoveFromList", key, true); err != nil {
		return err
	}
	return c.Storage.RemoveFromList(key, v)
}
func (c *GateCache) SetHash(key, f string, v any) error {
	if err := c.enter("SetHash", key, true); err != nil {
		return err
	}
	return c.Storage.SetHash(key, f, v)
}
func (c *GateCache) GetHash(key, f string) (any, error) {
	if err := c.enter("GetHash", key, false); err != nil {
		return nil, err
	}
	return c.Storage.GetHash(key, f)
}
func (c *GateCache) GetAllHash(key string) (map[string]any, error) {
	if err := c.enter("GetAllHash", key, false); err != nil {
		return nil, err
	}
	return c.Storage.GetAllHash(key)
}
func (c *GateCache) DeleteHash(key, f string) error {
	if err := c.enter("DeleteHash", key, true); err != nil {
		return err
	}
	return c.Storage.DeleteHash(key, f)
}
func (c *GateCache) Incr(key string) (int64, error) {
	if err := c.enter("Incr", key, true); err != nil {
		return 0, err
	}
	return c.Storage.Incr(key)
}
func (c *GateCache) IncrBy(key string, n int64) (int64, error) {
	if err := c.enter("IncrBy", key, true); err != nil {
		return 0, err
	}
	return c.Storage.IncrBy(key, n)
}
func (c *GateCache) SetExpiration(key string, ttl time.Duration) error {
	if err := c.enter("SetExpiration", key, true); err != nil {
		return err
	}
	return c.Storage.SetExpiration(key, ttl)
}
func (c *GateCache) GetExpiration(key string) (time.Duration, error) {
	if err := c.enter("GetExpiration", key, false); err != nil {
		return 0, err
	}
	return c.Storage.GetExpiration(key)
}

// Raw gives ungated access to the underlying memory store (for oracles).
func (c *GateCache) Raw() *memory.Storage { return c.Storage }

// ---------------------------------------------------------------------------

// GatePersistent is a trivial map-backed PersistentStorage whose operations park on a Gate.
type GatePersistent struct {
	G     *Gate
	Tier  string
	mu    sync.Mutex
	M     map[string]any
	Touch map[string]map[string]int
}

func NewGatePersistent(g *Gate, tier string) *GatePersistent {
	return &GatePersistent{G: g, Tier: tier, M: map[string]any{}, Touch: map[string]map[string]int{}}
}

var _ stypes.PersistentStorage = (*GatePersistent)(nil)

func (p *GatePersistent) enter(op, key string, write bool) error {
	p.mu.Lock()
	m := p.Touch[key]
	if m == nil {
		m = map[string]int{}
		p.Touch[key] = m
	}
	m[op]++
	p.mu.Unlock()
	if p.G == nil {
		return nil
	}
	return p.G.Enter(p.Tier+"."+op, key, write)
}

func (p *GatePersistent) Touched(key string) []string {
	p.mu.Lock()
	defer p.mu.Unlock()
	var out []string
	for op := range p.Touch[key] {
		out = append(out, op)
	}
	sort.Strings(out)
	return out
}

func (p *GatePersistent) Set(key string, value any) error {
	if err := p.enter("Set", key, true); err != nil {
		return err
	}
	p.mu.Lock()
	p.M[key] = value
	p.mu.Unlock()
	return nil
}
func (p *GatePersistent) Get(key string) (any, error) {
	if err := p.enter("Get", key, false); err != nil {
		return nil, err
	}
	p.mu.Lock()
	defer p.mu.Unlock()
	v, ok := p.M[key]
	if !ok {
		return nil, stypes.ErrKeyNotFound
	}
	return v, nil
}
func (p *GatePersistent) Delete(key string) error {
	if err := p.enter("Delete", key, true); err != nil {
		return err
	}
	p.mu.Lock()
	delete(p.M, key)
	p.mu.Unlock()
	return nil
}
func (p *GatePersistent) Exists(key string) (bool, error) {
	if err := p.enter("Exists", key, false); err != nil {
		return false, err
	}
	p.mu.Lock()
	defer p.mu.Unlock()
	_, ok := p.M[key]
	return ok, nil
}
func (p *GatePersistent) BatchSet(items map[string]any) error {
	for k, v := range items {
		if err := p.Set(k, v); err != nil {
			return err
		}
	}
	return nil
}
func (p *GatePersistent) BatchGet(keys []string) (map[string]any, error) {
	out := map[string]any{}
	for _, k := range keys {
		if v, err := p.Get(k); err == nil {
			out[k] = v
		}
	}
	return out, nil
}
func (p *GatePersistent) BatchDelete(keys []string) error {
	for _, k := range keys {
		if err := p.Delete(k); err != nil {
			return err
		}
	}
	return nil
}
func (p *GatePersistent) QueryByField(prefix, field string, value any) ([]string, error) {
	return nil, nil
}
func (p *GatePersistent) QueryByPrefix(prefix string, limit int) (map[string]string, error) {
	if err := p.enter("QueryByPrefix", prefix, false); err != nil {
		return nil, err
	}
	p.mu.Lock()
	defer p.mu.Unlock()
	out := map[string]string{}
	for k, v := range p.M {
		if strings.HasPrefix(k, prefix) {
			out[k] = fmt.Sprint(v)
			if limit > 0 && len(out) >= limit {
				break
			}
		}
	}
	return out, nil
}
func (p *GatePersistent) Close() error { return nil }

// RawGet reads without gating (oracle use).
func (p *GatePersistent) RawGet(key string) (any, bool) {
	p.mu.Lock()
	defer p.mu.Unlock()
	v, ok := p.M[key]
	return v, ok
}
