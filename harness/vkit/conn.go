package vkit

import (
	"errors"
	"io"
	"net"
	"os"
	"sync"
	"sync/atomic"
	"time"
)

// ---------------------------------------------------------------------------
// ChunkReader: delivers a fixed byte string in prescribed read chunks.

// ChunkReader returns data in the chunk sizes given (a size 0 yields a (0,nil) read,
// as a WebSocket empty message or a spurious wake-up would). Bytes left after the
// last chunk are returned in one further read. A Read never returns more than len(p);
// what does not fit stays for the next call. If EOFWithLast is set the final bytes
// are returned together with io.EOF.
type ChunkReader struct {
	Data        []byte
	Chunks      []int
	EOFWithLast bool
	Fixed       int   // when > 0, bytes after the listed chunks are served in reads of this size
	Err         error // returned instead of io.EOF at the end when non-nil
	pos         int
	ci          int
	left        int // remaining bytes of the current chunk
	Reads       int
}

func (c *ChunkReader) Read(p []byte) (int, error) {
	c.Reads++
	end := c.Err
	if end == nil {
		end = io.EOF
	}
	if len(p) == 0 {
		return 0, nil
	}
	if c.left == 0 {
		if c.pos >= len(c.Data) {
			return 0, end
		}
		if c.ci < len(c.Chunks) {
			sz := c.Chunks[c.ci]
			c.ci++
			if sz <= 0 {
				return 0, nil
			}
			c.left = sz
		} else if c.Fixed > 0 {
			c.left = c.Fixed
		} else {
			c.left = len(c.Data) - c.pos
		}
		if rem := len(c.Data) - c.pos; c.left > rem {
			c.left = rem
		}
	}
	n := c.left
	if n > len(p) {
		n = len(p)
	}
	copy(p, c.Data[c.pos:c.pos+n])
	c.pos += n
	c.left -= n
	if c.pos >= len(c.Data) && c.EOFWithLast {
		return n, end
	}
	return n, nil
}

// Consumed is the number of bytes handed out so far.
func (c *ChunkReader) Consumed() int { return c.pos }

// ---------------------------------------------------------------------------
// BufConn: in-memory buffered duplex net.Conn pair.

type halfPipe struct {
	mu       sync.Mutex
	cond     *sync.Cond
	buf      []byte
	wclosed  bool // writer closed (EOF after drain)
	rclosed  bool // reader closed (writes fail)
	werr     error
	deadline time.Time
	timer    *time.Timer
	total    int64 // bytes ever written
	max      int   // > 0: back-pressure - a Write blocks while this many bytes are buffered and unread
}

func newHalf() *halfPipe { h := &halfPipe{}; h.cond = sync.NewCond(&h.mu); return h }

type addr string

func (a addr) Network() string { return "tcp" }
func (a addr) String() string  { return string(a) }

// BufConn is one end of an in-memory connection. Writes never block (unbounded
// buffer unless MaxBuf is set on the pair); reads block until data, EOF, close or deadline.
type BufConn struct {
	in, out    *halfPipe
	local      net.Addr
	remote     net.Addr
	closed     atomic.Bool
	closeCount atomic.Int32
	// ReadCap, when > 0, bounds the bytes returned per Read (short reads).
	ReadCap atomic.Int32
	// FailReadAfter / FailWriteAfter, when >= 0, make Read/Write fail once that many
	// bytes have passed through this end. -1 disables.
	FailReadAfter  atomic.Int64
	FailWriteAfter atomic.Int64
	readBytes      atomic.Int64
	writeBytes     atomic.Int64
	NoCloseWrite   bool
	// FailErr, when set (before use), is the error returned by injected read/write failures instead
	// of ErrInjected - e.g. TimeoutForever to model a transport whose every call fails with a
	// permanent error that reports Timeout()==true (QUIC idle timeout).
	FailErr error
	// EOFWithData: when the peer has closed and the remaining buffered bytes fit into one Read, they are
	// returned TOGETHER with io.EOF (allowed by io.Reader; QUIC stream conns do this).
	EOFWithData atomic.Bool
}

// TimeoutForever is a permanent transport error whose Timeout() is true and Temporary() is false.
var TimeoutForever error = timeoutForever{}

type timeoutForever struct{}

func (timeoutForever) Error() string   { return "vkit: idle timeout: no recent network activity" }
func (timeoutForever) Timeout() bool   { return true }
func (timeoutForever) Temporary() bool { return false }

func (c *BufConn) injected() error {
	if c.FailErr != nil {
		return c.FailErr
	}
	return ErrInjected
}

var ErrInjected = errors.New("vkit: injected transport error")

// NewBufConnPair returns two connected ends. aAddr/bAddr are the RemoteAddr seen by
// the *other* end: a.RemoteAddr()==bAddr, b.RemoteAddr()==aAddr.
func NewBufConnPair(aAddr, bAddr string) (a, b *BufConn) {
	ab, ba := newHalf(), newHalf()
	a = &BufConn{in: ba, out: ab, local: addr(aAddr), remote: addr(bAddr)}
	b = &BufConn{in: ab, out: ba, local: addr(bAddr), remote: addr(aAddr)}
	a.FailReadAfter.Store(-1)
	a.FailWriteAfter.Store(-1)
	b.FailReadAfter.Store(-1)
	b.FailWriteAfter.Store(-1)
	return
}

func (c *BufConn) Read(p []byte) (int, error) {
	if c.closed.Load() {
		return 0, io.ErrClosedPipe
	}
	if fa := c.FailReadAfter.Load(); fa >= 0 && c.readBytes.Load() >= fa {
		return 0, c.injected()
	}
	h := c.in
	h.mu.Lock()
	defer h.mu.Unlock()
	for {
		if h.rclosed {
			return 0, io.ErrClosedPipe
		}
		if len(h.buf) > 0 {
			n := len(p)
			if n > len(h.buf) {
				n = len(h.buf)
			}
			if rc := int(c.ReadCap.Load()); rc > 0 && n > rc {
				n = rc
			}
			if fa := c.FailReadAfter.Load(); fa >= 0 {
				room := fa - c.readBytes.Load()
				if room <= 0 {
					return 0, c.injected()
				}
				if int64(n) > room {
					n = int(room)
				}
			}
			copy(p, h.buf[:n])
			h.buf = h.buf[n:]
			if len(h.buf) == 0 {
				h.buf = nil
			}
			if h.max > 0 {
				h.cond.Broadcast() // room for a blocked writer
			}
			c.readBytes.Add(int64(n))
			if len(h.buf) == 0 && h.wclosed && h.werr == nil && c.EOFWithData.Load() {
				return n, io.EOF
			}
			return n, nil
		}
		if h.wclosed {
			if h.werr != nil {
				return 0, h.werr
			}
			return 0, io.EOF
		}
		if len(p) == 0 {
			return 0, nil
		}
		if !h.deadline.IsZero() && !time.Now().Before(h.deadline) {
			return 0, os.ErrDeadlineExceeded
		}
		h.cond.Wait()
	}
}

func (c *BufConn) Write(p []byte) (int, error) {
	if c.closed.Load() {
		return 0, io.ErrClosedPipe
	}
	n := len(p)
	var ferr error
	if fa := c.FailWriteAfter.Load(); fa >= 0 {
		room := fa - c.writeBytes.Load()
		if room <= 0 {
			return 0, c.injected()
		}
		if int64(n) > room {
			n = int(room)
			ferr = c.injected()
		}
	}
	h := c.out
	h.mu.Lock()
	if h.wclosed {
		h.mu.Unlock()
		return 0, io.ErrClosedPipe
	}
	if h.rclosed {
		h.mu.Unlock()
		return 0, io.ErrClosedPipe
	}
	if h.max > 0 {
		// bounded pipe: deliver in pieces, blocking while the reader does not drain (back-pressure)
		rest := p[:n]
		for len(rest) > 0 {
			for len(h.buf) >= h.max && !h.wclosed && !h.rclosed && !c.closed.Load() {
				h.cond.Wait()
			}
			if h.wclosed || h.rclosed || c.closed.Load() {
				written := n - len(rest)
				h.mu.Unlock()
				c.writeBytes.Add(int64(written))
				return written, io.ErrClosedPipe
			}
			k := h.max - len(h.buf)
			if k > len(rest) {
				k = len(rest)
			}
			h.buf = append(h.buf, rest[:k]...)
			h.total += int64(k)
			rest = rest[k:]
			h.cond.Broadcast()
		}
		h.mu.Unlock()
		c.writeBytes.Add(int64(n))
		return n, ferr
	}
	h.buf = append(h.buf, p[:n]...)
	h.total += int64(n)
	h.cond.Broadcast()
	h.mu.Unlock()
	c.writeBytes.Add(int64(n))
	return n, ferr
}

// Close closes both directions of this end: the peer reads EOF after draining and
// the peer's writes fail.
func (c *BufConn) Close() error {
	c.closeCount.Add(1)
	if c.closed.Swap(true) {
		return nil
	}
	c.out.mu.Lock()
	c.out.wclosed = true
	c.out.cond.Broadcast()
	c.out.mu.Unlock()
	c.in.mu.Lock()
	c.in.rclosed = true
	c.in.cond.Broadcast()
	c.in.mu.Unlock()
	return nil
}

// CloseWrite half-closes: the peer reads EOF after draining, this end can still read.
func (c *BufConn) CloseWrite() error {
	if c.NoCloseWrite {
		return errors.New("vkit: CloseWrite unsupported")
	}
	c.out.mu.Lock()
	c.out.wclosed = true
	c.out.cond.Broadcast()
	c.out.mu.Unlock()
	return nil
}

// Abort makes the peer's pending and future reads fail with err (transport reset).
func (c *BufConn) Abort(err error) {
	c.out.mu.Lock()
	c.out.wclosed = true
	c.out.werr = err
	c.out.buf = nil
	c.out.cond.Broadcast()
	c.out.mu.Unlock()
	c.Close()
}

// SetMaxBuffered bounds what the PEER may have buffered towards this end before its Write blocks
// (0 = unbounded). With a bound, a reader that stops reading exerts back-pressure on the writer.
func (c *BufConn) SetMaxBuffered(n int) {
	c.in.mu.Lock()
	c.in.max = n
	c.in.cond.Broadcast()
	c.in.mu.Unlock()
}

func (c *BufConn) IsClosed() bool       { return c.closed.Load() }
func (c *BufConn) CloseCalls() int      { return int(c.closeCount.Load()) }
func (c *BufConn) BytesRead() int64     { return c.readBytes.Load() }
func (c *BufConn) BytesWritten() int64  { return c.writeBytes.Load() }
func (c *BufConn) LocalAddr() net.Addr  { return c.local }
func (c *BufConn) RemoteAddr() net.Addr { return c.remote }
func (c *BufConn) SetRemote(a string)   { c.remote = addr(a) }

// SetRemoteAddr makes RemoteAddr return a itself (a *net.TCPAddr, *net.UDPAddr, ...): code that
// type-switches on the peer address sees what a real socket would give it.
func (c *BufConn) SetRemoteAddr(a net.Addr) { c.remote = a }
func (c *BufConn) SetDeadline(t time.Time) error {
	c.SetReadDeadline(t)
	return nil
}
func (c *BufConn) SetWriteDeadline(t time.Time) error { return nil }
func (c *BufConn) SetReadDeadline(t time.Time) error {
	h := c.in
	h.mu.Lock()
	h.deadline = t
	if h.timer != nil {
		h.timer.Stop()
		h.timer = nil
	}
	if !t.IsZero() {
		d := time.Until(t)
		if d < 0 {
			d = 0
		}
		h.timer = time.AfterFunc(d, func() {
			h.mu.Lock()
			h.cond.Broadcast()
			h.mu.Unlock()
		})
	}
	h.cond.Broadcast()
	h.mu.Unlock()
	return nil
}

// Pending returns how many bytes are buffered for this end to read.
func (c *BufConn) Pending() int {
	c.in.mu.Lock()
	defer c.in.mu.Unlock()
	return len(c.in.buf)
}

// ReadAllAvailable drains what is buffered right now without blocking.
func (c *BufConn) ReadAllAvailable() []byte {
	c.in.mu.Lock()
	defer c.in.mu.Unlock()
	b := c.in.buf
	c.in.buf = nil
	c.readBytes.Add(int64(len(b)))
	c.in.cond.Broadcast() // a writer waiting for room in a bounded pipe
	return b
}

// ReadWithTimeout reads up to len(p) bytes waiting at most d.
func (c *BufConn) ReadWithTimeout(p []byte, d time.Duration) (int, error) {
	c.SetReadDeadline(time.Now().Add(d))
	defer c.SetReadDeadline(time.Time{})
	return c.Read(p)
}
