package vkit

import (
	"bytes"
	"errors"
	"fmt"
	"runtime"
	"sort"
	"strconv"
	"sync"
	"time"
)

// ---------------------------------------------------------------------------
// Gate: a cooperative scheduler that owns every gated operation of the code under test.
//
// Tasks are goroutines started through Gate.Go. Every gated operation calls Enter
// first, which parks the calling goroutine; a single controller (Run) waits until no
// task is running any more, then asks a chooser which parked task proceeds. Goroutines
// spawned by the code under test are adopted as tasks when they first hit the gate.

var ErrGateFault = errors.New("vkit: injected storage fault")

type Step struct {
	Task   string `json:"task"`
	Op     string `json:"op"`
	Key    string `json:"key,omitempty"`
	Failed bool   `json:"failed,omitempty"`
}

func (s Step) String() string {
	f := ""
	if s.Failed {
		f = "!FAULT"
	}
	return s.Task + ":" + s.Op + "(" + s.Key + ")" + f
}

type gtask struct {
	name    string
	seq     int
	state   int // 0 running, 1 parked, 2 done
	adopted bool
	op      Step
	write   bool
	release chan bool // true = inject fault
	since   time.Time
}

type Gate struct {
	mu      sync.Mutex
	tasks   map[int64]*gtask
	all     []*gtask
	active  bool
	version uint64
	wake    chan struct{}
	log     []Step
	// FailAt: index (among released operations for which FailFilter holds) of the one
	// operation that fails with ErrGateFault; -1 = none.
	FailAt     int
	FailFilter func(Step, bool) bool
	failSeen   int
	// Grace is how long the controller waits for goroutines spawned by the code under
	// test to reach the gate (0: code spawns nothing). Stall bounds the wait for a
	// registered task that is blocked on something other than the gate.
	Grace  time.Duration
	Stall  time.Duration
	Stalls int
	nAdopt int
	// MaxSteps aborts runaway schedules.
	MaxSteps int
	Aborted  bool
}

func NewGate() *Gate {
	return &Gate{tasks: map[int64]*gtask{}, wake: make(chan struct{}, 1), FailAt: -1, Stall: 20 * time.Millisecond, MaxSteps: 2000}
}

func goid() int64 {
	var buf [64]byte
	n := runtime.Stack(buf[:], false)
	// "goroutine 123 ["
	b := buf[:n]
	b = b[len("goroutine "):]
	i := bytes.IndexByte(b, ' ')
	id, _ := strconv.ParseInt(string(b[:i]), 10, 64)
	return id
}

func (g *Gate) bump() {
	g.version++
	select {
	case g.wake <- struct{}{}:
	default:
	}
}

// Activate switches gating on (before that, Enter passes straight through: set-up phase).
func (g *Gate) Activate() { g.mu.Lock(); g.active = true; g.mu.Unlock() }

// Deactivate lets every parked and future operation through (tear-down / final reads).
func (g *Gate) Deactivate() {
	g.mu.Lock()
	g.active = false
	for _, t := range g.all {
		if t.state == 1 {
			t.state = 0
			t.release <- false
		}
	}
	g.mu.Unlock()
}

// Go starts a task.
func (g *Gate) Go(name string, fn func()) {
	g.mu.Lock()
	t := &gtask{name: name, seq: len(g.all), release: make(chan bool, 1), since: time.Now()}
	g.all = append(g.all, t)
	g.bump()
	g.mu.Unlock()
	go func() {
		id := goid()
		g.mu.Lock()
		g.tasks[id] = t
		g.mu.Unlock()
		defer func() {
			g.mu.Lock()
			t.state = 2
			delete(g.tasks, id)
			g.bump()
			g.mu.Unlock()
		}()
		fn()
	}()
}

// Enter parks the calling goroutine until the controller releases it. It returns
// ErrGateFault when this operation was chosen to fail (the caller must then not
// perform the operation).
func (g *Gate) Enter(op, key string, write bool) error {
	g.mu.Lock()
	if !g.active {
		g.mu.Unlock()
		return nil
	}
	id := goid()
	t := g.tasks[id]
	if t == nil {
		g.nAdopt++
		t = &gtask{name: fmt.Sprintf("bg%d", g.nAdopt), seq: len(g.all), adopted: true, release: make(chan bool, 1)}
		g.all = append(g.all, t)
		g.tasks[id] = t
	}
	t.state = 1
	t.op = Step{Task: t.name, Op: op, Key: key}
	t.write = write
	t.since = time.Now()
	g.bump()
	g.mu.Unlock()
	if fail := <-t.release; fail {
		return ErrGateFault
	}
	return nil
}

func (g *Gate) snapshot() (running, adoptedRunning int, parked []*gtask, ver uint64) {
	for _, t := range g.all {
		switch t.state {
		case 0:
			if t.adopted {
				adoptedRunning++
			} else {
				running++
			}
		case 1:
			parked = append(parked, t)
		}
	}
	sort.Slice(parked, func(i, j int) bool { return parked[i].seq < parked[j].seq })
	return running, adoptedRunning, parked, g.version
}

// quiesce waits until every task is parked or done. Returns the parked tasks.
func (g *Gate) quiesce() []*gtask {
	lastVer := ^uint64(0)
	lastChange := time.Now()
	for {
		g.mu.Lock()
		running, adoptedRunning, parked, ver := g.snapshot()
		g.mu.Unlock()
		if ver != lastVer {
			lastVer = ver
			lastChange = time.Now()
		}
		idle := time.Since(lastChange)
		if running == 0 {
			// registered tasks are all parked/done; give spawned goroutines a chance to reach the gate
			if g.Grace == 0 && adoptedRunning == 0 {
				return parked
			}
			if idle >= g.Grace {
				// adopted goroutines that did not come back within the grace period have finished
				g.mu.Lock()
				if g.version == ver {
					for _, t := range g.all {
						if t.adopted && t.state == 0 {
							t.state = 2
						}
					}
					_, _, parked, _ = g.snapshot()
					g.mu.Unlock()
					return parked
				}
				g.mu.Unlock()
				continue
			}
			for i := 0; i < 10; i++ {
				runtime.Gosched()
			}
			select {
			case <-g.wake:
			case <-time.After(g.Grace / 4):
			}
			continue
		}
		if idle >= g.Stall && len(parked) > 0 {
			// a registered task is blocked on something that is not gated (a lock held by a parked task)
			g.Stalls++
			return parked
		}
		if idle >= 50*g.Stall+2*time.Second {
			g.Aborted = true
			return parked
		}
		select {
		case <-g.wake:
		case <-time.After(200 * time.Microsecond):
		}
	}
}

// Run drives the schedule: choose(n, descriptions) returns the index of the parked
// task to release. It returns the executed step log when no task is left.
func (g *Gate) Run(choose func(n int, desc []string) int) []Step {
	for steps := 0; ; steps++ {
		parked := g.quiesce()
		if len(parked) == 0 {
			g.mu.Lock()
			running, _, _, _ := g.snapshot()
			g.mu.Unlock()
			if running == 0 || g.Aborted {
				break
			}
			continue
		}
		if steps >= g.MaxSteps || g.Aborted {
			g.Aborted = true
			g.Deactivate()
			break
		}
		desc := make([]string, len(parked))
		for i, t := range parked {
			desc[i] = t.op.String()
		}
		c := 0
		if len(parked) > 1 {
			c = choose(len(parked), desc)
			if c < 0 || c >= len(parked) {
				c = 0
			}
		} else {
			choose1(choose, desc)
		}
		t := parked[c]
		g.mu.Lock()
		fail := false
		if g.FailAt >= 0 && (g.FailFilter == nil || g.FailFilter(t.op, t.write)) {
			if g.failSeen == g.FailAt {
				fail = true
			}
			g.failSeen++
		}
		st := t.op
		st.Failed = fail
		g.log = append(g.log, st)
		t.state = 0
		t.since = time.Now()
		g.bump()
		g.mu.Unlock()
		t.release <- fail
	}
	g.mu.Lock()
	defer g.mu.Unlock()
	return append([]Step(nil), g.log...)
}

// single-option steps are not choice points; choosers are not consulted.
func choose1(func(int, []string) int, []string) {}

// Log returns the steps released so far.
func (g *Gate) Log() []Step { g.mu.Lock(); defer g.mu.Unlock(); return append([]Step(nil), g.log...) }

// FaultCandidates is the number of released operations that matched FailFilter.
func (g *Gate) FaultCandidates() int { g.mu.Lock(); defer g.mu.Unlock(); return g.failSeen }

// ---------------------------------------------------------------------------
// choosers

// Picks is a chooser backed by a pre-drawn list (rapid draws it; it shrinks and replays).
type Picks struct {
	List []int
	pos  int
	Used []int
}

func (p *Picks) Choose(n int, _ []string) int {
	c := 0
	if p.pos < len(p.List) {
		c = p.List[p.pos] % n
		if c < 0 {
			c = -c
		}
	}
	p.pos++
	p.Used = append(p.Used, c)
	return c
}

// DFS enumerates all schedules by prefix re-execution.
type DFS struct {
	prefix   []int
	trace    []int
	widths   []int
	Diverged int
	Runs     int
}

func (d *DFS) Choose(n int, _ []string) int {
	i := len(d.trace)
	c := 0
	if i < len(d.prefix) {
		c = d.prefix[i]
		if c >= n {
			c = n - 1
			d.Diverged++
		}
	}
	d.trace = append(d.trace, c)
	d.widths = append(d.widths, n)
	return c
}

// Trace is the choice sequence of the last run.
func (d *DFS) Trace() []int { return append([]int(nil), d.trace...) }

// Next prepares the next schedule; false when the tree is exhausted.
func (d *DFS) Next() bool {
	d.Runs++
	for i := len(d.trace) - 1; i >= 0; i-- {
		if d.trace[i]+1 < d.widths[i] {
			d.prefix = append(append([]int(nil), d.trace[:i]...), d.trace[i]+1)
			d.trace, d.widths = nil, nil
			return true
		}
	}
	d.trace, d.widths = nil, nil
	return false
}

// StepsString renders a step log compactly.
func StepsString(s []Step) string {
	var b bytes.Buffer
	for i, x := range s {
		if i > 0 {
			b.WriteString(" ; ")
		}
		b.WriteString(x.String())
	}
	return b.String()
}
