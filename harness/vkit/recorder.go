// Package vkit is the shared kit of the tunnox-core verification harness:
// evidence recorder, known-finding filter, rapid driver glue, fake transports,
// the gate scheduler and a goroutine-leak oracle.
package vkit

import (
	"encoding/json"
	"flag"
	"fmt"
	"hash/fnv"
	"io"
	"os"
	"path/filepath"
	"regexp"
	"sort"
	"strconv"
	"strings"
	"sync"
	"testing"
	"time"

	"github.com/sirupsen/logrus"
	"pgregory.net/rapid"

	corelog "tunnox-core/internal/core/log"
	"tunnox-core/internal/utils"
)

// TB is what both *testing.T and *rapid.T offer.
type TB interface {
	Helper()
	Fatalf(format string, args ...any)
	Logf(format string, args ...any)
}

type violation struct {
	Key    string `json:"key"`
	Detail string `json:"detail"`
	Replay string `json:"replay"`
	Test   string `json:"test"`
}

type knownEntry struct {
	Property string `json:"property"`
	Key      string `json:"key"`
	Status   string `json:"status"`
	What     string `json:"what"`
}

type recorder struct {
	mu        sync.Mutex
	prop      string
	tier      string
	seed      int64
	shard     int
	nshards   int
	start     time.Time
	evals     int64
	classes   map[string]int64
	nt        map[uint64]struct{}
	samples   []any
	perClass  map[string]int
	knownHits map[string]int64
	knownWhat map[string]string
	knownSmp  map[string]any
	viol      []violation
	violSeen  map[string]bool
	excluded  int64
	skipped   int64
	extra     map[string]any
	known     []knownEntry
	exhaust   map[string]bool
	replayDir string
	outPath   string
}

var rec = &recorder{
	classes: map[string]int64{}, nt: map[uint64]struct{}{}, perClass: map[string]int{},
	knownHits: map[string]int64{}, knownWhat: map[string]string{}, knownSmp: map[string]any{},
	violSeen: map[string]bool{}, extra: map[string]any{}, exhaust: map[string]bool{},
	tier: "quick", seed: 1, nshards: 1,
}

// Root returns /verif (overridable through VERIF_ROOT for tests of the kit itself).
func Root() string {
	if r := os.Getenv("VERIF_ROOT"); r != "" {
		return r
	}
	return "/verif"
}

// Main is called from every property package's TestMain.
func Main(m *testing.M, prop string) {
	rec.prop = prop
	rec.start = time.Now()
	if t := os.Getenv("VERIF_TIER"); t == "thorough" {
		rec.tier = "thorough"
	}
	if s, err := strconv.ParseInt(os.Getenv("VERIF_SEED"), 10, 64); err == nil {
		rec.seed = s
	}
	if s, err := strconv.Atoi(os.Getenv("VERIF_SHARD")); err == nil {
		rec.shard = s
	}
	if s, err := strconv.Atoi(os.Getenv("VERIF_NSHARDS")); err == nil && s > 0 {
		rec.nshards = s
	}
	rec.outPath = os.Getenv("VERIF_OUT")
	rec.replayDir = filepath.Join(Root(), "replays", prop)
	if d := os.Getenv("VERIF_REPLAY_DIR"); d != "" {
		rec.replayDir = d
	}
	loadKnown(filepath.Join(Root(), "known_findings.json"))
	SilenceLogs()
	flag.Parse()
	code := m.Run()
	Flush()
	os.Exit(code)
}

func loadKnown(path string) {
	b, err := os.ReadFile(path)
	if err != nil {
		return
	}
	var f struct {
		Findings []knownEntry `json:"findings"`
	}
	if json.Unmarshal(b, &f) == nil {
		for _, e := range f.Findings {
			if e.Status == "open" && e.Property == rec.prop {
				rec.known = append(rec.known, e)
			}
		}
	}
}

// SilenceLogs routes every logger of tunnox-core to io.Discard.
func SilenceLogs() {
	l := logrus.New()
	l.SetOutput(io.Discard)
	l.SetLevel(logrus.PanicLevel)
	if utils.Logger != nil {
		utils.Logger.SetOutput(io.Discard)
		utils.Logger.SetLevel(logrus.PanicLevel)
	}
	logrus.SetOutput(io.Discard)
	logrus.SetLevel(logrus.PanicLevel)
	corelog.SetDefault(corelog.NewNopLogger())
}

func Tier() string     { return rec.tier }
func Thorough() bool   { return rec.tier == "thorough" }
func Seed() int64      { return rec.seed }
func Shard() int       { return rec.shard }
func NShards() int     { return rec.nshards }
func Replaying() string { return os.Getenv("VERIF_REPLAY") }

// Pick returns q in the quick tier and th in the thorough tier.
func Pick(q, th int) int {
	if Thorough() {
		return th
	}
	return q
}

// PerShard divides a total case count over the shards (at least 1).
func PerShard(total int) int {
	n := total / rec.nshards
	if n < 1 {
		n = 1
	}
	return n
}

// Mine reports whether element i of an enumerated space belongs to this shard.
func Mine(i int) bool { return i%rec.nshards == rec.shard }

func hash64(s string) uint64 {
	h := fnv.New64a()
	h.Write([]byte(s))
	return h.Sum64()
}

// RapidSeed derives the PRNG value for a named check from VERIF_SEED and the shard.
func RapidSeed(name string) uint64 {
	v := uint64(rec.seed)*0x9E3779B97F4A7C15 ^ hash64(name) ^ (uint64(rec.shard+1) * 0xD1B54A32D192ED03)
	if v == 0 {
		v = 1
	}
	return v
}

var rapidMu sync.Mutex

// Check runs a rapid property with a tier-dependent total case count divided over
// the shards and a seed that is a pure function of VERIF_SEED, shard and name.
func Check(t *testing.T, quickTotal, thoroughTotal int, prop func(*rapid.T)) {
	t.Helper()
	rapidMu.Lock()
	defer rapidMu.Unlock()
	if os.Getenv("VERIF_RAPID_FAILFILE") == "" {
		flag.Set("rapid.checks", strconv.Itoa(PerShard(Pick(quickTotal, thoroughTotal))))
		flag.Set("rapid.seed", strconv.FormatUint(RapidSeed(t.Name()), 10))
	}
	if st := os.Getenv("VERIF_SHRINKTIME"); st != "" {
		flag.Set("rapid.shrinktime", st)
	} else {
		flag.Set("rapid.shrinktime", "20s")
	}
	rapid.Check(t, prop)
}

// Case records one executed case. class feeds the histogram, sig identifies the case
// for distinctness, nontrivial is the property-specific rule.
func Case(class string, nontrivial bool, sig string) {
	rec.mu.Lock()
	rec.evals++
	rec.classes[class]++
	if nontrivial {
		rec.nt[hash64(sig)] = struct{}{}
	}
	rec.mu.Unlock()
}

// Class adds to the class histogram without counting an evaluation.
func Class(class string) {
	rec.mu.Lock()
	rec.classes[class]++
	rec.mu.Unlock()
}

// Sample keeps the first two cases of every class (at most 16 in total).
func Sample(class string, v any) {
	rec.mu.Lock()
	defer rec.mu.Unlock()
	if len(rec.samples) >= 16 || rec.perClass[class] >= 2 {
		return
	}
	rec.perClass[class]++
	rec.samples = append(rec.samples, map[string]any{"class": class, "case": v})
}

func Excluded(n int) { rec.mu.Lock(); rec.excluded += int64(n); rec.mu.Unlock() }
func Skipped(n int)  { rec.mu.Lock(); rec.skipped += int64(n); rec.mu.Unlock() }

// Extra stores an additional coverage key (last write wins; numbers are summed by the driver).
func Extra(k string, v any) { rec.mu.Lock(); rec.extra[k] = v; rec.mu.Unlock() }

// AddExtra adds to a numeric coverage key.
func AddExtra(k string, n int64) {
	rec.mu.Lock()
	old, _ := rec.extra[k].(int64)
	rec.extra[k] = old + n
	rec.mu.Unlock()
}

// Exhaustive marks an enumerated sub-space as completely explored by this shard.
func Exhaustive(space string, done bool) { rec.mu.Lock(); rec.exhaust[space] = done; rec.mu.Unlock() }

func matchKnown(key string) (knownEntry, bool) {
	for _, e := range rec.known {
		if e.Key == key {
			return e, true
		}
		if strings.HasSuffix(e.Key, "*") && strings.HasPrefix(key, strings.TrimSuffix(e.Key, "*")) {
			return e, true
		}
	}
	return knownEntry{}, false
}

// IsKnown reports whether key is listed as an open finding (without counting a hit).
func IsKnown(key string) bool { _, ok := matchKnown(key); return ok }

// KnownHits returns how often a listed finding was confirmed so far in this process.
func KnownHits(key string) int64 {
	rec.mu.Lock()
	defer rec.mu.Unlock()
	if e, ok := matchKnown(key); ok {
		return rec.knownHits[e.Key]
	}
	return 0
}

var sanitize = regexp.MustCompile(`[^A-Za-z0-9_.=-]+`)

// Violation reports that the oracle failed on the current case. key is the root-cause
// class computed by the oracle. If key is a listed open finding the hit is counted and
// Violation returns (the caller abandons the rest of the case); otherwise a replay
// file is written and the test fails (rapid then shrinks).
func Violation(t TB, key, detail string, repro any) {
	t.Helper()
	rec.mu.Lock()
	if e, ok := matchKnown(key); ok {
		rec.knownHits[e.Key]++
		rec.knownWhat[e.Key] = e.What
		if _, have := rec.knownSmp[e.Key]; !have {
			rec.knownSmp[e.Key] = map[string]any{"key": key, "detail": detail, "case": repro}
		}
		rec.mu.Unlock()
		return
	}
	if strings.Contains(key, "/harness/") {
		// a failure of the harness itself (set-up could not be established) is inconclusive, never a violation
		rec.mu.Unlock()
		t.Fatalf("HARNESS-ERROR %s: %s", key, detail)
		return
	}
	name := ""
	if n, ok := t.(interface{ Name() string }); ok {
		name = n.Name()
	}
	os.MkdirAll(rec.replayDir, 0o755)
	path := filepath.Join(rec.replayDir, sanitize.ReplaceAllString(key, "_")+".json")
	b, _ := json.MarshalIndent(map[string]any{
		"property": rec.prop, "key": key, "detail": detail, "test": name,
		"seed": rec.seed, "shard": rec.shard, "nshards": rec.nshards, "tier": rec.tier, "case": repro,
	}, "", " ")
	os.WriteFile(path, b, 0o644)
	if !rec.violSeen[key] {
		rec.violSeen[key] = true
		rec.viol = append(rec.viol, violation{Key: key, Detail: detail, Replay: path, Test: name})
	} else {
		for i := range rec.viol {
			if rec.viol[i].Key == key {
				rec.viol[i].Detail = detail
			}
		}
	}
	rec.mu.Unlock()
	flushLocked()
	t.Fatalf("VIOLATION-KEY %s: %s", key, detail)
}

// Flush writes this shard's evidence fragment to VERIF_OUT.
func Flush() { flushLocked() }

func flushLocked() {
	rec.mu.Lock()
	defer rec.mu.Unlock()
	if rec.outPath == "" {
		return
	}
	hs := make([]string, 0, len(rec.nt))
	for h := range rec.nt {
		hs = append(hs, strconv.FormatUint(h, 36))
	}
	sort.Strings(hs)
	known := []map[string]any{}
	for k, n := range rec.knownHits {
		known = append(known, map[string]any{"key": k, "hits": n, "what": rec.knownWhat[k], "sample": rec.knownSmp[k]})
	}
	out := map[string]any{
		"property": rec.prop, "tier": rec.tier, "seed": rec.seed, "shard": rec.shard, "nshards": rec.nshards,
		"evaluations": rec.evals, "classes": rec.classes, "nontrivial_hashes": hs, "samples": rec.samples,
		"known": known, "violations": rec.viol, "excluded_by_construction": rec.excluded,
		"skipped_timing_steps": rec.skipped, "extra": rec.extra, "exhaustive": rec.exhaust,
		"wall_s": time.Since(rec.start).Seconds(),
	}
	b, _ := json.Marshal(out)
	tmp := rec.outPath + ".tmp"
	if os.WriteFile(tmp, b, 0o644) == nil {
		os.Rename(tmp, rec.outPath)
	}
}

// Journal records the case that is about to be executed, so that a crash of the whole
// process (a panic in a goroutine spawned by the code under test cannot be recovered)
// can be attributed by the driver: the journal file then becomes the replay file.
func Journal(test string, c any) {
	if rec.outPath == "" {
		return
	}
	b, _ := json.Marshal(map[string]any{"property": rec.prop, "key": rec.prop + "/process-crash", "test": test,
		"seed": rec.seed, "shard": rec.shard, "tier": rec.tier, "case": c})
	os.WriteFile(rec.outPath+".journal", b, 0o644)
}

// LoadReplay decodes the "case" member of a JSON replay file into v.
func LoadReplay(path string, v any) (key string, err error) {
	b, err := os.ReadFile(path)
	if err != nil {
		return "", err
	}
	var f struct {
		Key  string          `json:"key"`
		Case json.RawMessage `json:"case"`
	}
	if err := json.Unmarshal(b, &f); err != nil {
		return "", err
	}
	if err := json.Unmarshal(f.Case, v); err != nil {
		return f.Key, fmt.Errorf("case: %w", err)
	}
	return f.Key, nil
}
